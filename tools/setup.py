#!/usr/bin/env python3
"""Offline setup: verifies the tool chain; nothing is cached (every check
rebuilds from /repo's working tree)."""
import shutil, subprocess, sys
need = ['cbmc', 'goto-cc', 'goto-instrument', 'rsync', 'python3']
bad = [t for t in need if not shutil.which(t)]
if bad:
    print('missing tools:', bad); sys.exit(1)
v = subprocess.run(['cbmc', '--version'], capture_output=True, text=True).stdout.strip()
print('cbmc', v)
sys.exit(0)
