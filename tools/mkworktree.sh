#!/bin/sh
# usage: mkworktree.sh <dir> [rev]   -- scratch git worktree of /repo, configured and built.
# Remove with: git -C /repo worktree remove --force <dir>
set -e
D="$1"; REV="${2:-HEAD}"
git -C /repo worktree add -q --detach "$D" "$REV"
cd /repo
git ls-files -o -i --exclude-standard | grep -E '(^|/)(Makefile\.in|configure|aclocal\.m4|abt_config\.h\.in|Version)$|^m4/|^README$' | rsync -a --files-from=- /repo/ "$D"/
cd "$D"
./configure -q >/dev/null 2>&1
make -j"${JOBS:-8}" >/dev/null 2>&1
echo "worktree ready: $D"
