#!/bin/sh
# usage: confirm_mutant.sh <worktree> <mutant-dir>   (mutant-dir holds patch.diff, demo.sh|demo.c)
# Confirms: patch applies, builds, test suite passes with it, demo fails with it and passes without.
W=$1; M=$2; J=${JOBS:-4}
cd $W || exit 9
git checkout -q -- src && make -j$J >/dev/null 2>&1
run_demo() { if [ -f $M/demo.sh ]; then (cd $M && timeout 300 sh ./demo.sh $W >/tmp/demo.$$.log 2>&1); else (gcc -I$W/src/include $M/demo.c -L$W/src/.libs -labt -lpthread -lm -o /tmp/demo.$$ && LD_LIBRARY_PATH=$W/src/.libs timeout 120 /tmp/demo.$$ >/tmp/demo.$$.log 2>&1); fi; echo $?; }
echo "clean demo rc: $(run_demo)"
git apply $M/patch.diff || { echo "PATCH DOES NOT APPLY"; exit 1; }
make -j$J >/dev/null 2>&1 || { echo "BUILD FAILED"; git checkout -q -- src; exit 1; }
echo "mutant demo rc: $(run_demo)"; tail -3 /tmp/demo.$$.log
make -C test -j$J check >/tmp/suite.$$.log 2>&1; echo "suite rc=$?"; grep -E "^# (PASS|FAIL|ERROR):" /tmp/suite.$$.log | tr '\n' ' '; echo
git checkout -q -- src && make -j$J >/dev/null 2>&1
rm -f /tmp/demo.$$ /tmp/demo.$$.log /tmp/suite.$$.log
