#!/usr/bin/env python3
"""Regenerate MANIFEST.json from units/*.json (claimed properties) and
units/not_applicable.json (reasons for the others)."""
import json, os, glob
V = os.path.dirname(os.path.dirname(os.path.abspath(__file__)))
props = [json.loads(l) for l in open(V + '/properties.jsonl')]
na_file = V + '/units/not_applicable.json'
na_reasons = json.load(open(na_file)) if os.path.exists(na_file) else {}
checks, na, served = [], [], []
for p in props:
    pid = p['id']
    uf = V + '/units/%s.json' % pid
    t = json.load(open(uf)) if os.path.exists(uf) else None
    if t and t.get('claimed', False):
        mf = t['manifest']
        served.append(pid)
        checks.append({
            'property_id': pid,
            'quick_cmd': './check %s --tier quick' % pid,
            'thorough_cmd': './check %s --tier thorough' % pid,
            'evidence_file': 'evidence/%s.json' % pid,
            'replay_cmd_template': './check %s --replay {path}' % pid,
            'engine': 'cbmc-contracts',
            'level_claimed': {'category': 'proof', 'text': mf['text'],
                              'design_ref': mf.get('design_ref', 'DESIGN.md section 5, ' + pid)},
            'level_note': mf['note'],
            'technique': mf.get('technique', 'CBMC code contracts (goto-instrument --dfcc) enforced on the real functions'),
        })
    else:
        na.append({'property_id': pid,
                   'reason': na_reasons.get(pid, 'not implemented yet in this round (contract units under construction); the family can address it, see DESIGN.md section 5')})
m = {
    'version': 1,
    'setup_cmd': 'python3 tools/setup.py',
    'hooks': {'guard': 'ABT_VERIF',
              'enable': 'no source hook is needed: contracts are attached out of tree by re-declaration; -DABT_VERIF is passed only to /verif translation units',
              'baseline_off_cmd': 'sh /verif/tools/run_baseline.sh',
              'source_commits': [], 'add_only': True},
    'engines': [{'name': 'cbmc-contracts', 'path': 'tools/runner.py',
                 'serves_properties': served,
                 'kind_free_text': 'CBMC 6.11 code contracts (DFCC) enforced per function on the real /repo sources; loop contracts inserted mechanically into a scratch copy; bounded (--unwind + unwinding assertions) stand-ins labelled as such'}],
    'checks': checks,
    'not_applicable': na,
    'notes': 'Exit 2 = undecided (time-out / tool error / stale contract); never reported as violation. See DESIGN.md.',
}
json.dump(m, open(V + '/MANIFEST.json', 'w'), indent=1)
print('claimed:', served)
