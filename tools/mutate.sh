#!/bin/sh
# usage: mutate.sh <Cxx> <sed-expr> <file-relative-to-src> [check args]
# Applies a sed edit to a scratch copy of /repo/src and runs the check on it.
set -e
M=$(mktemp -d /tmp/vfmut.XXXX)
rsync -a --exclude='*.o' --exclude='*.lo' --exclude=.libs --exclude=.deps /repo/src/ $M/src/
P=$1; E=$2; F=$3; shift 3
sed -i -E "$E" $M/src/$F
diff -u /repo/src/$F $M/src/$F | head -20 || true
VF_REPO=$M VF_NOEVIDENCE=1 python3 /verif/tools/runner.py $P "$@" || echo "exit=$?"
rm -rf $M
