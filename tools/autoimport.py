#!/usr/bin/env python3
"""Suggest imports: a unit of another property whose verified real functions live in one of
this property's anchor files (properties.jsonl) but which this property's check does not run.
Reads evidence/*.json (per-unit 'real_functions' = fn@file).  usage: autoimport.py [--apply MAXSEC]"""
import json, os, re, sys, glob
V = os.path.dirname(os.path.dirname(os.path.abspath(__file__)))
props = {json.loads(l)['id']: json.loads(l) for l in open(V + '/properties.jsonl')}
tabs = {os.path.basename(f)[:-5]: json.load(open(f)) for f in glob.glob(V + '/units/C*.json')}
sys.path.insert(0, V + '/tools')
import importlib.util
spec = importlib.util.spec_from_file_location('cov', V + '/tools/coverage.py')
# function -> defining files (regex scan of /repo/src, as in coverage.py)
FN = re.compile(r'^(?:static\s+)?(?:inline\s+)?(?:ABTU_\w+\s+)*[A-Za-z_][\w \*]*?\b(\w+)\s*\([^;{]*\)\s*\{', re.M | re.S)
fdef = {}
for root, _, files in os.walk('/repo/src'):
    for fn in files:
        if fn.endswith(('.c', '.h')):
            path = os.path.join(root, fn); txt = re.sub(r'/\*.*?\*/', '', open(path, errors='replace').read(), flags=re.S)
            for m in FN.finditer(txt): fdef.setdefault(m.group(1), set()).add('src/' + os.path.relpath(path, '/repo/src'))
umain = {}
for P_, t in tabs.items():
    for u in t['units']:
        names = set()
        for x in u.get('enforce', []) + u.get('verified_inline', []):
            for w in re.findall(r'[A-Za-z_]\w+', x): names.add(w)
        umain[u['name']] = set().union(*[fdef.get(n, set()) for n in names]) if names else set()
ufiles, usecs, uhome, uheavy = {}, {}, {}, {}
for f in glob.glob(V + '/evidence/C*.json'):
    ev = json.load(open(f)); P = ev['property_id']
    own = set(u['name'] for u in tabs[P]['units'])
    for u in ev['coverage']['units']:
        if u['unit'] in own:
            ufiles[u['unit']] = set('src/' + x.split('@', 1)[1] for x in u.get('real_functions', []) if '@' in x)
            # header files count only through functions that carry a real share of the unit's obligations (>= 4):
            # one-line accessors of abti_*.h are pulled into every unit
            uheavy[u['unit']] = set('src/' + k.split('@', 1)[1] for k, n in u.get('real_function_obligations', {}).items() if n >= 4)
            usecs[u['unit']] = sum(u['seconds'].values()); uhome[u['unit']] = P
def included(P):
    s = set(u['name'] for u in tabs[P]['units'])
    for imp in tabs[P].get('import', []):
        for u in tabs[imp['from']]['units']:
            if any(re.search(rx, u['name']) for rx in imp.get('names', ['.'])): s.add(u['name'])
    return s
apply_max = float(sys.argv[sys.argv.index('--apply') + 1]) if '--apply' in sys.argv else None
for P in sorted(props):
    anchors = set(props[P]['anchors']['files']); have = included(P); cand = []
    for u, fs in ufiles.items():
        if u in have or uhome[u] == P: continue
        hit = (umain.get(u, set()) & anchors) | set(f for f in (fs & anchors) if f.endswith('.c')) | (uheavy.get(u, set()) & anchors)  # main functions, any real function of a .c anchor file, or a header function with >= 4 obligations
        # headers pulled in everywhere carry obligations in many units: require a non-trivial overlap
        if hit: cand.append((u, uhome[u], round(usecs[u]), sorted(hit)))
    if cand:
        print(P, 'runs', len(have), 'units; candidates:')
        for u, h, s, hit in sorted(cand, key=lambda x: x[1]): print('   %-40s from %s %4ds  %s' % (u, h, s, ' '.join(x.replace('src/', '') for x in hit)[:100]))
        if apply_max is not None:
            t = tabs[P]
            for u, h, s, hit in cand:
                if s <= apply_max:
                    imps = t.setdefault('import', [])
                    e = next((i for i in imps if i['from'] == h), None)
                    if e is None: e = {'from': h, 'names': []}; imps.append(e)
                    rx = '^' + re.escape(u) + '$'
                    if rx not in e['names']: e['names'].append(rx)
            json.dump(t, open(V + '/units/%s.json' % P, 'w'), indent=1)
