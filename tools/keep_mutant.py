#!/usr/bin/env python3
"""keep_mutant.py <prop> <mname> <srcdir> <confirm-log-excerpt>: store a confirmed seeded change under seeded/<prop>-<mname>/"""
import json, os, shutil, sys
prop, m, src, note = sys.argv[1:5]
dst = '/verif/seeded/%s-%s' % (prop, m)
os.makedirs(dst, exist_ok=True)
for f in os.listdir(src):
    if f in ('patch.diff', 'meta.json') or f.startswith('demo') or f.endswith(('.c', '.sh', '.h')):
        if os.path.isfile(os.path.join(src, f)) and os.path.getsize(os.path.join(src, f)) < 200000:
            shutil.copy(os.path.join(src, f), dst)
mp = os.path.join(dst, 'meta.json')
try:
    meta = json.load(open(mp))
except Exception:
    meta = {}
meta['property'] = prop
meta['confirmed'] = {'by': 'tools/confirm_mutant.sh in a scratch worktree (patch applies, library builds, whole test suite passes with it, demo fails with it and passes without)', 'result': note}
meta.setdefault('detected_by', 'see DESIGN.md section 9 (filled in by tools/seeded_run.py)')
json.dump(meta, open(mp, 'w'), indent=1)
print('kept', dst)
