#!/usr/bin/env python3
"""Run the quick check of the owning property (plus optional extra properties)
against every seeded change: apply to /repo, run, ALWAYS undo.  Writes
seeded/RESULTS.json.  usage: seeded_run.py [id ...] [--props C01,C02]"""
import json, os, re, subprocess, sys, glob
V = os.path.dirname(os.path.dirname(os.path.abspath(__file__)))
args = [a for a in sys.argv[1:] if not a.startswith('--')]
extra = []
for a in sys.argv[1:]:
    if a.startswith('--props='):
        extra = a.split('=')[1].split(',')
ids = args or sorted(os.path.basename(d) for d in glob.glob(V + '/seeded/C*'))
resf = V + '/seeded/RESULTS.json'
res = json.load(open(resf)) if os.path.exists(resf) else {}
assert subprocess.run(['git', '-C', '/repo', 'status', '--porcelain', '--untracked-files=no'], capture_output=True, text=True).stdout.strip() == '', '/repo not clean'
for i in ids:
    d = V + '/seeded/' + i
    prop = i.split('-')[0]
    props = [prop] + [p for p in extra if p != prop]
    meta = json.load(open(d + '/meta.json'))
    props += [p for p in meta.get('also_check', []) if p not in props]
    r = subprocess.run(['git', '-C', '/repo', 'apply', d + '/patch.diff'], capture_output=True, text=True)
    if r.returncode != 0:
        res[i] = {'error': 'patch does not apply: ' + r.stderr[-300:]}
        print(i, res[i]); continue
    try:
        out = {}
        for p in props:
            if not os.path.exists(V + '/units/%s.json' % p):
                out[p] = {'exit': None, 'note': 'no check yet'}
                continue
            env = dict(os.environ, VF_NOEVIDENCE='1')
            c = subprocess.run([V + '/check', p, '--tier', 'quick'], capture_output=True, text=True, env=env, cwd=V)
            fails = re.findall(r'^\s+FAILED (\S+)\s+\((\S+)\)\s*(.*)$', c.stdout, re.M)
            units = re.findall(r'^FAIL\s+(\S+)', c.stdout, re.M)
            und = re.findall(r'^UNDECIDED\s+(\S+)', c.stdout, re.M)
            out[p] = {'exit': c.returncode, 'failing_units': units, 'undecided_units': und,
                      'failed_obligations': ['%s (%s) %s' % f for f in fails[:8]],
                      'violation_lines': [l for l in c.stdout.splitlines() if l.startswith('VIOLATION')]}
        res[i] = {'summary': meta.get('summary', '')[:300], 'checks': out,
                  'detected': any(v.get('exit') == 1 for v in out.values())}
        print(i, 'DETECTED' if res[i]['detected'] else 'missed', {p: v.get('exit') for p, v in out.items()},
              [u for v in out.values() for u in v.get('failing_units', [])])
    finally:
        subprocess.run(['git', '-C', '/repo', 'checkout', '--', '.'], check=True)
    json.dump(res, open(resf, 'w'), indent=1)
json.dump(res, open(resf, 'w'), indent=1)
