#!/bin/sh
# Runs the repository's own test suite with the guard OFF (the suite never
# sees ABT_VERIF: no /repo source mentions it).
set -e
cd "${VF_REPO:-/repo}"
[ -f Makefile ] || ./configure -q
make -j16 >/dev/null
make -C test -j16 check
