import json,sys
pid=sys.argv[1]
import glob,os
avoid=[]
for d in glob.glob('/verif/seeded/%s-*'%pid):
    try: avoid+=json.load(open(d+'/meta.json')).get('functions_touched',[]) or []
    except Exception: pass
avoid=sorted(set(avoid))
WT=os.environ.get('WT','/tmp/wt2')
for l in open('/verif/properties.jsonl'):
    p=json.loads(l)
    if p['id']==pid: break
print(f"""You are helping to evaluate a verification effort by producing realistic *seeded defects* for a C library.

The library is Argobots (a lightweight user-level threading runtime in C). You have your OWN scratch git worktree of it, already configured and built in-tree, at:

    {WT}/{pid}

Work ONLY inside that directory (and {WT}/{pid}-* scratch files if you need them). Do NOT read or touch /repo, /verif, or any other {WT}/* directory. There is no network. Use at most 4 parallel make jobs (other jobs share this machine).

Build: `cd {WT}/{pid} && make -j4` (in-tree autotools build; library lands in src/.libs/libabt.so, public header src/include/abt.h). Test suite: `make -C test -j4 check` (about 119 tests under test/basic, test/benchmark, test/leakcheck; takes a minute or two; all pass on the unmodified tree).

Here is a semantic property that the library is supposed to satisfy:

  Title: {p['title']}
  Statement: {p['statement']}
  Quantified over: {p['quantifier']['text']}
  Relevant source files (starting points): {', '.join(p['anchors']['files'])}

YOUR TASK: produce TWO independent changes ("mutants") to the library source (under src/ only; never edit tests) such that each one:
  1. BREAKS the property above (a real semantic violation, not merely a style change);
  2. still COMPILES, and the complete existing test suite still PASSES with it (run it; if a test is flaky, rerun to confirm);
  3. is REALISTIC — the kind of slip a maintainer could make in a refactoring or 'optimisation' (an off-by-one, a dropped store, a wrong branch/condition, wrong order of two operations, a missed rollback on an error path, a wrong memory-order/atomic variant, a missed special case ...), a few lines at most;
  4. needs something SPECIFIC to manifest — a particular interleaving, a fault (e.g. allocation failure) at a particular point, a multi-step sequence of operations, an unusual input, or two cooperating sites that each look fine alone — NOT something ordinary use would expose at once (that's why the existing tests must still pass).
The two mutants should differ in mechanism and preferably touch different functions/files. Other people have already produced mutants in these functions, so choose OTHER functions/sites: {', '.join(avoid) if avoid else '(none)'}.

For EACH mutant also write a DEMONSTRATION: a small standalone C program (or shell script driving one) using the public API (or, if unavoidable, including internal headers / .c files from src/) that FAILS (non-zero exit / assertion / sanitizer report / hang detected by timeout) when built against the mutated tree and PASSES when built against the unmodified tree. If the manifestation needs a rare interleaving you may force it deterministically (e.g. sleeps, many iterations, fault injection via LD_PRELOAD/malloc wrapper, calling internal functions directly) — say how. Verify BOTH directions yourself.

Deliverables — create these files:
  {WT}/{pid}/mutants/m1/patch.diff   (output of `git diff` for src/ only, applies with `git apply` to a clean tree)
  {WT}/{pid}/mutants/m1/demo.c (and demo.sh if needed: how to build & run; must return non-zero on the mutated tree, zero on the clean tree)
  {WT}/{pid}/mutants/m1/meta.json   with keys: property ("{pid}"), summary (one paragraph: what was changed and why it breaks the property), needs_to_manifest (what specific interleaving/fault/sequence/input it needs), functions_touched (list), files_touched (list), how_verified (the exact commands you ran and what you observed, both directions, plus the test-suite result)
  and the same under {WT}/{pid}/mutants/m2/.
When done, leave the worktree's src/ CLEAN (git checkout -- src) with the build restored to unmodified (make -j4). Final answer: a brief summary of both mutants (what/where/how it manifests) and whether all checks passed. If you cannot make a valid mutant for some reason, say so honestly rather than delivering one that fails a requirement.""")
