#!/usr/bin/env python3
"""Validate MANIFEST.json and evidence files against the schemas (uses the
tooling venv's jsonschema when the system python has none)."""
import json, sys, os, glob
try:
    import jsonschema
except ImportError:
    os.execvp('python3-vt', ['python3-vt'] + sys.argv)
V = os.path.dirname(os.path.dirname(os.path.abspath(__file__)))
ok = True
def chk(doc, schema, name):
    global ok
    try:
        jsonschema.validate(json.load(open(doc)), json.load(open(schema)))
        print('valid  ', name)
    except Exception as e:
        ok = False
        print('INVALID', name, str(e)[:400])
chk(V + '/MANIFEST.json', '/root/.vp/MANIFEST.schema.json', 'MANIFEST.json')
for f in sorted(glob.glob(V + '/evidence/*.json')):
    chk(f, '/root/.vp/EVIDENCE.schema.json', os.path.relpath(f, V))
m = json.load(open(V + '/MANIFEST.json'))
props = [json.loads(l)['id'] for l in open(V + '/properties.jsonl')]
claimed = [c['property_id'] for c in m['checks']]
na = [c['property_id'] for c in m.get('not_applicable', [])]
for p in props:
    if (p in claimed) == (p in na):
        ok = False
        print('property', p, 'must be exactly one of claimed / not_applicable')
sys.exit(0 if ok else 1)
