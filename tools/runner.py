#!/usr/bin/env python3
"""Unit runner for the contract-based checks (see DESIGN.md section 3).

./check <Cxx> [--tier quick|thorough] [--only unit[,unit]] [--keep] [--jobs N]
./check <Cxx> --replay <file>

Exit codes: 0 all obligations discharged (KNOWN-FINDING lines possible),
            1 VIOLATION (an obligation that is a necessary condition failed),
            2 UNDECIDED (time-out, tool error, stale contract, vacuity, ...).
"""
import argparse
import concurrent.futures as cf
import hashlib
import json
import os
import re
import shutil
import subprocess
import sys
import tempfile
import time

VERIF = os.path.dirname(os.path.dirname(os.path.abspath(__file__)))
REPO = os.environ.get('VF_REPO', '/repo')
sys.path.insert(0, os.path.join(VERIF, 'tools'))
import annotate  # noqa: E402

STD_FLAGS = ['--pointer-overflow-check', '--pointer-primitive-check']
MEM_KB = 12 * 1024 * 1024


def sh(cmd, timeout, cwd=None, mem_kb=MEM_KB):
    """Run cmd (list) under ulimit -v and a time-out. Returns (rc, out, err,
    secs); rc = 'timeout' on time-out."""
    t0 = time.time()
    pre = 'ulimit -v %d; exec "$@"' % mem_kb
    try:
        p = subprocess.run(['bash', '-c', pre, 'sh'] + cmd, cwd=cwd,
                           stdout=subprocess.PIPE, stderr=subprocess.PIPE,
                           timeout=timeout, text=True, errors='replace')
        return p.returncode, p.stdout, p.stderr, time.time() - t0
    except subprocess.TimeoutExpired as e:
        out = e.stdout or ''
        if isinstance(out, bytes):
            out = out.decode(errors='replace')
        return 'timeout', out, '', time.time() - t0


def make_scratch(keep=False):
    base = os.environ.get('TMPDIR', '/tmp')
    scr = tempfile.mkdtemp(prefix='vf.', dir=base)
    src = os.path.join(scr, 'src')
    subprocess.run(['rsync', '-a', '--exclude=*.o', '--exclude=*.lo',
                    '--exclude=*.la', '--exclude=.libs', '--exclude=.deps',
                    '--exclude=.dirstamp', '--exclude=Makefile*',
                    REPO + '/src/', src + '/'], check=True)
    cfg = os.path.join(src, 'include', 'abt_config.h')
    abt = os.path.join(src, 'include', 'abt.h')
    if not (os.path.exists(cfg) and os.path.exists(abt)):
        # tree not configured: configure out of tree in scratch
        bdir = os.path.join(scr, 'cfg')
        os.makedirs(bdir)
        r = subprocess.run([REPO + '/configure', '-q'], cwd=bdir,
                           stdout=subprocess.DEVNULL,
                           stderr=subprocess.DEVNULL)
        for n in ('abt_config.h', 'abt.h'):
            g = os.path.join(bdir, 'src', 'include', n)
            if os.path.exists(g):
                shutil.copy(g, os.path.join(src, 'include', n))
        shutil.rmtree(bdir, ignore_errors=True)
    return scr


def config_hash(scr):
    try:
        with open(os.path.join(scr, 'src/include/abt_config.h'), 'rb') as f:
            return hashlib.sha256(f.read()).hexdigest()[:16]
    except OSError:
        return 'missing'


class UnitResult:
    def __init__(self, unit):
        self.unit = unit
        self.status = 'UNDECIDED'   # PASS | FAIL | UNDECIDED
        self.reason = ''
        self.checks = []            # list of dict(id, desc, status, loc)
        self.failed = []
        self.unknown = []
        self.reach_ok = 0
        self.reach_bad = []
        self.secs = {'goto-cc': 0.0, 'dfcc': 0.0, 'cbmc': 0.0}
        self.cmds = []
        self.log_tail = ''
        self.loop_obls = 0
        self.dropped_callees = []
        self.real_fn_obl = {}       # fn@file -> number of obligations located in it
        self.real_fns = set()       # functions of /repo whose real body is in
                                    # the verified program (carry obligations)

    def n_obl(self):
        return len([c for c in self.checks if not c['reach']])

    def n_ok(self):
        return len([c for c in self.checks
                    if not c['reach'] and c['status'] == 'SUCCESS'])


def parse_cbmc_json(out):
    """Return (results list, messages list, prover status) from --json-ui."""
    try:
        data = json.loads(out)
    except json.JSONDecodeError:
        # truncated output (time-out): try to salvage nothing
        return None, [], None
    results, msgs, status = None, [], None
    for item in data:
        if 'result' in item:
            results = item['result']
        if 'messageText' in item:
            msgs.append(item.get('messageType', '') + ': ' +
                        item['messageText'])
        if 'cProverStatus' in item:
            status = item['cProverStatus']
    return results, msgs, status


def build_unit(u, scr, workdir, tier, trace=False, common_replace=()):
    """Compile, instrument and run one unit. Returns UnitResult."""
    common_replace = common_replace or u.get('_common', ())
    if u.get('no_common'):
        common_replace = ()
    r = UnitResult(u)
    name = u['name']
    scr_root = os.path.dirname(workdir)   # scratch root (plain + annotated trees)
    gb = os.path.join(workdir, name + '.gb')
    gbi = os.path.join(workdir, name + '.i.gb')
    for f in (gb, gbi):
        if os.path.exists(f):
            os.remove(f)
    src = os.path.join(VERIF, u['src'])
    incs = ['-I' + os.path.join(scr, 'src/include'),
            '-I' + os.path.join(scr, 'src/pool'),
            '-I' + os.path.join(scr, 'src'),
            '-I' + VERIF, '-I' + os.path.join(VERIF, 'env'),
            '-I' + os.path.join(VERIF, 'contracts')]
    defs = ['-DABT_VERIF', '-DHAVE_CONFIG_H'] + u.get('defines', [])
    # generous caps: a time-out is UNDECIDED (exit 2), and units run 16 at a
    # time, so a loaded machine must not turn a 100 s proof into a time-out
    cap = 3 * u.get('timeout', 120)
    if tier == 'thorough':
        cap = max(cap, u.get('timeout_thorough', 900))
    entry = u['entry']
    # mechanical extraction steps (e.g. assembly -> C over a machine model),
    # redone on every run from the tree under verification; a failure of the
    # extractor (unknown instruction ...) leaves the unit UNDECIDED
    for g in u.get('gen', []):
        gdir = os.path.join(workdir, name + '.gen')
        os.makedirs(gdir, exist_ok=True)
        gcmd = ['python3', os.path.join(VERIF, g['tool']),
                os.path.join(scr, g['input']), '-I',
                os.path.join(scr, 'src/include'), '-o',
                os.path.join(gdir, g['output'])]
        rc, out, err, s = sh(gcmd, 120)
        r.cmds.append(' '.join(gcmd))
        if rc != 0:
            r.reason = 'extraction failed (%s): %s' % (g['tool'],
                                                       (err or out)[-800:])
            return r
        r.gen_log = getattr(r, 'gen_log', '') + out.strip()
        incs.append('-I' + gdir)
    cmd = ['goto-cc'] + incs + defs + ['--function', entry, src, '-o', gb]
    rc, out, err, s = sh(cmd, 120)
    r.secs['goto-cc'] = s
    r.cmds.append(' '.join(cmd))
    if rc != 0 or not os.path.exists(gb):
        r.reason = 'goto-cc failed (contract or harness out of date?): ' + \
            (err or out)[-1500:]
        return r
    uses_contracts = bool(u.get('enforce') or u.get('replace')
                          or u.get('loop_contracts') or common_replace)
    if uses_contracts:
        # Callees named for replacement that are no longer in the program
        # (the code under verification stopped calling them, or never did in
        # this unit) are dropped: DFCC refuses unknown symbols, and the
        # obligations about a vanished callee then fail by themselves.
        rc2, lo, le, s0 = sh(['goto-instrument', '--list-goto-functions', gb],
                             120)
        r.secs['dfcc'] += s0
        present = set(m.group(1) for m in re.finditer(
            r'^(\S+) /\* (?!contract::)', lo, re.M))
        replace = list(u.get('replace', [])) + \
            [f for f in common_replace if f not in u.get('replace', [])
             and f not in u.get('enforce', [])
             and f not in u.get('keep_real', [])]
        r.dropped_callees = [f for f in u.get('replace', [])
                             if f not in present]
        replace = [f for f in replace if f in present]
        cmd = ['goto-instrument', '--dfcc', entry]
        for f in u.get('enforce', []):
            cmd += ['--enforce-contract', f]
        for f in replace:
            cmd += ['--replace-call-with-contract', f]
        if u.get('loop_contracts'):
            cmd += ['--apply-loop-contracts']
        cmd += [gb, gbi]
        rc, out, err, s = sh(cmd, 300)
        r.secs['dfcc'] = s
        r.cmds.append(' '.join(cmd))
        if rc != 0 or not os.path.exists(gbi):
            r.reason = 'goto-instrument failed: ' + (err or out)[-1500:]
            return r
        r.dfcc_log = out + err
    else:
        gbi = gb
        r.dfcc_log = ''
    if u.get('restrict_fp'):
        # CBMC resolves a call through a function pointer to every
        # address-taken function of a compatible type; where the code under
        # verification installs exactly one callback, the unit names it
        # (stated in the unit table as an assumption).
        gbr = os.path.join(workdir, name + '.r.gb')
        cmd = ['goto-instrument']
        for spec in u['restrict_fp']:
            cmd += ['--restrict-function-pointer', spec]
        cmd += [gbi, gbr]
        rc, out, err, s = sh(cmd, 300)
        r.cmds.append(' '.join(cmd))
        if rc != 0 or not os.path.exists(gbr):
            r.reason = 'goto-instrument (restrict-function-pointer) failed: ' \
                + (err or out)[-1500:]
            return r
        gbi = gbr
    cmd = ['cbmc', gbi, '--json-ui'] + STD_FLAGS
    for f in u.get('no_flags', []):
        if f in cmd:
            cmd.remove(f)
    cmd += u.get('flags', [])
    if 'unwind_user' in u:
        # bound the loops of the code under verification only; the loops of
        # the contract-instrumentation library (over assigns-clause entries)
        # get a bound they always finish within
        rcl, lo, le, sl = sh(['goto-instrument', '--show-loops', gbi], 120)
        names = re.findall(r'^Loop (\S+):', lo, re.M)
        us = ['%s:%d' % (n, u['unwind_user']) for n in names
              if not n.startswith('__CPROVER')]
        cmd += ['--unwind', '64']
        if us:
            cmd += ['--unwindset', ','.join(us)]
    elif 'unwind' in u:
        cmd += ['--unwind', str(u['unwind'])]
    if 'object_bits' in u:
        cmd += ['--object-bits', str(u['object_bits'])]
    if trace:
        cmd += ['--trace']
    rc, out, err, s = sh(cmd, cap)
    r.secs['cbmc'] = s
    # default pointer encoding has 8 object bits (fast); widen only on demand
    for bits in ('10', '12'):
        if rc != 'timeout' and 'too many addressed objects' in (out + err) \
                and 'object_bits' not in u:
            cmd = [c for c in cmd if c not in ('--object-bits', '10')] + \
                ['--object-bits', bits]
            rc, out, err, s = sh(cmd, cap)
            r.secs['cbmc'] += s
    r.cmds.append(' '.join(cmd))
    if rc == 'timeout':
        r.reason = 'cbmc time-out after %ds' % cap
        return r
    results, msgs, status = parse_cbmc_json(out)
    r.log_tail = '\n'.join(msgs[-25:])
    if results is None:
        r.reason = 'cbmc gave no result (rc=%s): %s' % (
            rc, ('\n'.join(msgs[-8:]) or err or out)[-1500:])
        return r
    # log scan
    allowed_nobody = set(u.get('nobody_ok', []))
    for m in msgs:
        if 'ignoring' in m and ('forall' in m or 'exists' in m):
            r.reason = 'quantifier ignored by back end: ' + m
            return r
        mm = re.search(r'no body for (?:function|callee) (\S+)', m)
        if mm and mm.group(1) not in allowed_nobody:
            r.reason = 'unexpected body-less function: ' + mm.group(1)
            return r
    for c in results:
        desc = c.get('description', '')
        loc = c.get('sourceLocation', {})
        item = {'id': c.get('property', '?'), 'desc': desc,
                'status': c.get('status', '?'),
                'loc': '%s:%s' % (os.path.basename(loc.get('file', '?')),
                                  loc.get('line', '?')),
                'file': loc.get('file', ''),
                'function': loc.get('function', ''),
                'reach': desc.startswith('VF_REACH')}
        if item['reach'] and item['function'].startswith('h_') and \
                item['function'] != entry and \
                item['function'] not in u.get('marker_functions', []):
            continue  # marker of another harness in the same file
        if trace and 'trace' in c:
            item['trace'] = c['trace']
        r.checks.append(item)
        if item['file'].startswith(scr_root) and item['function'] and \
                '/src/' in item['file']:
            key = item['function'] + '@' + item['file'].split('/src/', 1)[1]
            r.real_fns.add(key)
            if not item['reach']:
                r.real_fn_obl[key] = r.real_fn_obl.get(key, 0) + 1
        if 'loop_invariant' in item['id'] or 'loop invariant' in desc \
                or 'loop_step' in item['id']:
            r.loop_obls += 1
    for c in r.checks:
        if c['reach']:
            if c['status'] == 'FAILURE':
                r.reach_ok += 1
            else:
                r.reach_bad.append(c)
        elif c['status'] == 'FAILURE' and ('.unwind.' in c['id'] or
                                           'unwinding assertion' in c['desc']):
            # the bound of a bounded unit was too small: undecided, never a
            # violation
            r.unknown.append(c)
        elif c['status'] == 'FAILURE':
            r.failed.append(c)
        elif c['status'] != 'SUCCESS':
            r.unknown.append(c)
    if r.failed:
        r.status = 'FAIL'
        return r
    if r.unknown:
        r.reason = '%d obligations UNKNOWN/ERROR (e.g. %s)' % (
            len(r.unknown), r.unknown[0]['id'])
        return r
    if r.reach_bad:
        r.reason = 'vacuity: reach marker not reachable: ' + \
            '; '.join(c['desc'] for c in r.reach_bad)
        return r
    if u.get('loop_contracts') and r.loop_obls < u.get('min_loop_obls', 1):
        r.reason = 'loop contract silently dropped (no loop obligations)'
        return r
    if r.n_obl() < u.get('min_checks', 1):
        r.reason = 'only %d obligations generated (< %d expected)' % (
            r.n_obl(), u.get('min_checks', 1))
        return r
    if u.get('expect_reach', True) and r.reach_ok == 0 and \
            u.get('kind') in ('E', 'L', 'B'):
        r.reason = 'no reachability marker in unit'
        return r
    r.status = 'PASS'
    return r


def load_known(prop):
    known, fixed = [], []
    p = os.path.join(VERIF, 'known_findings.txt')
    if os.path.exists(p):
        for line in open(p):
            line = line.strip()
            if not line or line.startswith('#'):
                continue
            m = re.match(r'(known|fixed): property=(\S+) (.*)', line)
            if m and m.group(2) == prop:
                (known if m.group(1) == 'known' else fixed).append(m.group(3))
    return known, fixed


def known_match(known, unit_name, check):
    """known entry text: 'unit=<name> obligation=<regex> :: description'."""
    for k in known:
        m = re.match(r'unit=(\S+) obligation=(\S+) :: (.*)', k)
        if not m:
            continue
        if m.group(1) == unit_name and re.search(m.group(2), check['id']):
            return m.group(3)
    return None


def _num(v):
    """Numeric value of a trace value object (uses the bit pattern)."""
    if not isinstance(v, dict):
        return v
    b = v.get('binary')
    if b and re.match(r'^[01]+$', b):
        u = int(b, 2)
        ty = v.get('type', '')
        if not ty.startswith('unsigned') and 'bool' not in ty and \
                b[0] == '1' and v.get('name') == 'integer':
            u -= 1 << len(b)
        return u
    data = v.get('data', v.get('name'))
    m = re.match(r"^-?\d+", str(data))
    return int(m.group(0)) if m else data


def extract_inputs(trace, names):
    """Last value assigned to each named harness variable; `name[i]` element
    assignments are gathered into a list."""
    vals = {}
    arrays = {}
    for step in trace:
        if step.get('stepType') != 'assignment':
            continue
        lhs = step.get('lhs', '')
        v = step.get('value', {})
        m = re.match(r'^(\w+)\[(\d+)l?\]$', lhs)
        if m and m.group(1) in names:
            arrays.setdefault(m.group(1), {})[int(m.group(2))] = \
                _num(v)
        elif lhs in names:
            if 'elements' in v:
                arrays[lhs] = {k: _num(e.get('value', {}))
                               for k, e in enumerate(v['elements'])}
            else:
                vals[lhs] = _num(v)
    for k, d in arrays.items():
        n = max(d) + 1 if d else 0
        vals[k] = [d.get(i2, 0) for i2 in range(n)]
    return vals


def native_replay(u, scr, inputs, workdir):
    """Build the native replay driver of the unit and run it on inputs.
    Returns (verdict, output). verdict: 'reproduced' | 'not-reproduced' |
    'no-driver' | 'build-failed'."""
    w = u.get('witness')
    if not w or not w.get('driver'):
        return 'no-driver', ''
    drv = os.path.join(VERIF, w['driver'])
    exe = os.path.join(workdir, u['name'] + '.replay')
    cc = shutil.which('clang') or 'gcc'
    cmd = [cc, '-g', '-O0', '-fsanitize=address,undefined',
           '-fno-sanitize-recover=undefined', '-DVF_NATIVE', '-DHAVE_CONFIG_H',
           '-I' + os.path.join(scr, 'src/include'),
           '-I' + os.path.join(scr, 'src/pool'),
           '-I' + os.path.join(scr, 'src'), '-I' + VERIF,
           '-I' + os.path.join(VERIF, 'env'), drv, '-o', exe,
           '-lpthread', '-lm'] + w.get('cflags', [])
    p = subprocess.run(cmd, stdout=subprocess.PIPE, stderr=subprocess.STDOUT,
                       text=True)
    if p.returncode != 0:
        return 'build-failed', p.stdout[-2000:]
    inp = os.path.join(workdir, u['name'] + '.inputs.json')
    with open(inp, 'w') as f:
        json.dump(inputs, f)
    try:
        args = ['unit=' + u['name']]
        for k, v in inputs.items():
            if isinstance(v, list):
                v = ','.join(str(x) for x in v)
            args.append('%s=%s' % (k, v))
        p = subprocess.run([exe] + args, stdout=subprocess.PIPE,
                           stderr=subprocess.STDOUT, text=True, timeout=60,
                           errors='replace')
        out = p.stdout[-3000:]
        rc = p.returncode
    except subprocess.TimeoutExpired:
        return 'not-reproduced', 'native replay timed out'
    return ('reproduced' if rc != 0 else 'not-reproduced'), out


def run_property(prop, tier, only=None, keep=False, jobs=16, seed=0,
                 write_evidence=True):
    t0 = time.time()
    with open(os.path.join(VERIF, 'units', prop + '.json')) as f:
        table = json.load(f)
    for u in table['units']:
        u['_common'] = table.get('common_replace', [])
    # units shared with other properties: {"from": "C19", "names": [regex,..]}
    for imp in table.get('import', []):
        with open(os.path.join(VERIF, 'units', imp['from'] + '.json')) as f:
            other = json.load(f)
        have = set(u['name'] for u in table['units'])
        for u in other['units']:
            if u['name'] in have:
                continue
            if any(re.search(rx, u['name']) for rx in imp.get('names', ['.'])):
                u = dict(u)
                u['_common'] = other.get('common_replace', [])
                u['imported_from'] = imp['from']
                table['units'].append(u)
    units = [u for u in table['units']
             if tier in u.get('tiers', ['quick', 'thorough'])]
    if only:
        units = [u for u in units if u['name'] in only]
    scr = make_scratch()
    workdir = os.path.join(scr, 'work')
    os.makedirs(workdir)
    results = []
    try:
        # one annotated copy of the tree per distinct set of annotation files
        # (a unit compiles against the plain copy unless it asks for loops)
        annot_sets = sorted(set(tuple(sorted(u.get('annot', [])))
                                for u in units if u.get('annot')))
        trees = {}
        annot_status = {}
        for k, aset in enumerate(annot_sets):
            root = os.path.join(scr, 'annot%d' % k)
            os.makedirs(root)
            subprocess.run(['cp', '-a', os.path.join(scr, 'src'),
                            os.path.join(root, 'src')], check=True)
            st = annotate.annotate_tree(os.path.join(root, 'src'),
                                        [os.path.join(VERIF, a) for a in aset])
            open(os.path.join(root, 'SET'), 'w').write('|'.join(aset))
            trees[aset] = (root, {k2: v for k2, v in st.items() if v != 'ok'})
            annot_status.update(st)

        def bounded_fallback(u, why):
            # The loop the annotation is anchored on has changed (the anchor is
            # gone, or the clauses name variables that no longer exist).
            # Fall back to bounded refutation on the plain tree: a failing
            # obligation found within 3 iterations is a real counterexample;
            # finding none proves nothing (exit 2).
            u2 = dict(u)
            u2['loop_contracts'] = False
            u2['annot'] = []
            u2.pop('unwind', None)
            u2['unwind_user'] = 3
            u2['flags'] = list(u.get('flags', [])) + \
                ['--no-unwinding-assertions']
            r = build_unit(u2, scr, workdir, tier)
            r.unit = u
            if r.status != 'FAIL':
                r.status = 'UNDECIDED'
                r.reason = ('loop annotation failed (%s); bounded '
                            'fallback (3 iterations) found no failing '
                            'obligation' % why)
            else:
                r.reason = 'loop annotation failed; bounded fallback'
            return r

        def job(u):
            aset = tuple(sorted(u.get('annot', [])))
            root = scr
            if aset:
                root, bad = trees[aset]
                if bad:
                    return bounded_fallback(u, bad)
            r = build_unit(u, root, workdir, tier)
            if aset and r.status == 'UNDECIDED' and \
                    (r.reason or '').startswith('goto-cc failed') and \
                    '/annot' in (r.reason or ''):
                # the annotated copy no longer compiles: the loop contract
                # names something the loop no longer has
                return bounded_fallback(u, 'annotated source does not compile')
            return r

        order = list(units)
        if seed:
            import random
            random.Random(seed).shuffle(order)
        with cf.ThreadPoolExecutor(max_workers=jobs) as ex:
            results = list(ex.map(job, order))
        results.sort(key=lambda r: [u['name'] for u in units].index(
            r.unit['name']))

        known, fixed = load_known(prop)
        violations = []
        known_hits = []
        for r in results:
            if r.status != 'FAIL':
                continue
            new_fail = []
            for c in r.failed:
                k = known_match(known, r.unit['name'], c)
                if k:
                    known_hits.append((r.unit['name'], c, k))
                else:
                    new_fail.append(c)
            if new_fail:
                violations.append((r, new_fail))
            else:
                r.status = 'KNOWN'
        # report
        for uname, c, k in known_hits:
            pass
        seen = set()
        for uname, c, k in known_hits:
            if k not in seen:
                print('KNOWN-FINDING: property=%s %s' % (prop, k))
                seen.add(k)
        undecided = [r for r in results if r.status == 'UNDECIDED']
        vio_paths = []
        for r, fails in violations:
            path = write_replay(prop, r, fails, scr, workdir, tier)
            vio_paths.append(path)
        seen_reasons = set()
        for r in results:
            tag = r.status
            print('%-9s %-44s %4d/%-4d obl  reach=%d  %5.1fs %s' % (
                tag, r.unit['name'], r.n_ok(), r.n_obl(), r.reach_ok,
                sum(r.secs.values()),
                ('[' + r.unit.get('kind', 'E') +
                 (':bounded' if r.unit.get('kind') == 'B' else '') + ']')))
            if r.status == 'UNDECIDED':
                why = r.reason.replace('\n', ' | ')[:600]
                if why in seen_reasons:
                    why = '(same reason as above)'
                else:
                    seen_reasons.add(why)
                print('   UNDECIDED unit=%s reason=%s' % (r.unit['name'], why))
            if r.status == 'FAIL':
                for c in r.failed[:12]:
                    print('   FAILED %s  (%s) %s' % (c['id'], c['loc'],
                                                     c['desc'][:140]))
        wall = time.time() - t0
        if write_evidence and not only and not os.environ.get("VF_NOEVIDENCE"):
            write_evidence_file(prop, table, tier, seed, results, known_hits,
                                len(violations), wall, scr, annot_status)
        for p_, tail in vio_paths:
            print('VIOLATION property=%s replay=%s%s' % (prop, p_, tail))
        if vio_paths:
            return 1
        if undecided:
            return 2
        return 0
    finally:
        if keep:
            print('scratch kept at', scr)
        else:
            shutil.rmtree(scr, ignore_errors=True)


def unit_root(u, scr):
    """Annotated tree of a unit inside an existing scratch (if any)."""
    aset = tuple(sorted(u.get('annot', [])))
    if not aset:
        return scr
    k = 0
    while os.path.isdir(os.path.join(scr, 'annot%d' % k)):
        marker = os.path.join(scr, 'annot%d' % k, 'SET')
        if os.path.exists(marker) and open(marker).read() == '|'.join(aset):
            return os.path.join(scr, 'annot%d' % k)
        k += 1
    root = os.path.join(scr, 'annot%d' % k)
    os.makedirs(root)
    subprocess.run(['cp', '-a', os.path.join(scr, 'src'),
                    os.path.join(root, 'src')], check=True)
    annotate.annotate_tree(os.path.join(root, 'src'),
                           [os.path.join(VERIF, a) for a in aset])
    open(os.path.join(root, 'SET'), 'w').write('|'.join(aset))
    return root


def write_replay(prop, r, fails, scr, workdir, tier):
    """Re-run the failing unit with --trace, try to build a native witness.
    Returns (path, tail-of-VIOLATION-line)."""
    u = r.unit
    outdir = os.path.join(VERIF, 'replay', 'out')
    os.makedirs(outdir, exist_ok=True)
    path = os.path.join(outdir, '%s-%s.json' % (prop, u['name']))
    rt = build_unit(u, unit_root(u, scr), workdir, tier, trace=True)
    inputs = {}
    trace_excerpt = []
    w = u.get('witness') or {}
    fail_ids = set(c['id'] for c in fails)
    for c in rt.checks:
        if c['id'] in fail_ids and 'trace' in c:
            if w.get('vars') and not inputs:
                inputs = extract_inputs(c['trace'], set(w['vars']))
            if not trace_excerpt:
                for st in c['trace']:
                    if st.get('stepType') in ('assignment', 'failure') and \
                            not st.get('hidden'):
                        loc = st.get('sourceLocation', {})
                        v = st.get('value', {})
                        trace_excerpt.append('%s:%s %s %s = %s' % (
                            os.path.basename(loc.get('file', '')),
                            loc.get('line', ''), st.get('stepType'),
                            st.get('lhs', st.get('reason', '')),
                            v.get('data', v.get('name', ''))))
                trace_excerpt = trace_excerpt[-120:]
    verdict, nout = ('no-driver', '')
    if inputs:
        verdict, nout = native_replay(u, scr, inputs, workdir)
    doc = {
        'property': prop, 'unit': u['name'], 'kind': u.get('kind', 'E'),
        'tier': tier,
        'failed_obligations': [
            {'id': c['id'], 'description': c['desc'], 'location': c['loc'],
             'function': c['function']} for c in fails],
        'verifier': 'cbmc 6.11.0 (goto-cc, goto-instrument --dfcc)',
        'commands': rt.cmds or r.cmds,
        'verifier_output_tail': rt.log_tail or r.log_tail,
        'trace_excerpt': trace_excerpt,
        'inputs': inputs,
        'native_driver': w.get('driver'),
        'native_cflags': w.get('cflags', []),
        'native_verdict': verdict,
        'native_output': nout,
        'rerun': './check %s --only %s' % (prop, u['name']),
    }
    with open(path, 'w') as f:
        json.dump(doc, f, indent=1)
    tail = '' if verdict == 'reproduced' else ' no-failing-input-found'
    return path, tail


def scan_assumptions():
    """Mechanical scan of env/, contracts/, harness/ for assume/stubs."""
    found = []
    for d in ('env', 'contracts', 'harness'):
        for root, _, files in os.walk(os.path.join(VERIF, d)):
            for fn in files:
                if not fn.endswith(('.c', '.h')):
                    continue
                p = os.path.join(root, fn)
                n = 0
                for line in open(p, errors='replace'):
                    if '__CPROVER_assume' in line:
                        n += 1
                if n:
                    found.append('%s: %d __CPROVER_assume' % (
                        os.path.relpath(p, VERIF), n))
    return found


def write_evidence_file(prop, table, tier, seed, results, known_hits, nvio,
                        wall, scr, annot_status):
    proved = [r for r in results if r.unit.get('kind', 'E') in ('E', 'L')]
    bounded = [r for r in results if r.unit.get('kind') == 'B']
    obl = sum(r.n_obl() for r in proved)
    dis = sum(r.n_ok() for r in proved)
    samples = []
    for r in results:
        for c in r.checks:
            if c['reach']:
                continue
            if any(k in c['id'] for k in ('postcondition', 'loop_invariant',
                                          'assertion', 'precondition',
                                          'overflow')):
                samples.append({'unit': r.unit['name'], 'obligation': c['id'],
                                'description': c['desc'][:160],
                                'status': c['status'], 'location': c['loc']})
                if len([s for s in samples
                        if s['unit'] == r.unit['name']]) >= 3:
                    break
    rep = next((r for r in results if r.cmds), None)
    fns_enf = sorted(set(f for r in results
                         for f in r.unit.get('enforce', [])))
    fns_direct = sorted(set(f for r in results
                            for f in r.unit.get('verified_inline', [])))
    fns_rep = sorted(set(f for r in results for f in r.unit.get('replace', []))
                     - set(fns_enf))
    ev = {
        'property_id': prop, 'tier': tier, 'seed': int(seed),
        'level': 'proof',
        'coverage': {
            'obligations': obl, 'discharged': dis,
            'checker_cmd': ' ; '.join(rep.cmds) if rep else
            './check %s' % prop,
            'trusted_base': table.get('trusted_base', []),
            'samples': samples[:40],
            'units': [{'unit': r.unit['name'], 'kind': r.unit.get('kind', 'E'),
                       'status': r.status, 'obligations': r.n_obl(),
                       'discharged': r.n_ok(), 'reach_markers': r.reach_ok,
                       'loop_obligations': r.loop_obls,
                       'enforce': r.unit.get('enforce', []),
                       'replace': r.unit.get('replace', []),
                       'bound': r.unit.get('bound'),
                       'real_functions': sorted(r.real_fns),
                       'real_function_obligations': r.real_fn_obl,
                       'what': r.unit.get('what', ''),
                       'seconds': {k: round(v, 2)
                                   for k, v in r.secs.items()}}
                      for r in results],
            'functions_under_contract': fns_enf,
            'functions_verified_inlined': fns_direct,
            'functions_by_contract_only': fns_rep,
            'functions_real_body_in_program': sorted(
                set(f for r in results for f in r.real_fns)),
            'bounded_units': [{'unit': r.unit['name'],
                               'bound': r.unit.get('bound', ''),
                               'checks': r.n_obl(), 'passed': r.n_ok()}
                              for r in bounded],
            'bounded_obligations': sum(r.n_obl() for r in bounded),
            'vacuity': {'reach_markers_hit': sum(r.reach_ok for r in results),
                        'rule': 'every unit carries VF_REACH assertions that '
                                'must FAIL (post-state reachable)'},
            'backend': 'CBMC 6.11.0, SAT (MiniSat2) unless a unit says '
                       'otherwise',
            'solver_time_s': round(sum(r.secs['cbmc'] for r in results), 2),
            'instrument_time_s': round(sum(r.secs['dfcc'] + r.secs['goto-cc']
                                           for r in results), 2),
            'undecided_units': [r.unit['name'] for r in results
                                if r.status == 'UNDECIDED'],
            'known_findings_hit': [k for _, _, k in known_hits],
            'decided_part': table.get('decided', ''),
            'undecided_part': table.get('not_decided', ''),
            'config_hash': config_hash(scr),
            'annotations': annot_status,
            'explanation': table.get('decided', ''),
        },
        'assumptions': table.get('assumptions', []) + scan_assumptions(),
        'wall_s': round(wall, 2),
        'violations': nvio,
    }
    os.makedirs(os.path.join(VERIF, 'evidence'), exist_ok=True)
    with open(os.path.join(VERIF, 'evidence', prop + '.json'), 'w') as f:
        json.dump(ev, f, indent=1)


def do_replay(prop, path):
    with open(path) as f:
        doc = json.load(f)
    with open(os.path.join(VERIF, 'units', prop + '.json')) as f:
        table = json.load(f)
    for imp in table.get('import', []):
        with open(os.path.join(VERIF, 'units', imp['from'] + '.json')) as f:
            other = json.load(f)
        for x in other['units']:
            x['_common'] = other.get('common_replace', [])
            table['units'].append(x)
    u = next(x for x in table['units'] if x['name'] == doc['unit'])
    u.setdefault('_common', table.get('common_replace', []))
    scr = make_scratch()
    try:
        workdir = os.path.join(scr, 'work')
        os.makedirs(workdir)
        if doc.get('inputs') and doc.get('native_driver'):
            verdict, out = native_replay(u, scr, doc['inputs'], workdir)
            print(out)
            print('native replay:', verdict)
            return 1 if verdict == 'reproduced' else 0
        r = build_unit(u, unit_root(u, scr), workdir,
                       doc.get('tier', 'quick'))
        print('unit %s: %s' % (u['name'], r.status))
        for c in r.failed:
            print('   FAILED %s (%s) %s' % (c['id'], c['loc'], c['desc']))
        return 1 if r.status == 'FAIL' else (0 if r.status == 'PASS' else 2)
    finally:
        shutil.rmtree(scr, ignore_errors=True)


def main():
    ap = argparse.ArgumentParser()
    ap.add_argument('prop')
    ap.add_argument('--tier', default=os.environ.get('VERIF_TIER', 'quick'))
    ap.add_argument('--only')
    ap.add_argument('--keep', action='store_true')
    ap.add_argument('--jobs', type=int, default=16)
    ap.add_argument('--replay')
    a = ap.parse_args()
    if a.replay:
        sys.exit(do_replay(a.prop, a.replay))
    seed = int(os.environ.get('VERIF_SEED', '0') or 0)
    only = a.only.split(',') if a.only else None
    sys.exit(run_property(a.prop, a.tier, only, a.keep, a.jobs, seed))


if __name__ == '__main__':
    main()
