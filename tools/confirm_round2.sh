#!/bin/sh
# usage: confirm_round2.sh <Cxx>  -- confirm both round-2 mutants of a property in its scratch worktree and keep them as m3/m4
P=$1; W=/tmp/wt2/$P
for k in 1 2; do
  M=$W/mutants/m$k; [ -f $M/patch.diff ] || { echo "$P m$k: no patch"; continue; }
  L=$(JOBS=4 sh /verif/tools/confirm_mutant.sh $W $M 2>&1 | tr '\n' ' ')
  echo "$P m$k: $L"
  case "$L" in
    *"clean demo rc: 0"*"mutant demo rc: 0"*) echo "  -> NOT kept (demo does not fail)";;
    *"clean demo rc: 0"*"suite rc=0"*) python3 /verif/tools/keep_mutant.py $P m$((k+2)) $M "$(echo $L | cut -c1-300)";;
    *) echo "  -> NOT kept";;
  esac
done
