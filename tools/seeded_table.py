#!/usr/bin/env python3
"""Print the DESIGN.md table of seeded changes from seeded/*/meta.json and seeded/RESULTS.json;
with --update-design, put it between the SEEDED-TABLE markers of DESIGN.md."""
import json, os, glob, sys, io
out = io.StringIO(); _p = print
def print(*a): _p(*a, file=out)
V = os.path.dirname(os.path.dirname(os.path.abspath(__file__)))
res = json.load(open(V + '/seeded/RESULTS.json'))
print('| id | change (first words of the author\'s summary) | reported by | failing units |')
print('|---|---|---|---|')
n = det = 0
for d in sorted(glob.glob(V + '/seeded/C*')):
    i = os.path.basename(d)
    meta = json.load(open(d + '/meta.json'))
    r = res.get(i, {})
    by = [p for p, c in r.get('checks', {}).items() if c.get('exit') == 1]
    units = []
    for p in by:
        for u in r['checks'][p].get('failing_units', []):
            if u not in units: units.append(u)
    n += 1; det += bool(by)
    summ = ' '.join(meta.get('summary', '').split())[:170].replace('|', '/')
    print('| %s | %s | %s | %s |' % (i, summ, ', '.join(by) if by else '**missed**', ', '.join(units[:4]) + (' ...' if len(units) > 4 else '')))
print('\n%d of %d reported.' % (det, n))

txt = out.getvalue()
if '--update-design' in sys.argv:
    p = V + '/DESIGN.md'; d = open(p).read()
    b = d.index('<!-- SEEDED-TABLE-BEGIN'); b = d.index('\n', b) + 1; e = d.index('<!-- SEEDED-TABLE-END')
    open(p, 'w').write(d[:b] + txt + d[e:])
    _p('DESIGN.md updated:', txt.strip().splitlines()[-1])
else:
    _p(txt, end='')
