#!/usr/bin/env python3
"""Function coverage of the unit tables: for every property, the functions
defined in its anchor files (properties.jsonl) and whether some unit verifies
the real body (enforce / verified_inline), only assumes a contract (replace),
or does not mention it.  usage: coverage.py [Cxx ...]   (report only)"""
import json, os, re, sys, glob
V = os.path.dirname(os.path.dirname(os.path.abspath(__file__)))
REPO = os.environ.get('VF_REPO', '/repo')
FN = re.compile(r'^(?:static\s+)?(?:inline\s+)?(?:ABTU_\w+\s+)*[A-Za-z_][\w \*]*?\b(\w+)\s*\([^;{]*\)\s*\{', re.M | re.S)
def functions(path):
    try: txt = open(path, errors='replace').read()
    except OSError: return []
    txt = re.sub(r'/\*.*?\*/', '', txt, flags=re.S)
    out = []
    for m in FN.finditer(txt):
        n = m.group(1)
        if n in ('if', 'while', 'for', 'switch', 'return', 'sizeof', 'defined'): continue
        if m.group(0).lstrip().startswith(('else', 'do', 'typedef')): continue
        out.append(n)
    return sorted(set(out))
tabs = {os.path.basename(f)[:-5]: json.load(open(f)) for f in glob.glob(V + '/units/C*.json')}
def units_of(p):
    t = tabs[p]; us = list(t['units'])
    for imp in t.get('import', []):
        for u in tabs[imp['from']]['units']:
            if any(re.search(rx, u['name']) for rx in imp.get('names', ['.'])): us.append(u)
    return us
allver = set()
for p in tabs:
    for u in tabs[p]['units']: allver |= set(u.get('enforce', [])) | set(u.get('verified_inline', []))
props = [json.loads(l) for l in open(V + '/properties.jsonl')]
want = sys.argv[1:]
for p in props:
    if want and p['id'] not in want: continue
    us = units_of(p['id'])
    ver = set(); rep = set()
    for u in us:
        ver |= set(u.get('enforce', [])) | set(u.get('verified_inline', []))
        rep |= set(u.get('replace', []))
    print('==', p['id'], p['title'])
    for f in p['anchors']['files']:
        fns = functions(os.path.join(REPO, f))
        if not fns: continue
        v = [x for x in fns if x in ver]
        o = [x for x in fns if x not in ver and x in allver]
        r = [x for x in fns if x not in ver and x not in allver and x in rep]
        n = [x for x in fns if x not in ver and x not in allver and x not in rep]
        print('  %s: %d fns, %d verified here, %d verified under another property, %d contract-only, %d untouched' % (f, len(fns), len(v), len(o), len(r), len(n)))
        if r: print('     contract-only:', ' '.join(r))
        if n: print('     untouched:', ' '.join(n))
