#!/bin/sh
# usage: confirm_wave.sh <Cxx> [WT=/tmp/wt3] -- confirm the mutants a sub-agent left in <WT>/<Cxx>/mutants/m1,m2 in
# that scratch worktree (patch applies, builds, whole suite passes, demo fails with / passes without) and keep the
# confirmed ones under /verif/seeded/<Cxx>-m<next free index>/
P=$1; WT=${2:-/tmp/wt3}; W=$WT/$P
for k in 1 2; do
  M=$W/mutants/m$k; [ -f $M/patch.diff ] || { echo "$P m$k: no patch"; continue; }
  L=$(JOBS=6 sh /verif/tools/confirm_mutant.sh $W $M 2>&1 | tr '\n' ' ')
  echo "$P m$k: $L"
  n=1; while [ -d /verif/seeded/$P-m$n ]; do n=$((n+1)); done
  case "$L" in
    *"clean demo rc: 0"*"mutant demo rc: 0"*) echo "  -> NOT kept (demo does not fail)";;
    *"clean demo rc: 0"*"suite rc=0"*) python3 /verif/tools/keep_mutant.py $P m$n $M "$(echo $L | cut -c1-300)";;
    *) echo "  -> NOT kept";;
  esac
done
