#!/usr/bin/env python3
"""Loop-contract inserter.

An annotation names (file, function, anchor regex, occurrence) and a list of
clauses; the clauses are inserted between the loop header and its body
(`while (...)` / `for (...)`: after the closing parenthesis of the header;
`do`: directly after the `do` keyword).  Nothing else is touched.  After
insertion the file is audited: stripping every inserted clause must give back
the original text modulo white space.

Used on a scratch copy of /repo/src only.
"""
import json
import re
import sys


class AnnotError(Exception):
    pass


def _strip_comments_keep_layout(text):
    """Replace comments and string/char literals by blanks of equal length."""
    out = []
    i, n = 0, len(text)
    while i < n:
        c = text[i]
        if text.startswith('/*', i):
            j = text.find('*/', i + 2)
            j = n if j < 0 else j + 2
            out.append(''.join(ch if ch == '\n' else ' ' for ch in text[i:j]))
            i = j
        elif text.startswith('//', i):
            j = text.find('\n', i)
            j = n if j < 0 else j
            out.append(' ' * (j - i))
            i = j
        elif c == '"' or c == "'":
            q = c
            j = i + 1
            while j < n and text[j] != q:
                if text[j] == '\\':
                    j += 1
                j += 1
            j = min(j + 1, n)
            out.append(q + ' ' * (j - i - 2) + q if j - i >= 2 else text[i:j])
            i = j
        else:
            out.append(c)
            i += 1
    return ''.join(out)


def find_function(text, clean, fname):
    """Return (start, end) offsets of the body `{...}` of the definition."""
    for m in re.finditer(r'\b' + re.escape(fname) + r'\s*\(', clean):
        # find closing paren of the parameter list
        i = m.end() - 1
        depth = 0
        while i < len(clean):
            if clean[i] == '(':
                depth += 1
            elif clean[i] == ')':
                depth -= 1
                if depth == 0:
                    break
            i += 1
        j = i + 1
        # skip white space / attributes until '{' or ';'
        while j < len(clean) and clean[j] in ' \t\r\n':
            j += 1
        if j < len(clean) and clean[j] == '{':
            # must be at top level: check that the match is not inside a body
            # (cheap test: the line of the match starts in column 0 or with a
            # type keyword, never with white space + call)
            ls = clean.rfind('\n', 0, m.start()) + 1
            if clean[ls] in ' \t':
                # continuation line of a declaration is allowed only when the
                # previous non-blank char is not ';' '{' '}' — i.e. the
                # declaration started on an earlier line
                k = ls - 1
                while k >= 0 and clean[k] in ' \t\r\n':
                    k -= 1
                if k >= 0 and clean[k] in ';{}':
                    continue
            depth = 0
            k = j
            while k < len(clean):
                if clean[k] == '{':
                    depth += 1
                elif clean[k] == '}':
                    depth -= 1
                    if depth == 0:
                        return j, k + 1
                k += 1
    raise AnnotError('function %s not found' % fname)


def insert_point(clean, line_start, line_end):
    """Find the insertion offset for the loop whose header starts on the line."""
    seg = clean[line_start:line_end]
    m = re.search(r'\b(while|for|do)\b', seg)
    if not m:
        raise AnnotError('anchor line has no loop keyword')
    kw = m.group(1)
    pos = line_start + m.end()
    if kw == 'do':
        return pos, kw
    # find the header's closing paren
    i = pos
    while i < len(clean) and clean[i] != '(':
        i += 1
    depth = 0
    while i < len(clean):
        if clean[i] == '(':
            depth += 1
        elif clean[i] == ')':
            depth -= 1
            if depth == 0:
                return i + 1, kw
        i += 1
    raise AnnotError('unbalanced loop header')


def annotate_text(text, annots):
    """annots: list of dicts(function, anchor, occurrence=1, clauses=[...])."""
    clean = _strip_comments_keep_layout(text)
    inserts = []
    for a in annots:
        fs, fe = find_function(text, clean, a['function'])
        rx = re.compile(a['anchor'])
        occ = int(a.get('occurrence', 1))
        pos = fs
        found = 0
        hit = None
        while pos < fe:
            le = clean.find('\n', pos)
            if le < 0 or le > fe:
                le = fe
            if rx.search(text[pos:le]) and re.search(r'\b(while|for|do)\b',
                                                     clean[pos:le]):
                found += 1
                if found == occ:
                    hit = (pos, le)
                    break
            pos = le + 1
        if hit is None:
            raise AnnotError('anchor %r (occurrence %d) not found in %s' %
                             (a['anchor'], occ, a['function']))
        off, kw = insert_point(clean, hit[0], hit[1])
        for c in a['clauses']:
            if not c.startswith('__CPROVER_'):
                raise AnnotError('clause does not start with __CPROVER_: ' + c)
        ins = '\n' + '\n'.join(a['clauses']) + '\n'
        inserts.append((off, ins))
    inserts.sort()
    out = []
    last = 0
    for off, ins in inserts:
        out.append(text[last:off])
        out.append(ins)
        last = off
    out.append(text[last:])
    new = ''.join(out)
    audit(text, new, [c for a in annots for c in a['clauses']])
    return new


def _norm(s):
    return re.sub(r'\s+', '', s)


def audit(orig, new, clauses):
    """Removing the inserted clauses must give back the original text."""
    t = new
    for c in sorted(clauses, key=len, reverse=True):
        # remove one occurrence per clause instance
        idx = t.find(c)
        if idx < 0:
            raise AnnotError('audit: clause vanished')
        t = t[:idx] + t[idx + len(c):]
    if _norm(t) != _norm(orig):
        raise AnnotError('audit: annotated file differs from original by more '
                         'than the inserted __CPROVER_ clauses')


def annotate_tree(root, annot_files):
    """Apply all annotation files to the scratch tree rooted at `root`.
    Returns dict file -> 'ok' | error string."""
    per_file = {}
    for af in annot_files:
        with open(af) as f:
            spec = json.load(f)
        for a in spec['annotations']:
            per_file.setdefault(a['file'], []).append(a)
    status = {}
    for rel, annots in per_file.items():
        path = root + '/' + rel
        try:
            with open(path) as f:
                text = f.read()
            new = annotate_text(text, annots)
            with open(path, 'w') as f:
                f.write(new)
            status[rel] = 'ok'
        except (AnnotError, OSError) as e:
            status[rel] = 'ERROR: %s' % e
    return status


if __name__ == '__main__':
    st = annotate_tree(sys.argv[1], sys.argv[2:])
    print(json.dumps(st, indent=1))
    sys.exit(0 if all(v == 'ok' for v in st.values()) else 2)
