#!/usr/bin/env python3
"""asm2c.py <file.S> -I <incdir> -o <out.h>

Mechanical extraction of the x86-64 (SysV, AT&T syntax) context-switch
routines of src/arch/fcontext/fcontext_x86_64_sysv_elf_gas.S into C over the
machine model of env/x86_model.h, done on every run from the current tree.

What is kept: every instruction of every global function, in order, after the C
preprocessor has resolved `#if ABTD_FCONTEXT_PRESERVE_FPU` with the tree's
abt_config.h.  What is dropped: comments and assembler directives (.text,
.globl, .type, .align, .size, .section) -- they do not execute.  Every
instruction is translated by the table below (the instruction semantics are the
trusted part, see DESIGN 9.7); an instruction or operand form that is not in the
table ABORTS the extraction (exit 3 => the unit is UNDECIDED, never a pass and
never a violation).

One C function per assembly function:  static void asm_<name>(vf_cpu *c).
A tail jump `jmpq *%r` ends the function with c->pc = r (control leaves the
routine for that address); `callq *%r` pushes a return token and hands over to
vf_env_call(c, target) (an ABI-conforming C function, modelled in the harness),
`ret` pops c->pc.  Each instruction carries a `/* asm: ... */` comment with the
source text so that the generated file can be audited against the .S.
"""
import re
import subprocess
import sys

REGS64 = ['rax', 'rbx', 'rcx', 'rdx', 'rsi', 'rdi', 'rbp', 'rsp',
          'r8', 'r9', 'r10', 'r11', 'r12', 'r13', 'r14', 'r15']


class Unsupported(Exception):
    pass


def reg(tok):
    m = re.fullmatch(r'%(\w+)', tok)
    if not m or m.group(1) not in REGS64:
        raise Unsupported('register operand ' + tok)
    return 'c->' + m.group(1)


def imm(tok):
    m = re.fullmatch(r'\$(-?(?:0x[0-9a-fA-F]+|\d+))', tok)
    if not m:
        raise Unsupported('immediate operand ' + tok)
    return '((uint64_t)(int64_t)(%s))' % m.group(1)


def mem(tok):
    """disp(%reg) or (%reg) -> C expression of the effective address."""
    m = re.fullmatch(r'(-?(?:0x[0-9a-fA-F]+|\d+))?\(%(\w+)\)', tok)
    if not m or m.group(2) not in REGS64:
        raise Unsupported('memory operand ' + tok)
    d = m.group(1) or '0'
    return '(c->%s + (uint64_t)(int64_t)(%s))' % (m.group(2), d)


def is_reg(tok):
    return re.fullmatch(r'%\w+', tok) is not None


def is_mem(tok):
    return '(' in tok and not tok.startswith('*')


def split_ops(s):
    ops, depth, cur = [], 0, ''
    for ch in s:
        if ch == '(':
            depth += 1
        if ch == ')':
            depth -= 1
        if ch == ',' and depth == 0:
            ops.append(cur.strip())
            cur = ''
        else:
            cur += ch
    if cur.strip():
        ops.append(cur.strip())
    return ops


def translate(mn, ops, ncall):
    """Return (list of C statements, ends_function)."""
    if mn in ('pushq', 'push') and len(ops) == 1:
        return ['vf_push64(c, %s);' % reg(ops[0])], False
    if mn in ('popq', 'pop') and len(ops) == 1:
        return ['%s = vf_pop64(c);' % reg(ops[0])], False
    if mn in ('leaq', 'lea') and len(ops) == 2 and is_mem(ops[0]):
        return ['%s = %s;' % (reg(ops[1]), mem(ops[0]))], False
    if mn in ('movq', 'mov') and len(ops) == 2:
        s, d = ops
        if is_reg(s) and is_reg(d):
            return ['%s = %s;' % (reg(d), reg(s))], False
        if is_reg(s) and is_mem(d):
            return ['vf_store64(%s, %s);' % (mem(d), reg(s))], False
        if is_mem(s) and is_reg(d):
            return ['%s = vf_load64(%s);' % (reg(d), mem(s))], False
        raise Unsupported('movq ' + ', '.join(ops))
    if mn in ('andq', 'and') and len(ops) == 2 and ops[0].startswith('$'):
        return ['%s &= %s;' % (reg(ops[1]), imm(ops[0]))], False
    if mn in ('addq', 'add') and len(ops) == 2 and ops[0].startswith('$'):
        return ['%s += %s;' % (reg(ops[1]), imm(ops[0]))], False
    if mn in ('subq', 'sub') and len(ops) == 2 and ops[0].startswith('$'):
        return ['%s -= %s;' % (reg(ops[1]), imm(ops[0]))], False
    if mn == 'stmxcsr' and len(ops) == 1:
        return ['vf_store32(%s, c->mxcsr);' % mem(ops[0])], False
    if mn == 'ldmxcsr' and len(ops) == 1:
        return ['c->mxcsr = vf_load32(%s);' % mem(ops[0])], False
    if mn in ('fnstcw', 'fstcw') and len(ops) == 1:
        return ['vf_store16(%s, c->fcw);' % mem(ops[0])], False
    if mn == 'fldcw' and len(ops) == 1:
        return ['c->fcw = vf_load16(%s);' % mem(ops[0])], False
    if mn in ('jmpq', 'jmp') and len(ops) == 1 and ops[0].startswith('*%'):
        return ['c->pc = %s; return;' % reg(ops[0][1:])], True
    if mn in ('callq', 'call') and len(ops) == 1 and ops[0].startswith('*%'):
        return ['vf_push64(c, VF_RET_TOKEN + %d);' % ncall,
                'vf_env_call(c, %s);' % reg(ops[0][1:])], False
    if mn in ('ret', 'retq') and not ops:
        return ['c->pc = vf_pop64(c); return;'], True
    if mn == 'nop' and not ops:
        return [';'], False
    raise Unsupported('%s %s' % (mn, ', '.join(ops)))


def main():
    args = sys.argv[1:]
    src, out, incs = None, None, []
    i = 0
    while i < len(args):
        if args[i] == '-I':
            incs.append(args[i + 1]); i += 2
        elif args[i] == '-o':
            out = args[i + 1]; i += 2
        else:
            src = args[i]; i += 1
    cmd = ['cpp', '-P', '-undef', '-x', 'assembler-with-cpp']
    for d in incs:
        cmd += ['-I', d]
    cmd.append(src)
    p = subprocess.run(cmd, stdout=subprocess.PIPE, stderr=subprocess.PIPE,
                       text=True)
    if p.returncode != 0:
        sys.stderr.write('asm2c: cpp failed: ' + p.stderr[-500:])
        sys.exit(3)
    text = re.sub(r'/\*.*?\*/', ' ', p.stdout, flags=re.S)
    globl = set()
    funcs = []          # (name, [(asm text, [stmts])], ended)
    cur = None
    ninstr = 0
    try:
        for raw in text.splitlines():
            for line in raw.split(';'):
                line = line.split('#')[0].strip() if not line.strip().startswith('#') else ''
                if not line:
                    continue
                m = re.match(r'^([A-Za-z_.][\w.]*):\s*(.*)$', line)
                if m:
                    cur = {'name': m.group(1), 'body': [], 'ended': False,
                           'ncall': 0}
                    funcs.append(cur)
                    line = m.group(2).strip()
                    if not line:
                        continue
                if line.startswith('.'):
                    d = line.split()
                    if d[0] == '.globl' and len(d) > 1:
                        globl.add(d[1])
                    if d[0] not in ('.text', '.globl', '.type', '.align',
                                    '.size', '.section', '.p2align', '.file',
                                    '.ident'):
                        raise Unsupported('directive ' + line)
                    continue
                if cur is None:
                    raise Unsupported('instruction outside a function: ' + line)
                if cur['ended']:
                    raise Unsupported('instruction after the end of %s: %s'
                                      % (cur['name'], line))
                parts = line.split(None, 1)
                mn = parts[0]
                ops = split_ops(parts[1]) if len(parts) > 1 else []
                stmts, ends = translate(mn, ops, cur['ncall'])
                if mn.startswith('call'):
                    cur['ncall'] += 1
                cur['body'].append((' '.join(line.split()), stmts))
                cur['ended'] = ends
                ninstr += 1
        for f in funcs:
            if not f['ended']:
                raise Unsupported('function %s falls off its end' % f['name'])
            if f['name'] not in globl:
                raise Unsupported('label %s is not a .globl function'
                                  % f['name'])
    except Unsupported as e:
        sys.stderr.write('asm2c: not in the instruction table: %s\n' % e)
        sys.exit(3)
    if not funcs:
        sys.stderr.write('asm2c: no function found\n')
        sys.exit(3)
    with open(out, 'w') as o:
        o.write('/* GENERATED by tools/asm2c.py from %s -- do not edit.\n'
                ' * %d functions, %d instructions. */\n' % (src, len(funcs),
                                                           ninstr))
        o.write('#define VF_ASM_NFUNCS %d\n#define VF_ASM_NINSTR %d\n'
                % (len(funcs), ninstr))
        for f in funcs:
            o.write('#define VF_ASM_HAVE_%s 1\n' % f['name'])
        for f in funcs:
            o.write('static void asm_%s(vf_cpu *c)\n{\n' % f['name'])
            for asm, stmts in f['body']:
                o.write('    /* asm: %s */ %s\n' % (asm, ' '.join(stmts)))
            o.write('}\n')
    print('asm2c: %d functions, %d instructions -> %s' % (len(funcs), ninstr,
                                                          out))


if __name__ == '__main__':
    main()
