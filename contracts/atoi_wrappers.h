/* Clauses shared by the units that ENFORCE the typed atoi wrappers
 * (harness/c20/atoi_wrappers.c) and the units that USE them by contract
 * (harness/c20/env.c). */
/* Mathematical value of the parsed number: (-1)^signed * val, where a raised
 * impl-overflow flag means "magnitude >= 2^64".  Each wrapper must return the
 * value clamped to its type and raise the flag iff clamping happened. */
#define WRAP_REQUIRES(T)                                                       \
    __CPROVER_requires(vf_len < 1000000)                                       \
    __CPROVER_requires(__CPROVER_is_fresh(str, vf_len + 1) &&                  \
                       str[vf_len] == 0)                                       \
    __CPROVER_requires(__CPROVER_is_fresh(p_val, sizeof(T)))                   \
    __CPROVER_requires(p_overflow == NULL ||                                   \
                       __CPROVER_is_fresh(p_overflow, sizeof(ABT_bool)))       \
    __CPROVER_assigns(*p_val, vf_ai_ret, vf_ai_val, vf_ai_signed, vf_ai_ovf)   \
    __CPROVER_assigns(p_overflow != NULL : *p_overflow)                        \
    __CPROVER_ensures(__CPROVER_return_value == vf_ai_ret)                     \
    __CPROVER_ensures(__CPROVER_return_value != ABT_SUCCESS ==>                \
                      *p_val == __CPROVER_old(*p_val))                         \
    __CPROVER_ensures((__CPROVER_return_value != ABT_SUCCESS &&                \
                       p_overflow != NULL) ==>                                 \
                      *p_overflow == __CPROVER_old(*p_overflow))

