/* Thin (ghost-recording) contracts of the wait-list operations, for the units
 * that verify the synchronisation objects built on them (eventual, future,
 * barrier, cond, mutex).  They demand the lock discipline and record events on
 * the ghost clock of env/spinlock.h.  A unit may define, BEFORE including this
 * file:
 *   VF_WL_WAIT_PRE / VF_WL_SIGNAL_PRE / VF_WL_BCAST_PRE  extra preconditions
 *   VF_WL_WAIT_HAVOC   assigns targets that other threads may change while the
 *                      caller sleeps (protected state of the lock)
 *   VF_WL_WAIT_POST    what the unit may rely on when the wait returns
 * The full behaviour of the real functions is verified in the waitlist units
 * (C05/C19). */
#ifndef VF_WAITLIST_THIN
#define VF_WAITLIST_THIN
#ifndef VF_WL_WAIT_PRE
#define VF_WL_WAIT_PRE 1
#endif
#ifndef VF_WL_SIGNAL_PRE
#define VF_WL_SIGNAL_PRE 1
#endif
#ifndef VF_WL_BCAST_PRE
#define VF_WL_BCAST_PRE 1
#endif
#ifndef VF_WL_WAIT_POST
#define VF_WL_WAIT_POST 1
#endif
unsigned vf_wl_waits, vf_wl_signals, vf_wl_bcasts;
unsigned vf_t_wl_wait, vf_t_wl_signal, vf_t_wl_bcast;
const void *vf_wl_which;
int vf_wl_timedout; /* result of the timed wait (arbitrary) */
size_t vf_wl_len;   /* abstract length of the wait list */
size_t vf_wl_woken; /* waiters woken by the last signal/broadcast */

#define VF_WL_GHOST vf_wl_waits, vf_wl_signals, vf_wl_bcasts, vf_t_wl_wait, vf_t_wl_signal, vf_t_wl_bcast, vf_wl_which, vf_wl_timedout

static inline void ABTI_waitlist_wait_and_unlock(ABTI_local **pp_local, ABTI_waitlist *p_waitlist, ABTD_spinlock *p_lock,
                                                 ABT_sync_event_type sync_event_type, void *p_sync)
__CPROVER_requires(vf_lock_held == 1 && vf_lock_which == p_lock)
__CPROVER_requires(VF_WL_WAIT_PRE)
__CPROVER_assigns(*pp_local, vf_lock_held, vf_releases, vf_clock, vf_t_release, vf_wl_waits, vf_t_wl_wait, vf_wl_which, vf_wl_len
#ifdef VF_WL_WAIT_HAVOC
                  , VF_WL_WAIT_HAVOC
#endif
                  )
__CPROVER_ensures(vf_lock_held == 0 && vf_releases == __CPROVER_old(vf_releases) + 1)
__CPROVER_ensures(vf_wl_waits == __CPROVER_old(vf_wl_waits) + 1 && vf_wl_which == p_waitlist)
__CPROVER_ensures(vf_clock == __CPROVER_old(vf_clock) + 2 && vf_t_wl_wait == vf_clock - 1 && vf_t_release == vf_clock)
__CPROVER_ensures(VF_WL_WAIT_POST);

double vf_wl_deadline;
static inline ABT_bool ABTI_waitlist_wait_timedout_and_unlock(ABTI_local **pp_local, ABTI_waitlist *p_waitlist, ABTD_spinlock *p_lock,
                                                              double target_time, ABT_sync_event_type sync_event_type, void *p_sync)
__CPROVER_requires(vf_lock_held == 1 && vf_lock_which == p_lock)
__CPROVER_requires(VF_WL_WAIT_PRE)
__CPROVER_assigns(*pp_local, vf_lock_held, vf_releases, vf_clock, vf_t_release, vf_wl_waits, vf_t_wl_wait, vf_wl_which, vf_wl_timedout, vf_wl_len, vf_wl_deadline
#ifdef VF_WL_WAIT_HAVOC
                  , VF_WL_WAIT_HAVOC
#endif
                  )
__CPROVER_ensures(vf_lock_held == 0 && vf_releases == __CPROVER_old(vf_releases) + 1)
__CPROVER_ensures(vf_wl_waits == __CPROVER_old(vf_wl_waits) + 1 && vf_wl_which == p_waitlist)
__CPROVER_ensures(vf_clock == __CPROVER_old(vf_clock) + 2 && vf_t_wl_wait == vf_clock - 1 && vf_t_release == vf_clock)
__CPROVER_ensures(vf_wl_deadline == target_time) /* the absolute deadline the wait list will compare the clock with */
__CPROVER_ensures((__CPROVER_return_value == ABT_TRUE || __CPROVER_return_value == ABT_FALSE) && vf_wl_timedout == (int)__CPROVER_return_value)
__CPROVER_ensures(VF_WL_WAIT_POST);

static inline void ABTI_waitlist_signal(ABTI_local *p_local, ABTI_waitlist *p_waitlist)
__CPROVER_requires(vf_lock_held == 1)
__CPROVER_requires(VF_WL_SIGNAL_PRE)
__CPROVER_assigns(vf_clock, vf_wl_signals, vf_t_wl_signal, vf_wl_which, vf_wl_len, vf_wl_woken)
/* wakes exactly the head waiter (none if there is none) */
__CPROVER_ensures(vf_wl_woken == (__CPROVER_old(vf_wl_len) > 0 ? 1 : 0) && vf_wl_len == __CPROVER_old(vf_wl_len) - vf_wl_woken)
__CPROVER_ensures(vf_wl_signals == __CPROVER_old(vf_wl_signals) + 1 && vf_wl_which == p_waitlist)
__CPROVER_ensures(vf_clock == __CPROVER_old(vf_clock) + 1 && vf_t_wl_signal == vf_clock);

static inline void ABTI_waitlist_broadcast(ABTI_local *p_local, ABTI_waitlist *p_waitlist)
__CPROVER_requires(vf_lock_held == 1)
__CPROVER_requires(VF_WL_BCAST_PRE)
__CPROVER_assigns(vf_clock, vf_wl_bcasts, vf_t_wl_bcast, vf_wl_which, vf_wl_len, vf_wl_woken)
/* wakes every current waiter, the list is empty afterwards */
__CPROVER_ensures(vf_wl_woken == __CPROVER_old(vf_wl_len) && vf_wl_len == 0)
__CPROVER_ensures(vf_wl_bcasts == __CPROVER_old(vf_wl_bcasts) + 1 && vf_wl_which == p_waitlist)
__CPROVER_ensures(vf_clock == __CPROVER_old(vf_clock) + 1 && vf_t_wl_bcast == vf_clock);
#endif
