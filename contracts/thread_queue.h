/* Contracts of pool/thread_queue.h (circular doubly linked queue).
 * Representation: num_threads == length; is_empty.val == (length == 0);
 * length 0 => head == tail == NULL; every node in the queue has is_in_pool 1.
 * Each contract enumerates the aliasing shapes of the <= 4 nodes the operation
 * relinks; field-granular assigns clauses give "nothing else changed" (payload
 * of touched nodes included). Pointer facts use __CPROVER_pointer_equals. */
#ifndef VF_THREAD_QUEUE_CONTRACTS
#define VF_THREAD_QUEUE_CONTRACTS

#define TQ_FRESH(p) __CPROVER_is_fresh((p), sizeof(ABTI_thread))
#define TQ_PEQ(a, b) __CPROVER_pointer_equals((a), (b))
#define TQ_N(q) ((q)->num_threads)
#define TQ_H(q) ((q)->p_head)
#define TQ_T(q) ((q)->p_tail)

#define TQ_EMPTY(q)                                                            \
    (TQ_N(q) == 0 && TQ_H(q) == NULL && TQ_T(q) == NULL && (q)->is_empty.val == 1)
#define TQ_ONE(q)                                                              \
    (TQ_N(q) == 1 && TQ_FRESH(TQ_H(q)) && TQ_PEQ(TQ_T(q), TQ_H(q)) &&          \
     TQ_PEQ(TQ_H(q)->p_next, TQ_H(q)) && TQ_PEQ(TQ_H(q)->p_prev, TQ_H(q)) &&   \
     (q)->is_empty.val == 0 && TQ_H(q)->is_in_pool.val == 1)
/* two or more: head and tail are distinct nodes closing the ring */
#define TQ_ENDS(q)                                                             \
    (TQ_FRESH(TQ_H(q)) && TQ_FRESH(TQ_T(q)) && TQ_PEQ(TQ_T(q)->p_next, TQ_H(q)) && \
     TQ_PEQ(TQ_H(q)->p_prev, TQ_T(q)) && (q)->is_empty.val == 0 &&             \
     TQ_H(q)->is_in_pool.val == 1 && TQ_T(q)->is_in_pool.val == 1)

/* ---- push_tail / push_head ---- */
#define TQ_PUSH_REQUIRES                                                       \
    __CPROVER_requires(__CPROVER_is_fresh(p_queue, sizeof(thread_queue_t)))    \
    __CPROVER_requires(vf_n0 == p_queue->num_threads) /* ghost, for covers */  \
    __CPROVER_requires(TQ_FRESH(p_thread) && p_thread->is_in_pool.val == 0)    \
    __CPROVER_requires(TQ_EMPTY(p_queue) || TQ_ONE(p_queue) ||                 \
                       (TQ_N(p_queue) >= 2 && TQ_N(p_queue) < SIZE_MAX && TQ_ENDS(p_queue))) \
    __CPROVER_assigns(p_queue->num_threads, p_queue->p_head, p_queue->p_tail, p_queue->is_empty.val) \
    __CPROVER_assigns(p_thread->p_prev, p_thread->p_next, p_thread->is_in_pool.val) \
    __CPROVER_assigns(p_queue->num_threads > 0 : p_queue->p_head->p_prev, p_queue->p_tail->p_next)
#define TQ_PUSH_ENSURES_COMMON                                                 \
    __CPROVER_ensures(TQ_N(p_queue) == __CPROVER_old(TQ_N(p_queue)) + 1)       \
    __CPROVER_ensures(p_queue->is_empty.val == 0 && p_thread->is_in_pool.val == 1) \
    /* ring closed through the new node */                                     \
    __CPROVER_ensures(TQ_PEQ(TQ_T(p_queue)->p_next, TQ_H(p_queue)) &&          \
                      TQ_PEQ(TQ_H(p_queue)->p_prev, TQ_T(p_queue)))

/* (the clauses that fix head and tail come first: when the contract is ASSUMED in place of the body -- lemma units --
 * the pointer predicates are applied in order, and the ring clauses mention head and tail) */
#define TQ_PUSH_TAIL_CONTRACT                                                  \
    TQ_PUSH_REQUIRES                                                           \
    __CPROVER_ensures(TQ_PEQ(TQ_T(p_queue), p_thread))                         \
    __CPROVER_ensures(__CPROVER_old(TQ_N(p_queue)) == 0 ==>                    \
        (TQ_PEQ(TQ_H(p_queue), p_thread)))                                     \
    __CPROVER_ensures(__CPROVER_old(TQ_N(p_queue)) > 0 ==>                     \
        (TQ_PEQ(TQ_H(p_queue), __CPROVER_old(TQ_H(p_queue))) &&                \
         TQ_PEQ(p_thread->p_prev, __CPROVER_old(TQ_T(p_queue))) &&             \
         TQ_PEQ(__CPROVER_old(TQ_T(p_queue))->p_next, p_thread)))              \
    TQ_PUSH_ENSURES_COMMON

#define TQ_PUSH_HEAD_CONTRACT                                                  \
    TQ_PUSH_REQUIRES                                                           \
    __CPROVER_ensures(TQ_PEQ(TQ_H(p_queue), p_thread))                         \
    __CPROVER_ensures(__CPROVER_old(TQ_N(p_queue)) == 0 ==>                    \
        (TQ_PEQ(TQ_T(p_queue), p_thread)))                                     \
    __CPROVER_ensures(__CPROVER_old(TQ_N(p_queue)) > 0 ==>                     \
        (TQ_PEQ(TQ_T(p_queue), __CPROVER_old(TQ_T(p_queue))) &&                \
         TQ_PEQ(p_thread->p_next, __CPROVER_old(TQ_H(p_queue))) &&             \
         TQ_PEQ(__CPROVER_old(TQ_H(p_queue))->p_prev, p_thread)))              \
    TQ_PUSH_ENSURES_COMMON

/* ---- pop_head ---- */
#define TQ_POP_HEAD_CONTRACT                                                   \
    __CPROVER_requires(__CPROVER_is_fresh(p_queue, sizeof(thread_queue_t)))    \
    __CPROVER_requires(vf_n0 == p_queue->num_threads) /* ghost, for covers */  \
    __CPROVER_requires(TQ_EMPTY(p_queue) || TQ_ONE(p_queue) ||                 \
        (TQ_N(p_queue) == 2 && TQ_ENDS(p_queue) &&                             \
         TQ_PEQ(TQ_H(p_queue)->p_next, TQ_T(p_queue)) && TQ_PEQ(TQ_T(p_queue)->p_prev, TQ_H(p_queue))) || \
        (TQ_N(p_queue) >= 3 && TQ_ENDS(p_queue) && TQ_FRESH(TQ_H(p_queue)->p_next) && \
         TQ_PEQ(TQ_H(p_queue)->p_next->p_prev, TQ_H(p_queue)) &&               \
         TQ_H(p_queue)->p_next->is_in_pool.val == 1))                          \
    __CPROVER_assigns(p_queue->num_threads, p_queue->p_head, p_queue->p_tail, p_queue->is_empty.val) \
    __CPROVER_assigns(p_queue->num_threads > 0 : p_queue->p_head->p_prev, p_queue->p_head->p_next, p_queue->p_head->is_in_pool.val) \
    __CPROVER_assigns(p_queue->num_threads > 1 : p_queue->p_tail->p_next, p_queue->p_head->p_next->p_prev) \
    __CPROVER_ensures(__CPROVER_old(TQ_N(p_queue)) == 0 ==>                    \
        (__CPROVER_return_value == NULL && TQ_N(p_queue) == 0 && p_queue->is_empty.val == 1)) \
    __CPROVER_ensures(__CPROVER_old(TQ_N(p_queue)) > 0 ==>                     \
        (TQ_PEQ(__CPROVER_return_value, __CPROVER_old(TQ_H(p_queue))) &&       \
         TQ_N(p_queue) == __CPROVER_old(TQ_N(p_queue)) - 1 &&                  \
         __CPROVER_return_value->p_next == NULL && __CPROVER_return_value->p_prev == NULL && \
         __CPROVER_return_value->is_in_pool.val == 0))                         \
    __CPROVER_ensures(p_queue->is_empty.val == (TQ_N(p_queue) == 0 ? 1 : 0))   \
    __CPROVER_ensures(__CPROVER_old(TQ_N(p_queue)) == 1 ==>                    \
        (TQ_H(p_queue) == NULL && TQ_T(p_queue) == NULL))                      \
    __CPROVER_ensures(__CPROVER_old(TQ_N(p_queue)) > 1 ==>                     \
        (TQ_PEQ(TQ_H(p_queue), __CPROVER_old(TQ_H(p_queue)->p_next)) &&        \
         TQ_PEQ(TQ_T(p_queue), __CPROVER_old(TQ_T(p_queue))) &&                \
         TQ_PEQ(__CPROVER_old(TQ_T(p_queue))->p_next, __CPROVER_old(TQ_H(p_queue)->p_next)) && \
         TQ_PEQ(__CPROVER_old(TQ_H(p_queue)->p_next)->p_prev, __CPROVER_old(TQ_T(p_queue)))))

/* ---- pop_tail ---- */
#define TQ_POP_TAIL_CONTRACT                                                   \
    __CPROVER_requires(__CPROVER_is_fresh(p_queue, sizeof(thread_queue_t)))    \
    __CPROVER_requires(vf_n0 == p_queue->num_threads) /* ghost, for covers */  \
    __CPROVER_requires(TQ_EMPTY(p_queue) || TQ_ONE(p_queue) ||                 \
        (TQ_N(p_queue) == 2 && TQ_ENDS(p_queue) &&                             \
         TQ_PEQ(TQ_H(p_queue)->p_next, TQ_T(p_queue)) && TQ_PEQ(TQ_T(p_queue)->p_prev, TQ_H(p_queue))) || \
        (TQ_N(p_queue) >= 3 && TQ_ENDS(p_queue) && TQ_FRESH(TQ_T(p_queue)->p_prev) && \
         TQ_PEQ(TQ_T(p_queue)->p_prev->p_next, TQ_T(p_queue)) &&               \
         TQ_T(p_queue)->p_prev->is_in_pool.val == 1))                          \
    __CPROVER_assigns(p_queue->num_threads, p_queue->p_head, p_queue->p_tail, p_queue->is_empty.val) \
    __CPROVER_assigns(p_queue->num_threads > 0 : p_queue->p_tail->p_prev, p_queue->p_tail->p_next, p_queue->p_tail->is_in_pool.val) \
    __CPROVER_assigns(p_queue->num_threads > 1 : p_queue->p_head->p_prev, p_queue->p_tail->p_prev->p_next) \
    __CPROVER_ensures(__CPROVER_old(TQ_N(p_queue)) == 0 ==>                    \
        (__CPROVER_return_value == NULL && TQ_N(p_queue) == 0 && p_queue->is_empty.val == 1)) \
    __CPROVER_ensures(__CPROVER_old(TQ_N(p_queue)) > 0 ==>                     \
        (TQ_PEQ(__CPROVER_return_value, __CPROVER_old(TQ_T(p_queue))) &&       \
         TQ_N(p_queue) == __CPROVER_old(TQ_N(p_queue)) - 1 &&                  \
         __CPROVER_return_value->p_next == NULL && __CPROVER_return_value->p_prev == NULL && \
         __CPROVER_return_value->is_in_pool.val == 0))                         \
    __CPROVER_ensures(p_queue->is_empty.val == (TQ_N(p_queue) == 0 ? 1 : 0))   \
    __CPROVER_ensures(__CPROVER_old(TQ_N(p_queue)) == 1 ==>                    \
        (TQ_H(p_queue) == NULL && TQ_T(p_queue) == NULL))                      \
    __CPROVER_ensures(__CPROVER_old(TQ_N(p_queue)) > 1 ==>                     \
        (TQ_PEQ(TQ_T(p_queue), __CPROVER_old(TQ_T(p_queue)->p_prev)) &&        \
         TQ_PEQ(TQ_H(p_queue), __CPROVER_old(TQ_H(p_queue))) &&                \
         TQ_PEQ(__CPROVER_old(TQ_H(p_queue))->p_prev, __CPROVER_old(TQ_T(p_queue)->p_prev)) && \
         TQ_PEQ(__CPROVER_old(TQ_T(p_queue)->p_prev)->p_next, __CPROVER_old(TQ_H(p_queue)))))

/* ---- remove ----  vf_rm_case (ghost, chosen by the harness) names the shape:
 * 0 queue empty, 1 unit not in a pool, 2 only node, 3 head of >=2, 4 tail of
 * >=2, 5 middle of exactly 3, 6 middle with prev==head, 7 middle with
 * next==tail, 8 middle with both neighbours interior. */
#define TQ_X p_thread
#define TQ_REMOVE_CONTRACT                                                     \
    __CPROVER_requires(__CPROVER_is_fresh(p_queue, sizeof(thread_queue_t)))    \
    __CPROVER_requires(TQ_FRESH(TQ_X))                                         \
    __CPROVER_requires(                                                        \
      (vf_rm_case == 0 && TQ_EMPTY(p_queue)) ||                                \
      (vf_rm_case == 1 && TQ_X->is_in_pool.val == 0 && TQ_N(p_queue) >= 1 && p_queue->is_empty.val == 0) || \
      (vf_rm_case == 2 && TQ_N(p_queue) == 1 && TQ_PEQ(TQ_H(p_queue), TQ_X) && TQ_PEQ(TQ_T(p_queue), TQ_X) && \
         TQ_PEQ(TQ_X->p_next, TQ_X) && TQ_PEQ(TQ_X->p_prev, TQ_X) && TQ_X->is_in_pool.val == 1 && p_queue->is_empty.val == 0) || \
      (vf_rm_case == 3 && TQ_N(p_queue) >= 2 && TQ_PEQ(TQ_H(p_queue), TQ_X) && TQ_FRESH(TQ_T(p_queue)) && \
         TQ_PEQ(TQ_X->p_prev, TQ_T(p_queue)) && TQ_PEQ(TQ_T(p_queue)->p_next, TQ_X) && TQ_X->is_in_pool.val == 1 && p_queue->is_empty.val == 0 && \
         ((TQ_N(p_queue) == 2 && TQ_PEQ(TQ_X->p_next, TQ_T(p_queue)) && TQ_PEQ(TQ_T(p_queue)->p_prev, TQ_X)) || \
          (TQ_N(p_queue) >= 3 && TQ_FRESH(TQ_X->p_next) && TQ_PEQ(TQ_X->p_next->p_prev, TQ_X)))) || \
      (vf_rm_case == 4 && TQ_N(p_queue) >= 2 && TQ_PEQ(TQ_T(p_queue), TQ_X) && TQ_FRESH(TQ_H(p_queue)) && \
         TQ_PEQ(TQ_X->p_next, TQ_H(p_queue)) && TQ_PEQ(TQ_H(p_queue)->p_prev, TQ_X) && TQ_X->is_in_pool.val == 1 && p_queue->is_empty.val == 0 && \
         ((TQ_N(p_queue) == 2 && TQ_PEQ(TQ_X->p_prev, TQ_H(p_queue)) && TQ_PEQ(TQ_H(p_queue)->p_next, TQ_X)) || \
          (TQ_N(p_queue) >= 3 && TQ_FRESH(TQ_X->p_prev) && TQ_PEQ(TQ_X->p_prev->p_next, TQ_X)))) || \
      (vf_rm_case == 5 && TQ_N(p_queue) == 3 && TQ_FRESH(TQ_H(p_queue)) && TQ_FRESH(TQ_T(p_queue)) && \
         TQ_PEQ(TQ_X->p_prev, TQ_H(p_queue)) && TQ_PEQ(TQ_X->p_next, TQ_T(p_queue)) && \
         TQ_PEQ(TQ_H(p_queue)->p_next, TQ_X) && TQ_PEQ(TQ_T(p_queue)->p_prev, TQ_X) && TQ_X->is_in_pool.val == 1 && p_queue->is_empty.val == 0) || \
      (vf_rm_case == 6 && TQ_N(p_queue) >= 4 && TQ_FRESH(TQ_H(p_queue)) && TQ_FRESH(TQ_T(p_queue)) && \
         TQ_PEQ(TQ_X->p_prev, TQ_H(p_queue)) && TQ_PEQ(TQ_H(p_queue)->p_next, TQ_X) && \
         TQ_FRESH(TQ_X->p_next) && TQ_PEQ(TQ_X->p_next->p_prev, TQ_X) && TQ_X->is_in_pool.val == 1 && p_queue->is_empty.val == 0) || \
      (vf_rm_case == 7 && TQ_N(p_queue) >= 4 && TQ_FRESH(TQ_H(p_queue)) && TQ_FRESH(TQ_T(p_queue)) && \
         TQ_PEQ(TQ_X->p_next, TQ_T(p_queue)) && TQ_PEQ(TQ_T(p_queue)->p_prev, TQ_X) && \
         TQ_FRESH(TQ_X->p_prev) && TQ_PEQ(TQ_X->p_prev->p_next, TQ_X) && TQ_X->is_in_pool.val == 1 && p_queue->is_empty.val == 0) || \
      (vf_rm_case == 8 && TQ_N(p_queue) >= 5 && TQ_FRESH(TQ_H(p_queue)) && TQ_FRESH(TQ_T(p_queue)) && \
         TQ_FRESH(TQ_X->p_prev) && TQ_PEQ(TQ_X->p_prev->p_next, TQ_X) && \
         TQ_FRESH(TQ_X->p_next) && TQ_PEQ(TQ_X->p_next->p_prev, TQ_X) && TQ_X->is_in_pool.val == 1 && p_queue->is_empty.val == 0)) \
    __CPROVER_assigns(vf_rm_case >= 2 : p_queue->num_threads, p_queue->p_head, p_queue->p_tail, p_queue->is_empty.val, \
                      TQ_X->p_prev, TQ_X->p_next, TQ_X->is_in_pool.val)          \
    __CPROVER_assigns(vf_rm_case >= 3 : TQ_X->p_prev->p_next, TQ_X->p_next->p_prev) \
    /* refused: nothing changes */                                             \
    __CPROVER_ensures(vf_rm_case <= 1 ==> __CPROVER_return_value == ABT_ERR_POOL) \
    __CPROVER_ensures(vf_rm_case >= 2 ==>                                      \
        (__CPROVER_return_value == ABT_SUCCESS &&                              \
         TQ_N(p_queue) == __CPROVER_old(TQ_N(p_queue)) - 1 &&                  \
         TQ_X->p_next == NULL && TQ_X->p_prev == NULL && TQ_X->is_in_pool.val == 0 && \
         p_queue->is_empty.val == (TQ_N(p_queue) == 0 ? 1 : 0)))               \
    __CPROVER_ensures(vf_rm_case == 2 ==> (TQ_H(p_queue) == NULL && TQ_T(p_queue) == NULL)) \
    /* neighbours are linked to each other */                                  \
    __CPROVER_ensures(vf_rm_case >= 3 ==>                                      \
        (TQ_PEQ(__CPROVER_old(TQ_X->p_prev)->p_next, __CPROVER_old(TQ_X->p_next)) && \
         TQ_PEQ(__CPROVER_old(TQ_X->p_next)->p_prev, __CPROVER_old(TQ_X->p_prev)))) \
    /* head / tail move iff the removed node was head / tail */                \
    __CPROVER_ensures(vf_rm_case == 3 ==>                                      \
        (TQ_PEQ(TQ_H(p_queue), __CPROVER_old(TQ_X->p_next)) && TQ_PEQ(TQ_T(p_queue), __CPROVER_old(TQ_T(p_queue))))) \
    __CPROVER_ensures(vf_rm_case == 4 ==>                                      \
        (TQ_PEQ(TQ_T(p_queue), __CPROVER_old(TQ_X->p_prev)) && TQ_PEQ(TQ_H(p_queue), __CPROVER_old(TQ_H(p_queue))))) \
    __CPROVER_ensures(vf_rm_case >= 5 ==>                                      \
        (TQ_PEQ(TQ_H(p_queue), __CPROVER_old(TQ_H(p_queue))) && TQ_PEQ(TQ_T(p_queue), __CPROVER_old(TQ_T(p_queue)))))

#endif
