/* Thin (ghost-recording) contracts of the switch primitives of abti_ythread.h
 * for the units that verify the API layer (self.c, thread.c): which primitive is
 * invoked, by whom, on which target.  Their real bodies are verified in the
 * sw_* units (harness/sw/switch.c). */
#ifndef VF_YTHREAD_THIN
#define VF_YTHREAD_THIN
enum { VF_P_NONE, VF_P_YIELD, VF_P_YIELD_TO, VF_P_THREAD_YIELD_TO, VF_P_RESUME_YIELD_TO, VF_P_SUSPEND, VF_P_SUSPEND_TO, VF_P_RESUME_SUSPEND_TO,
       VF_P_EXIT, VF_P_EXIT_TO, VF_P_RESUME_EXIT_TO, VF_P_RESUME_AND_PUSH };
int vf_prim; unsigned vf_prim_calls; const void *vf_prim_self, *vf_prim_target; int vf_prim_kind;
#define VF_PRIM_GHOST vf_prim, vf_prim_calls, vf_prim_self, vf_prim_target, vf_prim_kind
#define VF_PRIM(P, SELF, TARGET, KIND) \
    __CPROVER_assigns(VF_PRIM_GHOST) \
    __CPROVER_ensures(vf_prim == P && vf_prim_calls == __CPROVER_old(vf_prim_calls) + 1 && vf_prim_self == (SELF) && vf_prim_target == (TARGET) && vf_prim_kind == (int)(KIND))
#define VF_CALLER_OK __CPROVER_requires((p_self->thread.type & ABTI_THREAD_TYPE_YIELDABLE) != 0) /* only a ULT can give up its context */

static inline void ABTI_ythread_yield(ABTI_xstream **pp, ABTI_ythread *p_self, ABTI_ythread_yield_kind kind, ABT_sync_event_type t, void *s)
VF_CALLER_OK VF_PRIM(VF_P_YIELD, p_self, NULL, kind);
static inline void ABTI_ythread_yield_to(ABTI_xstream **pp, ABTI_ythread *p_self, ABTI_ythread *p_target, ABTI_ythread_yield_to_kind kind, ABT_sync_event_type t, void *s)
VF_CALLER_OK VF_PRIM(VF_P_YIELD_TO, p_self, p_target, kind);
static inline void ABTI_ythread_thread_yield_to(ABTI_xstream **pp, ABTI_ythread *p_self, ABTI_ythread *p_target, ABT_sync_event_type t, void *s)
VF_CALLER_OK VF_PRIM(VF_P_THREAD_YIELD_TO, p_self, p_target, 0);
static inline void ABTI_ythread_resume_yield_to(ABTI_xstream **pp, ABTI_ythread *p_self, ABTI_ythread *p_target, ABTI_ythread_resume_yield_to_kind kind, ABT_sync_event_type t, void *s)
VF_CALLER_OK VF_PRIM(VF_P_RESUME_YIELD_TO, p_self, p_target, kind);
static inline void ABTI_ythread_suspend(ABTI_xstream **pp, ABTI_ythread *p_self, ABT_sync_event_type t, void *s)
VF_CALLER_OK VF_PRIM(VF_P_SUSPEND, p_self, NULL, 0);
static inline void ABTI_ythread_suspend_to(ABTI_xstream **pp, ABTI_ythread *p_self, ABTI_ythread *p_target, ABT_sync_event_type t, void *s)
VF_CALLER_OK VF_PRIM(VF_P_SUSPEND_TO, p_self, p_target, 0);
static inline void ABTI_ythread_resume_suspend_to(ABTI_xstream **pp, ABTI_ythread *p_self, ABTI_ythread *p_target, ABT_sync_event_type t, void *s)
VF_CALLER_OK VF_PRIM(VF_P_RESUME_SUSPEND_TO, p_self, p_target, 0);
static inline void ABTI_ythread_resume_and_push(ABTI_local *p_local, ABTI_ythread *p_ythread)
VF_PRIM(VF_P_RESUME_AND_PUSH, NULL, p_ythread, 0);
/* never-returning primitives: recorded, then the path ends */
static inline void ABTI_ythread_exit(ABTI_xstream *x, ABTI_ythread *p_self)
VF_CALLER_OK VF_PRIM(VF_P_EXIT, p_self, NULL, 0);
static inline void ABTI_ythread_exit_to(ABTI_xstream *x, ABTI_ythread *p_self, ABTI_ythread *p_target)
VF_CALLER_OK VF_PRIM(VF_P_EXIT_TO, p_self, p_target, 0);
static inline void ABTI_ythread_resume_exit_to(ABTI_xstream *x, ABTI_ythread *p_self, ABTI_ythread *p_target)
VF_CALLER_OK VF_PRIM(VF_P_RESUME_EXIT_TO, p_self, p_target, 0);
#endif
