/* Contract clauses of atoi_impl shared by the unit that ENFORCES them on the
 * real body (harness/c20/atoi.c) and the units that USE them in place of the
 * body (harness/c20/atoi_wrappers.c).  The second kind appends ghost-recording
 * clauses, which add no constraint on the real outputs. */
#define ATOI_IMPL_REQUIRES                                                     \
    __CPROVER_requires(vf_len < 1000000)                                       \
    __CPROVER_requires(__CPROVER_is_fresh(str, vf_len + 1) &&                  \
                       str[vf_len] == 0)                                       \
    __CPROVER_requires(__CPROVER_is_fresh(p_is_signed, sizeof(ABT_bool)))      \
    __CPROVER_requires(__CPROVER_is_fresh(p_val, sizeof(uint64_t)))            \
    __CPROVER_requires(__CPROVER_is_fresh(p_overflow, sizeof(ABT_bool)))

#define ATOI_IMPL_ENSURES                                                      \
    __CPROVER_ensures(__CPROVER_return_value == ABT_SUCCESS ||                 \
                      __CPROVER_return_value == ABT_ERR_INV_ARG)               \
    __CPROVER_ensures(                                                         \
        __CPROVER_return_value == ABT_SUCCESS ==>                              \
        ((*p_overflow == ABT_TRUE || *p_overflow == ABT_FALSE) &&              \
         (*p_is_signed == ABT_TRUE || *p_is_signed == ABT_FALSE)))             \
    /* saturation, never wrap-around */                                        \
    __CPROVER_ensures((__CPROVER_return_value == ABT_SUCCESS &&                \
                       *p_overflow == ABT_TRUE) ==> *p_val == UINT64_MAX)      \
    /* outputs are written iff the parse succeeded */                          \
    __CPROVER_ensures(__CPROVER_return_value != ABT_SUCCESS ==>                \
                      (*p_val == __CPROVER_old(*p_val) &&                      \
                       *p_overflow == __CPROVER_old(*p_overflow) &&            \
                       *p_is_signed == __CPROVER_old(*p_is_signed)))           \
    /* a string that starts with a digit always parses */                      \
    __CPROVER_ensures(('0' <= __CPROVER_old(str[0]) &&                         \
                       __CPROVER_old(str[0]) <= '9') ==>                       \
                      __CPROVER_return_value == ABT_SUCCESS)                   \
    /* the empty string never parses */                                        \
    __CPROVER_ensures(__CPROVER_old(str[0]) == 0 ==>                           \
                      __CPROVER_return_value == ABT_ERR_INV_ARG)
