/* Thin (ghost-recording) contracts of the queue operations for the units that
 * verify the pool entry points: they demand the lockset discipline
 * (vf_need_lock => lock held) and record which operation was applied to which
 * queue and node.  Their ensures say nothing about the heap, so they are
 * implied by the full contracts in contracts/thread_queue.h. */
#ifndef VF_TQ_THIN
#define VF_TQ_THIN
#include "contracts/thread_queue_ghost.h"

#define TQ_THIN_COMMON(KIND, NODE)                                             \
    __CPROVER_requires(vf_need_lock ==> (vf_lock_held == 1))                   \
    __CPROVER_assigns(vf_ops, vf_last_kind, vf_last_q, vf_last_thread, vf_kth_thread, vf_kth_kind, vf_t_lastop, vf_clock) \
    __CPROVER_ensures(vf_ops == __CPROVER_old(vf_ops) + 1 && vf_last_kind == KIND && vf_last_q == p_queue && vf_last_thread == NODE) \
    __CPROVER_ensures(vf_clock == __CPROVER_old(vf_clock) + 1 && vf_t_lastop == vf_clock) \
    __CPROVER_ensures(__CPROVER_old(vf_ops) == vf_k ==> (vf_kth_thread == NODE && vf_kth_kind == KIND)) \
    __CPROVER_ensures(__CPROVER_old(vf_ops) != vf_k ==> (vf_kth_thread == __CPROVER_old(vf_kth_thread) && vf_kth_kind == __CPROVER_old(vf_kth_kind)))

static inline void thread_queue_push_tail(thread_queue_t *p_queue, ABTI_thread *p_thread)
TQ_THIN_COMMON(VF_OP_PUSH_TAIL, p_thread);
static inline void thread_queue_push_head(thread_queue_t *p_queue, ABTI_thread *p_thread)
TQ_THIN_COMMON(VF_OP_PUSH_HEAD, p_thread);
static inline ABTI_thread *thread_queue_pop_head(thread_queue_t *p_queue)
__CPROVER_assigns(vf_pop_ret, vf_live_pops)
/* queue nodes are ABTI_thread descriptors: at least 2-byte aligned and not in
 * the first page, where the ABT_*_NULL handle constants live (A9) */
__CPROVER_ensures((((uintptr_t)__CPROVER_return_value) & 1) == 0 &&
                  (__CPROVER_return_value == NULL || ((uintptr_t)__CPROVER_return_value) >= 4096))
__CPROVER_ensures(vf_live_pops == __CPROVER_old(vf_live_pops) + (__CPROVER_return_value != NULL ? 1 : 0))
TQ_THIN_COMMON(VF_OP_POP_HEAD, __CPROVER_return_value)
__CPROVER_ensures(__CPROVER_return_value == vf_pop_ret);
static inline ABTI_thread *thread_queue_pop_tail(thread_queue_t *p_queue)
__CPROVER_assigns(vf_pop_ret, vf_live_pops)
/* queue nodes are ABTI_thread descriptors: at least 2-byte aligned and not in
 * the first page, where the ABT_*_NULL handle constants live (A9) */
__CPROVER_ensures((((uintptr_t)__CPROVER_return_value) & 1) == 0 &&
                  (__CPROVER_return_value == NULL || ((uintptr_t)__CPROVER_return_value) >= 4096))
__CPROVER_ensures(vf_live_pops == __CPROVER_old(vf_live_pops) + (__CPROVER_return_value != NULL ? 1 : 0))
TQ_THIN_COMMON(VF_OP_POP_TAIL, __CPROVER_return_value)
__CPROVER_ensures(__CPROVER_return_value == vf_pop_ret);
static inline int thread_queue_remove(thread_queue_t *p_queue, ABTI_thread *p_thread)
__CPROVER_assigns(vf_remove_ret)
TQ_THIN_COMMON(VF_OP_REMOVE, p_thread)
__CPROVER_ensures(__CPROVER_return_value == vf_remove_ret && (vf_remove_ret == ABT_SUCCESS || vf_remove_ret == ABT_ERR_POOL));

/* returns 0 => the caller holds the lock; 1 => is_empty was observed set at
 * some instant of the call and the lock is not held */
static inline int thread_queue_acquire_spinlock_if_not_empty(thread_queue_t *p_queue, ABTD_spinlock *p_lock)
__CPROVER_requires(vf_lock_held == 0)
__CPROVER_assigns(vf_lock_held, vf_lock_which, vf_acquires, vf_clock, vf_t_acquire, vf_saw_empty)
__CPROVER_ensures(__CPROVER_return_value == 0 || __CPROVER_return_value == 1)
__CPROVER_ensures(__CPROVER_return_value == 0 ==> (vf_lock_held == 1 && vf_lock_which == p_lock && vf_acquires == __CPROVER_old(vf_acquires) + 1 && vf_saw_empty == __CPROVER_old(vf_saw_empty) &&
    vf_clock == __CPROVER_old(vf_clock) + 1 && vf_t_acquire == vf_clock))
__CPROVER_ensures(__CPROVER_return_value == 1 ==> (vf_lock_held == 0 && vf_saw_empty == 1 && vf_acquires == __CPROVER_old(vf_acquires) && vf_clock == __CPROVER_old(vf_clock)));
#endif

/* is_empty read without the lock (fifo_wait.c): arbitrary answer (other threads
 * push and pop), a TRUE answer is recorded */
#ifdef VF_TQ_THIN_IS_EMPTY
static inline ABT_bool thread_queue_is_empty(const thread_queue_t *p_queue)
__CPROVER_assigns(vf_saw_empty)
__CPROVER_ensures(__CPROVER_return_value == ABT_TRUE || __CPROVER_return_value == ABT_FALSE)
__CPROVER_ensures(__CPROVER_return_value == ABT_TRUE ==> vf_saw_empty == 1)
__CPROVER_ensures(__CPROVER_return_value == ABT_FALSE ==> vf_saw_empty == __CPROVER_old(vf_saw_empty));
#endif
