/* Monitor contracts of ABTI_mutex_lock/unlock and ABTI_cond_wait/broadcast for
 * the units that verify objects built on an ABTI_mutex + ABTI_cond pair
 * (rwlock).  Lock-invariant rule: lock = havoc the protected state + assume the
 * invariant; unlock and cond_wait = assert the invariant.  The unit defines,
 * before including this file:
 *   VF_MON_INV         the monitor invariant (expression over ghost pointers)
 *   VF_MON_HAVOC       assigns targets = the protected fields
 *   VF_MON_LOCK_POST   optional: ghost snapshots taken right after the lock
 * The real mutex / cond functions are verified under C04 / C05. */
#ifndef VF_MONITOR_THIN
#define VF_MONITOR_THIN
#ifndef VF_MON_LOCK_POST
#define VF_MON_LOCK_POST 1
#endif
#ifndef VF_MON_CLOCK
#define VF_MON_CLOCK vf_mon_clock /* a unit may share one clock with env/spinlock.h: #define VF_MON_CLOCK vf_clock */
#endif
#ifndef VF_MON_HAVOC
#define VF_MON_HAVOC vf_mon_dummy
#endif
#ifndef VF_MON_INV
#define VF_MON_INV 1
#endif
#ifndef VF_MON_ENV
#define VF_MON_ENV 1 /* extra facts assumed (never asserted) about the protected state, e.g. counter bounds (A9) */
#endif
int vf_mon_dummy;
int vf_mon_held;
int vf_mon_owner; /* abstraction of the owner bookkeeping of a recursive mutex: valid (1) after ABTI_mutex_lock, cleared by ABTI_mutex_unlock, untouched by the *_no_recursion variants */
unsigned vf_mon_locks_nr, vf_mon_unlocks_nr;
int vf_mon_waited; /* a cond_wait happened since the harness cleared it */
const void *vf_mon_mutex;
unsigned vf_mon_locks, vf_mon_unlocks, vf_mon_cwaits, vf_mon_bcasts, vf_mon_clock, vf_t_mon_bcast, vf_t_mon_unlock, vf_t_mon_lock;
#define VF_MON_GHOST vf_mon_held, vf_mon_waited, vf_mon_mutex, vf_mon_locks, vf_mon_unlocks, vf_mon_cwaits, vf_mon_bcasts, VF_MON_CLOCK, vf_t_mon_bcast, vf_t_mon_unlock, vf_t_mon_lock

static inline void ABTI_mutex_lock(ABTI_local **pp_local, ABTI_mutex *p_mutex)
__CPROVER_requires(vf_mon_held == 0)
__CPROVER_assigns(*pp_local, vf_mon_held, vf_mon_owner, vf_mon_mutex, vf_mon_locks, VF_MON_CLOCK, vf_t_mon_lock, VF_MON_HAVOC
#ifdef VF_MON_LOCK_GHOST
                  , VF_MON_LOCK_GHOST
#endif
                  )
__CPROVER_ensures(vf_mon_held == 1 && vf_mon_owner == 1 && vf_mon_mutex == p_mutex && vf_mon_locks == __CPROVER_old(vf_mon_locks) + 1)
__CPROVER_ensures(VF_MON_CLOCK == __CPROVER_old(VF_MON_CLOCK) + 1 && vf_t_mon_lock == VF_MON_CLOCK)
__CPROVER_ensures(VF_MON_INV)
__CPROVER_ensures(VF_MON_ENV)
__CPROVER_ensures(VF_MON_LOCK_POST);

static inline void ABTI_mutex_unlock(ABTI_local *p_local, ABTI_mutex *p_mutex)
__CPROVER_requires(vf_mon_held == 1 && vf_mon_mutex == p_mutex)
__CPROVER_requires(VF_MON_INV) /* the invariant is re-established at every release */
__CPROVER_assigns(vf_mon_held, vf_mon_owner, vf_mon_unlocks, VF_MON_CLOCK, vf_t_mon_unlock)
__CPROVER_ensures(vf_mon_held == 0 && vf_mon_owner == 0 && vf_mon_unlocks == __CPROVER_old(vf_mon_unlocks) + 1)
__CPROVER_ensures(VF_MON_CLOCK == __CPROVER_old(VF_MON_CLOCK) + 1 && vf_t_mon_unlock == VF_MON_CLOCK);

/* the variants that skip the owner/recursion bookkeeping: same effect on the lock itself */
static inline void ABTI_mutex_lock_no_recursion(ABTI_local **pp_local, ABTI_mutex *p_mutex)
__CPROVER_requires(vf_mon_held == 0)
__CPROVER_assigns(*pp_local, vf_mon_held, vf_mon_mutex, vf_mon_locks, vf_mon_locks_nr, VF_MON_CLOCK, vf_t_mon_lock, VF_MON_HAVOC)
__CPROVER_ensures(vf_mon_held == 1 && vf_mon_mutex == p_mutex && vf_mon_locks == __CPROVER_old(vf_mon_locks) + 1 && vf_mon_locks_nr == __CPROVER_old(vf_mon_locks_nr) + 1)
__CPROVER_ensures(VF_MON_CLOCK == __CPROVER_old(VF_MON_CLOCK) + 1 && vf_t_mon_lock == VF_MON_CLOCK)
__CPROVER_ensures(VF_MON_INV)
__CPROVER_ensures(VF_MON_ENV);
static inline void ABTI_mutex_unlock_no_recursion(ABTI_local *p_local, ABTI_mutex *p_mutex)
__CPROVER_requires(vf_mon_held == 1 && vf_mon_mutex == p_mutex)
__CPROVER_requires(VF_MON_INV)
__CPROVER_assigns(vf_mon_held, vf_mon_unlocks, vf_mon_unlocks_nr, VF_MON_CLOCK, vf_t_mon_unlock)
__CPROVER_ensures(vf_mon_held == 0 && vf_mon_unlocks == __CPROVER_old(vf_mon_unlocks) + 1 && vf_mon_unlocks_nr == __CPROVER_old(vf_mon_unlocks_nr) + 1)
__CPROVER_ensures(VF_MON_CLOCK == __CPROVER_old(VF_MON_CLOCK) + 1 && vf_t_mon_unlock == VF_MON_CLOCK);

#ifndef VF_MON_NO_COND
static inline int ABTI_cond_wait(ABTI_local **pp_local, ABTI_cond *p_cond, ABTI_mutex *p_mutex)
__CPROVER_requires(vf_mon_held == 1 && vf_mon_mutex == p_mutex)
__CPROVER_requires(VF_MON_INV) /* the mutex is released while waiting */
__CPROVER_assigns(*pp_local, vf_mon_cwaits, vf_mon_waited, VF_MON_HAVOC)
__CPROVER_ensures(vf_mon_cwaits == __CPROVER_old(vf_mon_cwaits) + 1 && vf_mon_waited == 1)
__CPROVER_ensures(__CPROVER_return_value == ABT_SUCCESS || __CPROVER_return_value == ABT_ERR_INV_MUTEX)
__CPROVER_ensures(VF_MON_INV)
__CPROVER_ensures(VF_MON_ENV);

static inline void ABTI_cond_broadcast(ABTI_local *p_local, ABTI_cond *p_cond)
__CPROVER_requires(vf_mon_held == 1) /* broadcast issued under the monitor mutex */
__CPROVER_assigns(vf_mon_bcasts, VF_MON_CLOCK, vf_t_mon_bcast)
__CPROVER_ensures(vf_mon_bcasts == __CPROVER_old(vf_mon_bcasts) + 1)
__CPROVER_ensures(VF_MON_CLOCK == __CPROVER_old(VF_MON_CLOCK) + 1 && vf_t_mon_bcast == VF_MON_CLOCK);
#endif /* VF_MON_NO_COND */
#endif
