/* ghost state of the thin queue contracts (no types of the repository needed,
 * so that it can be included before the real headers) */
#ifndef VF_TQ_GHOST
#define VF_TQ_GHOST
enum { VF_OP_NONE, VF_OP_PUSH_TAIL, VF_OP_PUSH_HEAD, VF_OP_POP_HEAD, VF_OP_POP_TAIL, VF_OP_REMOVE };
int vf_need_lock;             /* the access mode is a shared one */
unsigned vf_ops;              /* number of queue operations so far */
int vf_last_kind;             /* kind of the last operation */
const void *vf_last_q;        /* queue of the last operation */
const void *vf_last_thread;   /* node pushed / removed by the last operation */
unsigned vf_k;                /* ghost index: "the vf_k-th operation" */
const void *vf_kth_thread;    /* node pushed / popped by operation number vf_k */
int vf_kth_kind;
unsigned vf_t_lastop;         /* clock of the last operation */
struct ABTI_thread *vf_pop_ret;      /* what the queue hands back (arbitrary) */
int vf_remove_ret;
unsigned vf_live_pops;        /* pops that handed back a node */

int vf_saw_empty;
#endif
