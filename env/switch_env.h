/* Environment of the context-switch family (C02, C11, C06, C03, C12, C01).
 * (1) Contracts (DFCC) for the publication points, each stamping a ghost clock:
 *     ABTD_atomic_release_store_int   (state stores: which variant is used is
 *                                      part of the obligation)
 *     ABTI_pool_inc/dec_num_blocked, ABTI_pool_add_thread (push: after it the
 *     unit's pool field may be changed by whoever pops it), ABTD_spinlock_release,
 *     ABTD_atomic_release_store_ythread_context_ptr (joiner link).
 * (2) C models of the assembly entry points of fcontext (A4): "save the old
 *     context, then call f_cb(cb_arg) on the new context"; jump_* never return.
 *     Every model asserts that nothing about the ULT being switched out has been
 *     published before its context is saved.
 * Ghost "self" = the ULT that gives up the processor in the unit. */
#ifndef VF_SWITCH_ENV
#define VF_SWITCH_ENV
ABTI_ythread *vf_self;            /* the ULT being switched out */
unsigned vf_clock;
int vf_ctx_saved;                 /* the model has stored self's context */
unsigned vf_t_save;
/* publications concerning self */
unsigned vf_self_pushes, vf_t_push; const void *vf_push_pool; int vf_push_ctx;
unsigned vf_n_blocked_store, vf_t_blocked; /* release-store of BLOCKED into self */
unsigned vf_n_terminated_store, vf_t_terminated;
unsigned vf_n_running_store; const void *vf_running_who; unsigned vf_t_running;
unsigned vf_n_inc, vf_t_inc; const void *vf_inc_pool;
unsigned vf_n_dec, vf_t_dec; const void *vf_dec_pool;
unsigned vf_n_release, vf_t_release; const void *vf_release_lock;
unsigned vf_n_link, vf_t_link; const void *vf_link_target, *vf_link_value;
unsigned vf_other_pushes; const void *vf_other_pushed; const void *vf_other_push_pool; int vf_other_push_ctx; unsigned vf_t_other_push;
#define VF_SW_GHOST vf_clock, vf_self_pushes, vf_t_push, vf_push_pool, vf_push_ctx, vf_n_blocked_store, vf_t_blocked, vf_n_terminated_store, vf_t_terminated, \
    vf_n_running_store, vf_running_who, vf_t_running, vf_n_inc, vf_t_inc, vf_inc_pool, vf_n_dec, vf_t_dec, vf_dec_pool, vf_n_release, vf_t_release, vf_release_lock, \
    vf_n_link, vf_t_link, vf_link_target, vf_link_value, vf_other_pushes, vf_other_pushed, vf_other_push_pool, vf_other_push_ctx, vf_t_other_push

#define VF_PUB_OK (vf_ctx_saved == 1) /* publication of self allowed only after its context is saved */

static inline void ABTD_atomic_release_store_int(ABTD_atomic_int *ptr, int val)
__CPROVER_requires(__CPROVER_is_fresh(ptr, sizeof(*ptr)))
/* making self observable as BLOCKED / TERMINATED needs its context saved */
__CPROVER_requires((ptr == &vf_self->thread.state && (val == ABT_THREAD_STATE_BLOCKED || val == ABT_THREAD_STATE_TERMINATED)) ==> VF_PUB_OK)
__CPROVER_assigns(ptr->val, vf_clock, vf_n_blocked_store, vf_t_blocked, vf_n_terminated_store, vf_t_terminated, vf_n_running_store, vf_running_who, vf_t_running)
__CPROVER_ensures(ptr->val == val && vf_clock == __CPROVER_old(vf_clock) + 1)
__CPROVER_ensures((ptr == &vf_self->thread.state && val == ABT_THREAD_STATE_BLOCKED) ? (vf_n_blocked_store == __CPROVER_old(vf_n_blocked_store) + 1 && vf_t_blocked == vf_clock) : (vf_n_blocked_store == __CPROVER_old(vf_n_blocked_store) && vf_t_blocked == __CPROVER_old(vf_t_blocked)))
__CPROVER_ensures((ptr == &vf_self->thread.state && val == ABT_THREAD_STATE_TERMINATED) ? (vf_n_terminated_store == __CPROVER_old(vf_n_terminated_store) + 1 && vf_t_terminated == vf_clock) : (vf_n_terminated_store == __CPROVER_old(vf_n_terminated_store) && vf_t_terminated == __CPROVER_old(vf_t_terminated)))
__CPROVER_ensures(val == ABT_THREAD_STATE_RUNNING ? (vf_n_running_store == __CPROVER_old(vf_n_running_store) + 1 && vf_running_who == ptr && vf_t_running == vf_clock) : (vf_n_running_store == __CPROVER_old(vf_n_running_store) && vf_running_who == __CPROVER_old(vf_running_who) && vf_t_running == __CPROVER_old(vf_t_running)));

static inline void ABTI_pool_inc_num_blocked(ABTI_pool *p_pool)
__CPROVER_requires(__CPROVER_is_fresh(p_pool, sizeof(*p_pool)))
__CPROVER_assigns(p_pool->num_blocked.val, vf_clock, vf_n_inc, vf_t_inc, vf_inc_pool)
__CPROVER_ensures(p_pool->num_blocked.val == __CPROVER_old(p_pool->num_blocked.val) + 1)
__CPROVER_ensures(vf_clock == __CPROVER_old(vf_clock) + 1 && vf_n_inc == __CPROVER_old(vf_n_inc) + 1 && vf_t_inc == vf_clock && vf_inc_pool == p_pool);

static inline void ABTI_pool_dec_num_blocked(ABTI_pool *p_pool)
__CPROVER_requires(__CPROVER_is_fresh(p_pool, sizeof(*p_pool)))
__CPROVER_assigns(p_pool->num_blocked.val, vf_clock, vf_n_dec, vf_t_dec, vf_dec_pool)
__CPROVER_ensures(p_pool->num_blocked.val == __CPROVER_old(p_pool->num_blocked.val) - 1)
__CPROVER_ensures(vf_clock == __CPROVER_old(vf_clock) + 1 && vf_n_dec == __CPROVER_old(vf_n_dec) + 1 && vf_t_dec == vf_clock && vf_dec_pool == p_pool);

/* push of a work unit into its pool: it becomes visible to every stream that
 * serves the pool, which may pop it and re-associate it at once, so the pool
 * field is unstable afterwards (havoc). */
ABTI_pool *vf_any_pool; void *vf_sw_cb_arg, *vf_sw_cb_arg_live; /* argument block handed to the post-switch callback (set by the switch model below; _live only while the callback runs) */
static inline void ABTI_pool_add_thread(ABTI_thread *p_thread, ABT_pool_context context)
__CPROVER_requires(__CPROVER_is_fresh(p_thread, sizeof(*p_thread)))
__CPROVER_requires(p_thread == &vf_self->thread ==> VF_PUB_OK)
__CPROVER_assigns(p_thread->state.val, p_thread->p_pool, vf_clock, vf_self_pushes, vf_t_push, vf_push_pool, vf_push_ctx, vf_other_pushes, vf_other_pushed, vf_other_push_pool, vf_other_push_ctx, vf_t_other_push)
/* ... and once the running ULT itself is visible, another stream may resume it: everything on ITS stack -- the argument block of the
 * post-switch callback lives there -- is unstable from now on (C02: nothing of a ULT's stack is used after the ULT has been published) */
__CPROVER_assigns(p_thread == &vf_self->thread && vf_sw_cb_arg_live != NULL: __CPROVER_object_whole(vf_sw_cb_arg_live))
__CPROVER_ensures(vf_clock == __CPROVER_old(vf_clock) + 1 && p_thread->state.val == ABT_THREAD_STATE_READY)
__CPROVER_ensures(p_thread == &vf_self->thread ? (vf_self_pushes == __CPROVER_old(vf_self_pushes) + 1 && vf_t_push == vf_clock && vf_push_pool == __CPROVER_old(p_thread->p_pool) && vf_push_ctx == (int)context && vf_other_pushes == __CPROVER_old(vf_other_pushes))
                                                : (vf_other_pushes == __CPROVER_old(vf_other_pushes) + 1 && vf_other_pushed == p_thread && vf_other_push_pool == __CPROVER_old(p_thread->p_pool) && vf_other_push_ctx == (int)context && vf_t_other_push == vf_clock && vf_self_pushes == __CPROVER_old(vf_self_pushes)));

/* a direct push (ABTI_pool_add_thread written out by hand: store READY, then push) is judged like add_thread: which
 * unit, into which pool, with which context flag */
static inline void ABTI_pool_push(ABTI_pool *p_pool, ABT_unit unit, ABT_pool_context context)
__CPROVER_requires(unit == vf_self->thread.unit ==> VF_PUB_OK)
__CPROVER_assigns(vf_self->thread.p_pool, vf_clock, vf_self_pushes, vf_t_push, vf_push_pool, vf_push_ctx, vf_other_pushes, vf_other_pushed, vf_other_push_pool, vf_other_push_ctx, vf_t_other_push)
__CPROVER_ensures(vf_clock == __CPROVER_old(vf_clock) + 1)
__CPROVER_ensures(unit == vf_self->thread.unit ? (vf_self_pushes == __CPROVER_old(vf_self_pushes) + 1 && vf_t_push == vf_clock && vf_push_pool == p_pool && vf_push_ctx == (int)context && vf_other_pushes == __CPROVER_old(vf_other_pushes))
                                               : (vf_other_pushes == __CPROVER_old(vf_other_pushes) + 1 && vf_other_pushed == (void *)unit && vf_other_push_pool == p_pool && vf_other_push_ctx == (int)context && vf_t_other_push == vf_clock && vf_self_pushes == __CPROVER_old(vf_self_pushes)));

static inline void ABTD_spinlock_release(ABTD_spinlock *p_lock)
__CPROVER_requires(VF_PUB_OK) /* in this family a lock is released only on behalf of a ULT that has left its stack */
__CPROVER_assigns(vf_clock, vf_n_release, vf_t_release, vf_release_lock)
__CPROVER_ensures(vf_clock == __CPROVER_old(vf_clock) + 1 && vf_n_release == __CPROVER_old(vf_n_release) + 1 && vf_t_release == vf_clock && vf_release_lock == p_lock);

static inline void ABTD_atomic_release_store_ythread_context_ptr(ABTD_ythread_context_atomic_ptr *ptr, ABTD_ythread_context *p_ctx)
__CPROVER_requires(__CPROVER_is_fresh(ptr, sizeof(*ptr)))
__CPROVER_requires(p_ctx == &vf_self->ctx ==> VF_PUB_OK)
__CPROVER_assigns(ptr->val.val, vf_clock, vf_n_link, vf_t_link, vf_link_target, vf_link_value)
__CPROVER_ensures(ptr->val.val == (void *)p_ctx && vf_clock == __CPROVER_old(vf_clock) + 1 && vf_n_link == __CPROVER_old(vf_n_link) + 1 && vf_t_link == vf_clock && vf_link_target == ptr && vf_link_value == p_ctx);

/* ---- C models of the assembly (A4) ---- */
unsigned vf_sw_calls; int vf_sw_kind; /* 1 switch 2 jump 3 switch_with_call 4 jump_with_call; +10 when init_and_* */
fcontext_t *vf_sw_new, *vf_sw_old; void (*vf_sw_cb)(void *); void *vf_sw_stacktop; void (*vf_sw_entry)(fcontext_t *);
ABTI_xstream *vf_resumed_on; /* the stream on which self finds itself when it runs again */
static void vf_model_enter(int kind, fcontext_t *n, fcontext_t *o, void (*cb)(void *), void *arg, void (*entry)(fcontext_t *), void *top)
{
    /* nothing about the ULT being switched out may be visible before this point */
    __CPROVER_assert(vf_self_pushes == 0 && vf_n_blocked_store == 0 && vf_n_terminated_store == 0 && vf_n_release == 0 && vf_n_link == 0,
                     "nothing about the switched-out ULT is published before its context is saved");
    __CPROVER_assert(vf_self->thread.state.val == ABT_THREAD_STATE_RUNNING, "the ULT is still RUNNING when it enters the switch");
    vf_sw_calls++; vf_sw_kind = kind; vf_sw_new = n; vf_sw_old = o; vf_sw_cb = cb; vf_sw_cb_arg = arg; vf_sw_entry = entry; vf_sw_stacktop = top;
    if (o) o->dummy = (void *)1; /* context saved */
    vf_ctx_saved = 1; vf_clock++; vf_t_save = vf_clock;
    vf_sw_cb_arg_live = arg;
    if (cb) cb(arg);               /* the callback runs on the new context */
    vf_sw_cb_arg_live = NULL;
}
static void vf_model_return(void)
{
    /* self runs again later, possibly on another stream */
    vf_self->thread.p_last_xstream = vf_resumed_on;
}
void switch_fcontext(fcontext_t *n, fcontext_t *o) { vf_model_enter(1, n, o, NULL, NULL, NULL, NULL); vf_model_return(); }
void jump_fcontext(fcontext_t *n) { vf_model_enter(2, n, NULL, NULL, NULL, NULL, NULL); __CPROVER_assume(0); }
void init_and_switch_fcontext(fcontext_t *n, void (*f)(fcontext_t *), void *top, fcontext_t *o) { vf_model_enter(11, n, o, NULL, NULL, f, top); vf_model_return(); }
void init_and_jump_fcontext(fcontext_t *n, void (*f)(fcontext_t *), void *top) { vf_model_enter(12, n, NULL, NULL, NULL, f, top); __CPROVER_assume(0); }
void switch_with_call_fcontext(void *arg, void (*cb)(void *), fcontext_t *n, fcontext_t *o) { vf_model_enter(3, n, o, cb, arg, NULL, NULL); vf_model_return(); }
int vf_jump_done; /* harnesses of never-returning primitives check their obligations in vf_after_jump() */
void vf_after_jump(void);
void jump_with_call_fcontext(void *arg, void (*cb)(void *), fcontext_t *n) { vf_model_enter(4, n, NULL, cb, arg, NULL, NULL); vf_after_jump(); __CPROVER_assume(0); }
void init_and_switch_with_call_fcontext(void *arg, void (*cb)(void *), fcontext_t *n, void (*f)(fcontext_t *), void *top, fcontext_t *o) { vf_model_enter(13, n, o, cb, arg, f, top); vf_model_return(); }
void init_and_jump_with_call_fcontext(void *arg, void (*cb)(void *), fcontext_t *n, void (*f)(fcontext_t *), void *top) { vf_model_enter(14, n, NULL, cb, arg, f, top); vf_after_jump(); __CPROVER_assume(0); }
void peek_fcontext(void *arg, void (*f)(void *), fcontext_t *t) { f(arg); }
#endif
