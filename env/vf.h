/* Common definitions for all /verif translation units. */
#ifndef VF_H_INCLUDED
#define VF_H_INCLUDED
#include <stddef.h>
#include <stdint.h>

/* Reachability markers: these assertions MUST FAIL (the runner counts a
 * SUCCESS as vacuity and reports the unit as UNDECIDED). */
#ifndef VF_NATIVE
#define VF_REACH(msg) __CPROVER_assert(0, "VF_REACH " msg)
#define VF_COVER(cond, msg) __CPROVER_assert(!(cond), "VF_REACH " msg)
#define VF_ASSERT(cond, msg) __CPROVER_assert((cond), msg)
#define VF_ASSUME(cond) __CPROVER_assume(cond)
#else
#include <stdio.h>
#include <stdlib.h>
#define VF_REACH(msg) ((void)0)
#define VF_COVER(cond, msg) ((void)0)
#define VF_ASSERT(cond, msg)                                                  \
    do {                                                                       \
        if (!(cond)) {                                                         \
            fprintf(stderr, "VF_ASSERT failed: %s\n", msg);                    \
            exit(1);                                                           \
        }                                                                      \
    } while (0)
#define VF_ASSUME(cond)                                                        \
    do {                                                                       \
        if (!(cond)) {                                                         \
            fprintf(stderr, "input outside precondition: %s\n", #cond);        \
            exit(0);                                                           \
        }                                                                      \
    } while (0)
#endif

#endif
