#ifndef VF_SPINLOCK_GHOST
#define VF_SPINLOCK_GHOST
int vf_lock_held;           /* 1 while the caller holds the lock */
const void *vf_lock_which;  /* the lock last operated on */
unsigned vf_acquires, vf_releases, vf_clock;
unsigned vf_t_acquire, vf_t_release; /* clock of the last acquire / release */

#endif
