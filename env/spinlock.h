/* Environment contract of ABTD_spinlock (abtd_spinlock.h): a ghost lockset.
 * vf_lock_held[p] is modelled for ONE lock per unit: vf_lock_which records the
 * lock operated on, vf_lock_held whether the caller holds it.  acquire on a
 * lock already held by the caller = self-deadlock = obligation failure.
 * Counters give "exactly once" and ordering facts. (Assumption A3/A5.) */
#ifndef VF_SPINLOCK_H
#define VF_SPINLOCK_H
#include "env/spinlock_ghost.h"
/* Optional lock-invariant hooks (a unit defines them before including this
 * file): acquire havocs VF_LOCK_HAVOC (+ VF_LOCK_GHOST snapshots) and assumes
 * VF_LOCK_INV, VF_LOCK_ENV and VF_LOCK_POST; release asserts VF_LOCK_INV. */
#ifndef VF_LOCK_INV
#define VF_LOCK_INV 1
#endif
#ifndef VF_LOCK_ENV
#define VF_LOCK_ENV 1
#endif
#ifndef VF_LOCK_POST
#define VF_LOCK_POST 1
#endif

static inline void ABTD_spinlock_acquire(ABTD_spinlock *p_lock)
__CPROVER_requires(vf_lock_held == 0)
__CPROVER_assigns(vf_lock_held, vf_lock_which, vf_acquires, vf_clock, vf_t_acquire
#ifdef VF_LOCK_HAVOC
                  , VF_LOCK_HAVOC
#endif
#ifdef VF_LOCK_GHOST
                  , VF_LOCK_GHOST
#endif
                  )
__CPROVER_ensures(vf_lock_held == 1 && vf_lock_which == p_lock)
__CPROVER_ensures(vf_acquires == __CPROVER_old(vf_acquires) + 1)
__CPROVER_ensures(vf_clock == __CPROVER_old(vf_clock) + 1 && vf_t_acquire == vf_clock)
__CPROVER_ensures(VF_LOCK_INV)
__CPROVER_ensures(VF_LOCK_ENV)
__CPROVER_ensures(VF_LOCK_POST);

/* returns ABT_FALSE iff acquired; another thread may hold it, so the result is
 * not determined by the caller's state */
static inline ABT_bool ABTD_spinlock_try_acquire(ABTD_spinlock *p_lock)
__CPROVER_requires(vf_lock_held == 0)
__CPROVER_assigns(vf_lock_held, vf_lock_which, vf_acquires, vf_clock, vf_t_acquire)
__CPROVER_ensures(__CPROVER_return_value == ABT_TRUE || __CPROVER_return_value == ABT_FALSE)
__CPROVER_ensures(__CPROVER_return_value == ABT_FALSE ==>
    (vf_lock_held == 1 && vf_lock_which == p_lock && vf_acquires == __CPROVER_old(vf_acquires) + 1 &&
     vf_clock == __CPROVER_old(vf_clock) + 1 && vf_t_acquire == vf_clock))
__CPROVER_ensures(__CPROVER_return_value == ABT_TRUE ==>
    (vf_lock_held == 0 && vf_acquires == __CPROVER_old(vf_acquires) && vf_clock == __CPROVER_old(vf_clock)));

static inline void ABTD_spinlock_release(ABTD_spinlock *p_lock)
__CPROVER_requires(vf_lock_held == 1 && vf_lock_which == p_lock)
__CPROVER_requires(VF_LOCK_INV) /* invariant re-established at every release */
__CPROVER_assigns(vf_lock_held, vf_releases, vf_clock, vf_t_release
#ifdef VF_LOCK_REL_GHOST
                  , VF_LOCK_REL_GHOST /* snapshots of the protected state as it is handed back (to show nothing is written after the release) */
#endif
                  )
__CPROVER_ensures(vf_lock_held == 0 && vf_releases == __CPROVER_old(vf_releases) + 1)
__CPROVER_ensures(vf_clock == __CPROVER_old(vf_clock) + 1 && vf_t_release == vf_clock)
#ifdef VF_LOCK_REL_POST
__CPROVER_ensures(VF_LOCK_REL_POST)
#endif
;

/* the lock word is changed by other threads at any time */
static inline ABT_bool ABTD_spinlock_is_locked(const ABTD_spinlock *p_lock)
__CPROVER_assigns()
__CPROVER_ensures(__CPROVER_return_value == ABT_TRUE || __CPROVER_return_value == ABT_FALSE);
#endif
