/* Machine model for the C text that tools/asm2c.py extracts from
 * src/arch/fcontext/fcontext_x86_64_sysv_elf_gas.S (C02, assembly half).
 *
 * State: the sixteen 64-bit integer registers, the program counter after the
 * routine's final jump/ret, MXCSR and the x87 control word, and a flat
 * little-endian memory (64-bit words).  Memory holds three stacks of VF_STK bytes each
 * (A: the ULT that is switched out, B: another started ULT / the resumer,
 * N: the stack of a ULT that has never run) and a few 8-byte context slots
 * (fcontext_t.dummy = the saved stack pointer).  Addresses are indices into
 * that memory; stack bases are multiples of 128, so alignment modulo 16 is
 * meaningful.  Every access outside the modelled memory is an obligation
 * failure ("the routine touches only stack slots and context slots").
 *
 * Trusted (A4'): the meaning given to the instructions in tools/asm2c.py
 * (pushq/popq/movq/leaq/andq/addq/subq/stmxcsr/ldmxcsr/fnstcw/fldcw/jmpq* / callq* / ret),
 * the SysV AMD64 calling convention as modelled by vf_env_call() in the
 * harness, and that nothing else of the machine state (flags, vector registers'
 * contents, segment bases) matters to the listed property. */
#ifndef VF_X86_MODEL_H
#define VF_X86_MODEL_H
#include <stdint.h>
typedef struct {
    uint64_t rax, rbx, rcx, rdx, rsi, rdi, rbp, rsp, r8, r9, r10, r11, r12, r13, r14, r15;
    uint64_t pc;     /* where control goes when the routine is left */
    uint32_t mxcsr;  /* SSE control/status */
    uint16_t fcw;    /* x87 control word */
} vf_cpu;

#define VF_STK 128u
#define VF_STK_A 0x080u
#define VF_STK_B 0x100u
#define VF_STK_N 0x180u
#define VF_CTX 0x200u           /* context slots: VF_CTX + 8*k */
#define VF_MEM_END 0x220u
#define VF_RET_TOKEN 0xC0DE0000u /* return addresses pushed by callq inside the routines */
/* memory is kept as 64-bit little-endian words; 64-bit accesses must be 8-byte aligned, 32-bit ones 4-byte aligned,
 * 16-bit ones 2-byte aligned (obligations: stacks and context slots are at least 8-byte aligned by the ABI) */
static uint64_t vf_memw[VF_MEM_END / 8];

#define VF_MEM_OK(a, n) __CPROVER_assert((a) >= VF_STK_A && (a) <= VF_MEM_END - (n) && ((a) & ((n) - 1)) == 0, "asm: memory access inside the modelled stacks / context slots, naturally aligned"); __CPROVER_assume((a) >= VF_STK_A && (a) <= VF_MEM_END - (n) && ((a) & ((n) - 1)) == 0)
static inline uint64_t vf_load64(uint64_t a) { VF_MEM_OK(a, 8); return vf_memw[a >> 3]; }
static inline void vf_store64(uint64_t a, uint64_t v) { VF_MEM_OK(a, 8); vf_memw[a >> 3] = v; }
static inline uint32_t vf_load32(uint64_t a) { VF_MEM_OK(a, 4); return (uint32_t)(vf_memw[a >> 3] >> (8 * (a & 7))); }
static inline void vf_store32(uint64_t a, uint32_t v)
{
    VF_MEM_OK(a, 4);
    unsigned sh = 8 * (unsigned)(a & 7);
    vf_memw[a >> 3] = (vf_memw[a >> 3] & ~((uint64_t)0xffffffffu << sh)) | ((uint64_t)v << sh);
}
static inline uint16_t vf_load16(uint64_t a) { VF_MEM_OK(a, 2); return (uint16_t)(vf_memw[a >> 3] >> (8 * (a & 7))); }
static inline void vf_store16(uint64_t a, uint16_t v)
{
    VF_MEM_OK(a, 2);
    unsigned sh = 8 * (unsigned)(a & 7);
    vf_memw[a >> 3] = (vf_memw[a >> 3] & ~((uint64_t)0xffffu << sh)) | ((uint64_t)v << sh);
}
static inline void vf_push64(vf_cpu *c, uint64_t v) { c->rsp -= 8; vf_store64(c->rsp, v); }
static inline uint64_t vf_pop64(vf_cpu *c) { uint64_t v = vf_load64(c->rsp); c->rsp += 8; return v; }
static void vf_env_call(vf_cpu *c, uint64_t target); /* an ABI-conforming C function: defined by the harness */
#endif
