/* Environment model of pthread mutex / condition variable (A5) on the same
 * ghost lockset as env/spinlock.h.  cond_signal/broadcast/timedwait assert that
 * the associated mutex is held by the caller. */
#ifndef VF_PTHREAD_SYNC_H
#define VF_PTHREAD_SYNC_H
#include <pthread.h>
#include "env/spinlock_ghost.h"
unsigned vf_signals, vf_broadcasts, vf_cwaits;
unsigned vf_t_signal; /* clock of the last signal/broadcast */
int pthread_mutex_lock(pthread_mutex_t *m)
{
    __CPROVER_assert(vf_lock_held == 0, "pthread_mutex_lock: not already held by the caller");
    vf_lock_held = 1; vf_lock_which = m; vf_acquires++; vf_clock++; vf_t_acquire = vf_clock;
    return 0;
}
int pthread_mutex_unlock(pthread_mutex_t *m)
{
    __CPROVER_assert(vf_lock_held == 1 && vf_lock_which == m, "pthread_mutex_unlock: held by the caller");
    vf_lock_held = 0; vf_releases++; vf_clock++; vf_t_release = vf_clock;
    return 0;
}
int pthread_cond_signal(pthread_cond_t *c)
{
    __CPROVER_assert(vf_lock_held == 1, "pthread_cond_signal issued while the mutex is held");
    vf_signals++; vf_clock++; vf_t_signal = vf_clock;
    return 0;
}
int pthread_cond_broadcast(pthread_cond_t *c)
{
    __CPROVER_assert(vf_lock_held == 1, "pthread_cond_broadcast issued while the mutex is held");
    vf_broadcasts++; vf_clock++; vf_t_signal = vf_clock;
    return 0;
}
int pthread_cond_timedwait(pthread_cond_t *c, pthread_mutex_t *m, const struct timespec *ts)
{
    __CPROVER_assert(vf_lock_held == 1 && vf_lock_which == m, "pthread_cond_timedwait called with the mutex held");
    int r; /* woken, timed out or EINVAL: the mutex is held again on return */
    vf_cwaits++;
    return r;
}
#endif
