/* Native replay for the atoi wrapper units: rebuilds a decimal string from the
 * verifier's (sign, magnitude, overflow) witness, runs the REAL parser and
 * compares with an independent clamp computed in 128-bit arithmetic. */
#include "replay/vf_args.h"
#include "util/atoi.c"

int main(int argc, char **argv)
{
    vf_argc = argc;
    vf_argv = argv;
    const char *unit = vf_arg("unit");
    int neg = (int)vf_arg_u64("vf_ai_signed", 0);
    unsigned long long mag = vf_arg_u64("vf_ai_val", 0);
    int ovf = (int)vf_arg_u64("vf_ai_ovf", 0);
    char buf[64];
    if (ovf)
        snprintf(buf, sizeof buf, "%s99999999999999999999999", neg ? "-" : "");
    else
        snprintf(buf, sizeof buf, "%s%llu", neg ? "-" : "", mag);
    __int128 v = ovf ? ((__int128)1 << 100) : (__int128)mag;
    if (neg)
        v = -v;
    __int128 lo, hi;
    __int128 got;
    ABT_bool o = 77;
    int ret;
    if (!strcmp(unit, "ABTU_atoi")) {
        int r;
        lo = INT_MIN, hi = INT_MAX;
        ret = ABTU_atoi(buf, &r, &o);
        got = r;
    } else if (!strcmp(unit, "ABTU_atoui32")) {
        uint32_t r;
        lo = 0, hi = UINT32_MAX;
        ret = ABTU_atoui32(buf, &r, &o);
        got = r;
    } else if (!strcmp(unit, "ABTU_atoui64")) {
        uint64_t r;
        lo = 0, hi = UINT64_MAX;
        ret = ABTU_atoui64(buf, &r, &o);
        got = r;
    } else {
        size_t r;
        lo = 0, hi = SIZE_MAX;
        ret = ABTU_atosz(buf, &r, &o);
        got = r;
    }
    __int128 want = v < lo ? lo : (v > hi ? hi : v);
    int want_o = (v < lo || v > hi);
    printf("input \"%s\": ret=%d got=%lld overflow=%d; expected %lld overflow=%d\n",
           buf, ret, (long long)got, (int)o, (long long)want, want_o);
    if (ret != ABT_SUCCESS || got != want || (int)o != want_o) {
        printf("MISMATCH: the real parser does not saturate as specified\n");
        return 1;
    }
    return 0;
}
