/* Native replay for the global memory pool units: the harness itself is
 * compiled natively (VF_NATIVE) around the REAL src/mem/mem_pool.c with the
 * verifier's witness as inputs; a failed VF_ASSERT exits 1. */
#include "harness/c15/global_pool.c"
/* callees of paths that the replayed units do not take */
void ABTU_free_largepage(void *p, size_t s, ABTU_MEM_LARGEPAGE_TYPE t) { abort(); }
int ABTU_mprotect(void *p, size_t s, ABT_bool protect) { abort(); }
int main(int argc, char **argv)
{
    vf_argc = argc; vf_argv = argv;
    const char *unit = vf_arg("unit");
    if (unit && !strcmp(unit, "gpool_return_partial_B")) h_return_partial();
    else { fprintf(stderr, "no native replay for this unit\n"); return 0; }
    printf("ok\n");
    return 0;
}
