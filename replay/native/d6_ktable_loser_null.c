/* D6 (C16/C18): two external threads call ABT_thread_set_specific() on a ULT
 * that has no key table yet.  Thread A wins the slot (NULL -> LOCKED) and its
 * table allocation FAILS (slowly); it restores NULL.  Thread B was waiting for
 * LOCKED to go away, reads NULL, leaves the wait loop and uses a NULL table:
 * crash (clean failure of A must leave B able to proceed).  Exit != 0 = defect.
 * Fault injection: posix_memalign interposed; A's allocation sleeps then fails. */
#define _GNU_SOURCE
#include <dlfcn.h>
#include <errno.h>
#include <pthread.h>
#include <signal.h>
#include <stdio.h>
#include <stdlib.h>
#include <unistd.h>
#include <abt.h>
static __thread int t_fail_next; static volatile int a_in_alloc;
int posix_memalign(void **memptr, size_t alignment, size_t size)
{
    static int (*real_fn)(void **, size_t, size_t) = NULL;
    if (!real_fn) real_fn = (int (*)(void **, size_t, size_t))dlsym(RTLD_NEXT, "posix_memalign");
    if (t_fail_next) { t_fail_next = 0; a_in_alloc = 1; usleep(500000); return ENOMEM; }
    return real_fn(memptr, alignment, size);
}
static ABT_thread g_thread; static ABT_key g_key; static int va = 1, vb = 2; static int ra = -1, rb = -1;
static void thread_func(void *arg) { (void)arg; }
static void *thread_a(void *arg) { t_fail_next = 1; ra = ABT_thread_set_specific(g_thread, g_key, &va); return NULL; }
static void *thread_b(void *arg) { while (!a_in_alloc) usleep(1000); usleep(50000); rb = ABT_thread_set_specific(g_thread, g_key, &vb); return NULL; }
static void on_segv(int s) { const char m[] = "DEFECT: the waiting thread used a NULL key table after the creator's allocation failed (SIGSEGV)\n"; if (write(2, m, sizeof m - 1)) {} _exit(1); }
int main(void)
{
    signal(SIGSEGV, on_segv); signal(SIGABRT, on_segv);
    ABT_init(0, NULL); ABT_key_create(NULL, &g_key);
    ABT_xstream xs; ABT_pool pool; ABT_self_get_xstream(&xs); ABT_xstream_get_main_pools(xs, 1, &pool);
    ABT_thread_create(pool, thread_func, NULL, ABT_THREAD_ATTR_NULL, &g_thread);
    pthread_t a, b; pthread_create(&a, NULL, thread_a, NULL); pthread_create(&b, NULL, thread_b, NULL);
    pthread_join(a, NULL); pthread_join(b, NULL);
    void *val = NULL; ABT_thread_get_specific(g_thread, g_key, &val);
    printf("A returned %d (allocation failed: must be an error), B returned %d (must succeed), value=%p (&vb=%p)\n", ra, rb, val, (void *)&vb);
    if (ra == ABT_SUCCESS || rb != ABT_SUCCESS || val != &vb) { printf("DEFECT\n"); return 1; }
    ABT_thread_free(&g_thread); ABT_key_free(&g_key); ABT_finalize(); printf("ok\n"); return 0;
}
