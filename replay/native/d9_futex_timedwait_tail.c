/* D9: the pthread-based futex (abtd_futex.c, used when Linux futexes are not
 * available, e.g. macOS/BSD; selected here by undefining
 * ABT_CONFIG_USE_LINUX_FUTEX) keeps its waiters in a doubly linked list, newest
 * first.  ABTD_futex_timedwait_and_unlock(), when its wait times out, unlinks
 * itself; if it is not the head it executes
 *     sync_obj.p_prev->p_next = sync_obj.p_next;
 *     sync_obj.p_next->p_prev = sync_obj.p_prev;
 * without checking sync_obj.p_next: for the OLDEST waiter (the tail, p_next ==
 * NULL) that is a NULL-pointer write.  So: two timed waiters on one futex, the
 * one that started first times out first => crash.  (Timed waits of external
 * threads / tasklets on a condition variable, ABT_cond_timedwait, go through it.)
 *   clang -g -I/repo/src/include -I/repo/src -DHAVE_CONFIG_H d9_futex_timedwait_tail.c -lpthread && ./a.out
 * The real file is compiled; only the configuration macro is switched. */
#include "abt_config.h"
#undef ABT_CONFIG_USE_LINUX_FUTEX
#include "abti.h"
#include "arch/abtd_futex.c"
#include <pthread.h>
#include <unistd.h>
static ABTD_futex_multiple fx; static ABTD_spinlock lock;
static void *waiter(void *arg)
{
    double secs = *(double *)arg;
    ABTD_spinlock_acquire(&lock);
    ABTD_futex_timedwait_and_unlock(&fx, &lock, secs); /* releases the lock */
    return NULL;
}
int main(void)
{
    ABTD_futex_multiple_init(&fx); ABTD_spinlock_clear(&lock);
    pthread_t a, b; double ta = 0.3, tb = 1.5;
    pthread_create(&a, NULL, waiter, &ta); usleep(100000); /* A is queued first: it becomes the tail */
    pthread_create(&b, NULL, waiter, &tb);                  /* B is queued in front of it */
    pthread_join(a, NULL);                                  /* A times out first */
    pthread_join(b, NULL);
    printf("ok: both timed waits returned, list %s\n", fx.p_next == NULL ? "empty" : "NOT empty");
    return fx.p_next == NULL ? 0 : 1;
}
