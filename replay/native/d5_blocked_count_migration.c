/* D5 (C06): a ULT whose migration request is served while it suspends left the
 * blocked-unit count of its OLD pool at +1 for ever (and drove the new pool's
 * to -1 at resume).  ABT_pool_get_total_size = size + blocked. Exit 1 = defect. */
#include <abt.h>
#include <stdio.h>
#include <unistd.h>
static ABT_eventual ev; static ABT_pool poolA, poolB; static volatile int stage;
static void body(void *arg)
{
    ABT_thread me; ABT_thread_self(&me);
    ABT_thread_migrate_to_pool(me, poolB);   /* request: served at the next scheduling point ... */
    stage = 1;
    ABT_eventual_wait(ev, NULL);             /* ... which is this suspend */
    stage = 2;
}
int main(int argc, char **argv)
{
    ABT_init(argc, argv);
    ABT_xstream es1, es2; ABT_sched s1, s2;
    ABT_pool_create_basic(ABT_POOL_FIFO, ABT_POOL_ACCESS_MPMC, ABT_TRUE, &poolA);
    ABT_pool_create_basic(ABT_POOL_FIFO, ABT_POOL_ACCESS_MPMC, ABT_TRUE, &poolB);
    ABT_sched_create_basic(ABT_SCHED_BASIC, 1, &poolA, ABT_SCHED_CONFIG_NULL, &s1);
    ABT_sched_create_basic(ABT_SCHED_BASIC, 1, &poolB, ABT_SCHED_CONFIG_NULL, &s2);
    ABT_xstream_create(s1, &es1); ABT_xstream_create(s2, &es2);
    ABT_eventual_create(0, &ev);
    ABT_thread t; ABT_thread_create(poolA, body, NULL, ABT_THREAD_ATTR_NULL, &t);
    while (stage < 1) usleep(1000);
    usleep(100000); /* let it block */
    size_t a_blocked, b_blocked;
    ABT_pool_get_total_size(poolA, &a_blocked); ABT_pool_get_total_size(poolB, &b_blocked);
    printf("while blocked: total(A)=%zu total(B)=%zu\n", a_blocked, b_blocked);
    ABT_eventual_set(ev, NULL, 0);
    ABT_thread_join(t);
    size_t a, b; ABT_pool_get_total_size(poolA, &a); ABT_pool_get_total_size(poolB, &b);
    printf("after the unit terminated: total(A)=%zu total(B)=%zu (both must be 0)\n", a, b);
    int bad = (a != 0 || b != 0);
    if (bad) { printf("DEFECT: blocked-unit count unbalanced; joining the stream of pool A would never return\n"); return 1; }
    ABT_thread_free(&t);
    ABT_xstream_join(es1); ABT_xstream_join(es2); ABT_xstream_free(&es1); ABT_xstream_free(&es2);
    ABT_eventual_free(&ev); ABT_finalize(); printf("ok\n"); return 0;
}
