/* D10 (C18): ABT_pool_add_sched(user_pool, sched) where the user pool's
 * create_unit fails (an allocation failure inside the user's pool, or inside the
 * runtime's unit map).  ythread_create() had already registered the scheduler
 * under the new ULT's scheduler key; its failure path freed the key table, which
 * ran the key's destructor, which FREED the (automatic) scheduler although the
 * call failed and the caller still holds the handle: ABT_pool_add_sched then
 * wrote to the freed scheduler, and the caller's ABT_sched_free() is a double
 * free.  A failed call must leave the scheduler usable: here it is added to the
 * pool again (retry succeeds) and runs a ULT.  Run under valgrind / ASan, or rely
 * on glibc's double-free detection; exit != 0 = defect.
 *   cc -g -I$REPO/src/include d10_add_sched_fail.c -L$REPO/src/.libs -labt -lpthread
 *   valgrind --error-exitcode=9 ./a.out */
#include <stdio.h>
#include <stdlib.h>
#include <abt.h>
static int g_fail; static ABT_unit slots[16]; static int n;
typedef struct { ABT_thread t; } unit_t;
static ABT_unit u_create(ABT_pool p, ABT_thread t) { (void)p; if (g_fail) { g_fail = 0; return ABT_UNIT_NULL; } unit_t *u = malloc(sizeof *u); u->t = t; return (ABT_unit)u; }
static void u_free(ABT_pool p, ABT_unit u) { (void)p; free((void *)u); }
static ABT_bool p_is_empty(ABT_pool p) { (void)p; return n == 0 ? ABT_TRUE : ABT_FALSE; }
static ABT_thread p_pop(ABT_pool p, ABT_pool_context c) { (void)p; (void)c; if (!n) return ABT_THREAD_NULL; return ((unit_t *)slots[--n])->t; }
static void p_push(ABT_pool p, ABT_unit u, ABT_pool_context c) { (void)p; (void)c; slots[n++] = u; }
int main(void)
{
    ABT_init(0, NULL);
    ABT_pool_user_def def; ABT_pool upool;
    ABT_pool_user_def_create(u_create, u_free, p_is_empty, p_pop, p_push, &def);
    ABT_pool_create(def, ABT_POOL_CONFIG_NULL, &upool);
    ABT_pool_user_def_free(&def);
    ABT_pool bp = ABT_POOL_NULL; ABT_sched sched;
    if (ABT_sched_create_basic(ABT_SCHED_DEFAULT, 1, &bp, ABT_SCHED_CONFIG_NULL, &sched) != ABT_SUCCESS) return 2;
    g_fail = 1; /* the next create_unit fails */
    int r = ABT_pool_add_sched(upool, sched);
    if (r == ABT_SUCCESS) { fprintf(stderr, "fault not injected\n"); return 2; }
    /* the failed call must have left `sched` alone: it is still ours to free */
    r = ABT_sched_free(&sched);
    printf("failed add_sched, then ABT_sched_free -> %d\n", r);
    ABT_pool_free(&upool);
    ABT_finalize();
    return r == ABT_SUCCESS ? 0 : 1;
}
