/* D11 (C18): ABT_thread_create_many(n, pools, funcs, args, attr, newthread_list)
 * when the creation of entry i fails (here: the stack of the requested size
 * cannot be allocated).  The loop stored ABTI_ythread_get_handle(p_newthread) in
 * newthread_list[i] BEFORE looking at the error code, but a failed
 * ythread_create() does not write p_newthread: an uninitialised pointer -- a
 * value no successful creation produced -- was handed back to the caller, who
 * cannot tell it from a real handle (joining / freeing it is a wild access).
 * A failed call must leave the entry untouched (or NULL).
 *   cc -g -I$REPO/src/include d11_create_many_fail.c -L$REPO/src/.libs -labt -lpthread
 *   valgrind --error-exitcode=9 ./a.out     (exit != 0 = defect) */
#include <stdio.h>
#include <stdlib.h>
#include <stdint.h>
#include <string.h>
#include <abt.h>
static void work(void *a) { (void)a; }
/* dirty the stack region the library call is going to use, so that the
 * uninitialised local does not happen to hold 0 or the sentinel */
static void __attribute__((noinline)) dirty_stack(void) { volatile char buf[4096]; memset((void *)buf, 0x5a, sizeof buf); }
int main(void)
{
    ABT_init(0, NULL);
    ABT_xstream self; ABT_xstream_self(&self); ABT_pool pool; ABT_xstream_get_main_pools(self, 1, &pool);
    ABT_thread_attr attr; ABT_thread_attr_create(&attr);
    ABT_thread_attr_set_stacksize(attr, (size_t)1 << 60); /* cannot be allocated: every creation fails with ABT_ERR_MEM */
    enum { N = 3 }; ABT_pool pools[N]; void (*funcs[N])(void *); void *args[N]; ABT_thread out[N];
    const ABT_thread SENT = (ABT_thread)(uintptr_t)0x1111;
    for (int i = 0; i < N; i++) { pools[i] = pool; funcs[i] = work; args[i] = NULL; out[i] = SENT; }
    dirty_stack();
    int r = ABT_thread_create_many(N, pools, funcs, args, attr, out);
    int bad = 0;
    printf("ABT_thread_create_many returned %d (ABT_ERR_MEM = %d)\n", r, ABT_ERR_MEM);
    if (r == ABT_SUCCESS) { printf("unexpected: creation succeeded\n"); return 2; }
    for (int i = 0; i < N; i++) {
        if (out[i] != SENT && out[i] != ABT_THREAD_NULL) { printf("DEFECT: newthread_list[%d] = %p after the failed call: a value no successful creation produced\n", i, (void *)out[i]); bad = 1; }
    }
    ABT_thread_attr_free(&attr);
    ABT_finalize();
    if (!bad) printf("ok: the failed call left the handle list untouched\n");
    return bad;
}
