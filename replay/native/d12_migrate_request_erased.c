/* D12 (C13): a migration request accepted while the handler of an earlier request runs is erased.
 * ABTI_thread_handle_request_migrate read the target pool, migrated, ran the user's callback and only THEN cleared
 * the MIGRATE request bit -- wiping any request raised in between (by the callback itself, which receives the unit's
 * handle, or by another stream / external thread racing with the handler).  The later request returned ABT_SUCCESS
 * but the unit never goes through the requested pool and the callback is never invoked for it.
 * Deterministic variant: the callback re-requests a migration to a third pool.  Exit 1 = defect. */
#include <abt.h>
#include <stdio.h>
static ABT_pool pool[3]; static int n_cb; static int seen_in[3]; static ABT_thread the_ult; static int r_second = -1;
static void cb(ABT_thread t, void *arg)
{
    n_cb++;
    if (n_cb == 1) r_second = ABT_thread_migrate_to_pool(t, pool[2]); /* accepted: the unit is migratable and now lives in pool[1] */
}
static void body(void *arg)
{
    for (int i = 0; i < 20; i++) {
        ABT_pool p; ABT_self_get_last_pool(&p);
        for (int k = 0; k < 3; k++) if (p == pool[k]) seen_in[k]++;
        ABT_self_yield();
    }
}
int main(int argc, char **argv)
{
    ABT_init(argc, argv);
    for (int k = 0; k < 3; k++) ABT_pool_create_basic(ABT_POOL_FIFO, ABT_POOL_ACCESS_MPMC, ABT_TRUE, &pool[k]);
    ABT_sched s; ABT_sched_create_basic(ABT_SCHED_BASIC, 3, pool, ABT_SCHED_CONFIG_NULL, &s);
    ABT_xstream es; ABT_xstream_create(s, &es);
    ABT_thread_attr a; ABT_thread_attr_create(&a); ABT_thread_attr_set_callback(a, cb, NULL); ABT_thread_attr_set_migratable(a, ABT_TRUE);
    /* the first request is raised before the unit can run: create without pushing is not available, so request from the body's first step */
    ABT_thread_create(pool[0], body, NULL, a, &the_ult);
    int r_first = ABT_thread_migrate_to_pool(the_ult, pool[1]);
    ABT_thread_join(the_ult);
    ABT_pool last; ABT_thread_get_last_pool(the_ult, &last);
    printf("first request rc=%d, second request (from the callback) rc=%d, callbacks=%d, runs seen in pool0/1/2 = %d/%d/%d\n", r_first, r_second, n_cb, seen_in[0], seen_in[1], seen_in[2]);
    int bad = (r_second == ABT_SUCCESS) && (seen_in[2] == 0 || n_cb != 2);
    ABT_thread_free(&the_ult); ABT_thread_attr_free(&a); ABT_xstream_join(es); ABT_xstream_free(&es); ABT_finalize();
    if (bad) { printf("DEFECT: the second migration request was accepted (ABT_SUCCESS) but never performed\n"); return 1; }
    printf("ok\n"); return 0;
}
