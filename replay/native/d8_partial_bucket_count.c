/* D8: mem_pool_return_partial_bucket() (src/mem/mem_pool.c), when the
 * partial bucket and the returned leftover together EXCEED a full bucket,
 * stores per_bucket - (a + b) -- a negative number, wrapped into size_t -- as
 * the size of the new partial bucket instead of (a + b) - per_bucket.  The next
 * merges then cut the partial chain short: free blocks drop out of every free
 * list and are never handed out again (the pool keeps allocating fresh pages
 * instead).
 *
 * Real library code (libabt.a); streams whose pools hold 3, 2, 3 and 2 leftover
 * blocks finish one after the other (buckets of 4).
 *   clang -g -I/repo/src/include -DHAVE_CONFIG_H d8_partial_bucket_count.c /repo/src/.libs/libabt.a -lpthread -lm
 * exit status 1 = blocks were lost. */
#include "abti.h"

#define P 4
#define HS 64
int main(void)
{
    static ABTI_mem_pool_global_pool gp;
    ABTU_MEM_LARGEPAGE_TYPE req[1] = { ABTU_MEM_LARGEPAGE_MALLOC };
    ABTI_mem_pool_init_global_pool(&gp, P, HS, 0, 4096, req, 1, 64, NULL);
    int leftover[4] = { 3, 2, 3, 2 }, outstanding = 0;
    for (int s = 0; s < 4; s++) {
        ABTI_mem_pool_local_pool lp; void *m;
        if (ABTI_mem_pool_init_local_pool(&lp, &gp) != ABT_SUCCESS) return 2;
        for (int k = 0; k < P - leftover[s]; k++) { if (ABTI_mem_pool_alloc(&lp, &m) != ABT_SUCCESS) return 2; outstanding++; }
        ABTI_mem_pool_destroy_local_pool(&lp); /* the stream finishes */
        printf("after stream %d: partial bucket records %zd blocks\n", s, gp.partial_bucket ? (ssize_t)gp.partial_bucket->bucket_info.num_headers : (ssize_t)0);
    }
    /* ledger */
    int carved = 0, free_blocks = 0;
    ABTI_sync_lifo_element *e;
    while ((e = ABTI_sync_lifo_pop_unsafe(&gp.mem_page_lifo))) { ABTI_mem_pool_page *pg = (ABTI_mem_pool_page *)e; carved += (pg->page_size - sizeof(ABTI_mem_pool_page) - pg->mem_extra_size) / HS; }
    for (ABTI_mem_pool_page *pg = ABTD_atomic_relaxed_load_ptr(&gp.p_mem_page_empty); pg; pg = pg->p_next_empty_page) carved += (pg->page_size - sizeof(ABTI_mem_pool_page) - pg->mem_extra_size) / HS;
    while ((e = ABTI_sync_lifo_pop_unsafe(&gp.bucket_lifo))) { ABTI_mem_pool_header *h = (ABTI_mem_pool_header *)((char *)e - offsetof(ABTI_mem_pool_header, bucket_info)); int n = 0; for (; h; h = h->p_next) n++; printf("bucket with %d blocks\n", n); free_blocks += n; }
    { int n = 0; for (ABTI_mem_pool_header *h = gp.partial_bucket; h; h = h->p_next) n++; printf("partial bucket chains %d blocks\n", n); free_blocks += n; }
    printf("carved %d = in use %d + free %d ?  %s\n", carved, outstanding, free_blocks, carved == outstanding + free_blocks ? "yes" : "NO: blocks lost");
    return carved == outstanding + free_blocks ? 0 : 1;
}
