/* D7: ABTI_mem_alloc_desc() on an external thread (p_local == NULL) allocates
 * ABTI_MEM_POOL_DESC_SIZE (= element size - 4) bytes and then writes the 4-byte
 * provenance flag AT offset ABTI_MEM_POOL_DESC_SIZE, i.e. 4 bytes past the end
 * of the block.  With aligned allocation (the default) ABTU_malloc rounds the
 * size up to the cache line, which hides it; with --disable-aligned-alloc
 * ABTU_malloc is malloc(size) and the write is a heap-buffer-overflow.
 *   clang -g -O1 -fsanitize=address -I/repo/src/include -DHAVE_CONFIG_H d7_ext_desc_flag_overflow.c && ./a.out
 * The real header code runs; only the configuration macro is switched. */
#include "abt_config.h"
#undef ABT_CONFIG_USE_ALIGNED_ALLOC
#include "abti.h"
int main(void)
{
    void *d = NULL;
    int r = ABTI_mem_alloc_desc(NULL, &d); /* external thread */
    printf("alloc_desc -> %d, block %p, element size %zu, allocated %zu\n", r, d, (size_t)ABTI_MEM_POOL_DESC_ELEM_SIZE, (size_t)ABTI_MEM_POOL_DESC_SIZE);
    free(d);
    return 0;
}
