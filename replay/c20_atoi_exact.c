/* Native replay: run the real atoi_impl on the witness string and compare
 * with strtoull-style reference semantics (digits after optional blanks and
 * signs; saturate at UINT64_MAX). */
#include "replay/vf_args.h"
#include <errno.h>
#include "util/atoi.c"
int main(int argc, char **argv)
{
    vf_argc = argc; vf_argv = argv;
    const char *lst = vf_arg("vf_in_str");
    size_t n = (size_t)vf_arg_u64("vf_in_len", 0);
    char s[128]; size_t k = 0;
    if (lst) { char *dup = strdup(lst); for (char *t = strtok(dup, ","); t && k < sizeof(s) - 1; t = strtok(NULL, ",")) s[k++] = (char)atoi(t); }
    if (n > k) n = k;
    s[n] = 0;
    /* reference */
    size_t i = 0; int neg = 0;
    while (s[i] == ' ' || s[i] == '\t' || s[i] == '\n' || s[i] == '\r') i++;
    while (s[i] == '+' || s[i] == '-') { if (s[i] == '-') neg = !neg; i++; }
    int have = (s[i] >= '0' && s[i] <= '9');
    unsigned __int128 acc = 0; int sat = 0;
    while (s[i] >= '0' && s[i] <= '9') { acc = acc * 10 + (unsigned)(s[i] - '0'); if (acc > UINT64_MAX) { sat = 1; break; } i++; }
    ABT_bool sg = 7, ov = 7; uint64_t v = 12345;
    int r = atoi_impl(s, &sg, &v, &ov);
    printf("input \"%s\": ret=%d val=%llu signed=%d overflow=%d; expected %s val=%llu signed=%d overflow=%d\n", s, r,
           (unsigned long long)v, (int)sg, (int)ov, have ? "SUCCESS" : "INV_ARG", (unsigned long long)(sat ? UINT64_MAX : (uint64_t)acc), neg, sat);
    if (!have) return r == ABT_ERR_INV_ARG ? 0 : 1;
    if (r != ABT_SUCCESS || (int)sg != neg || (int)ov != sat || v != (sat ? UINT64_MAX : (uint64_t)acc)) { printf("MISMATCH\n"); return 1; }
    return 0;
}
