/* Tiny helper for native replay drivers: inputs arrive as name=value args. */
#ifndef VF_ARGS_H
#define VF_ARGS_H
#include <stdio.h>
#include <stdlib.h>
#include <string.h>
static int vf_argc;
static char **vf_argv;
static const char *vf_arg(const char *name)
{
    size_t n = strlen(name);
    for (int i = 1; i < vf_argc; i++)
        if (strncmp(vf_argv[i], name, n) == 0 && vf_argv[i][n] == '=')
            return vf_argv[i] + n + 1;
    return NULL;
}
static unsigned long long vf_arg_u64(const char *name, unsigned long long dflt)
{
    const char *v = vf_arg(name);
    if (!v)
        return dflt;
    if (!strcmp(v, "TRUE") || !strcmp(v, "true"))
        return 1;
    if (!strcmp(v, "FALSE") || !strcmp(v, "false"))
        return 0;
    return strtoull(v, NULL, 0);
}
static long long vf_arg_i64(const char *name, long long dflt)
{
    const char *v = vf_arg(name);
    return v ? strtoll(v, NULL, 0) : dflt;
}
#endif
