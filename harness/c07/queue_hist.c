/* C07/C01 (bounded cross-check of the whole-sequence view): the REAL queue
 * operations of pool/thread_queue.h driven by a symbolic script of OPS
 * operations over NN work units, compared after every step with a reference
 * sequence kept in an array: FIFO order at the head, LIFO at the tail, remove
 * takes out exactly the named unit, each unit is in the queue at most once,
 * size / emptiness flag exact, and the ring is well formed in both directions
 * (every forward link has its back link -- what a later pop at the other end
 * relies on).  The local contracts (queue_* units) hold for every length; this
 * unit ties them to the abstract sequence for histories of <= OPS steps. */
#include "vf.h"
#include "abti.h"
#include "thread_queue.h" /* the real /repo/src/pool/thread_queue.h */
#ifndef NN
#define NN 4
#endif
#ifndef OPS
#define OPS 5
#endif
static ABTI_thread node[NN]; static thread_queue_t q;
static ABTI_thread *ref[NN]; static int nref;
static int in_ref(ABTI_thread *t) { for (int i = 0; i < NN; i++) if (i < nref && ref[i] == t) return 1; return 0; }
static void check(void)
{
    VF_ASSERT(q.num_threads == (size_t)nref && thread_queue_get_size(&q) == (size_t)nref && (thread_queue_is_empty(&q) == ABT_TRUE) == (nref == 0), "size and emptiness flag are exact");
    if (nref == 0) { VF_ASSERT(q.p_head == NULL && q.p_tail == NULL, "empty queue has no head and no tail"); return; }
    VF_ASSERT(q.p_head == ref[0] && q.p_tail == ref[nref - 1], "head is the oldest unit, tail the newest");
    for (int i = 0; i < NN; i++) if (i < nref) {
        ABTI_thread *nx = ref[(i + 1) % nref], *pv = ref[(i + nref - 1) % nref];
        VF_ASSERT(ref[i]->p_next == nx && ref[i]->p_prev == pv && ref[i]->is_in_pool.val == 1, "the ring follows the sequence in BOTH directions; queued units are marked in-pool");
    }
    for (int i = 0; i < NN; i++) if (!in_ref(&node[i])) VF_ASSERT(node[i].is_in_pool.val == 0 && node[i].p_next == NULL && node[i].p_prev == NULL, "a unit outside the queue is fully unlinked");
}
void h_queue_history(void)
{
    thread_queue_init(&q); nref = 0;
    for (int i = 0; i < NN; i++) { node[i].p_next = NULL; node[i].p_prev = NULL; node[i].is_in_pool.val = 0; }
    check();
    for (int s = 0; s < OPS; s++) {
        int op, k; VF_ASSUME(0 <= op && op <= 4 && 0 <= k && k < NN); ABTI_thread *t = &node[k];
        if (op == 0 && !in_ref(t)) { thread_queue_push_tail(&q, t); ref[nref++] = t; }
        else if (op == 1 && !in_ref(t)) { thread_queue_push_head(&q, t); for (int i = NN - 1; i > 0; i--) ref[i] = ref[i - 1]; ref[0] = t; nref++; }
        else if (op == 2) { ABTI_thread *r = thread_queue_pop_head(&q);
            if (nref == 0) VF_ASSERT(r == NULL, "pop on an empty queue returns nothing");
            else { VF_ASSERT(r == ref[0], "pop_head returns the OLDEST unit (FIFO)"); for (int i = 0; i + 1 < NN; i++) ref[i] = ref[i + 1]; nref--; } }
        else if (op == 3) { ABTI_thread *r = thread_queue_pop_tail(&q);
            if (nref == 0) VF_ASSERT(r == NULL, "pop on an empty queue returns nothing");
            else { VF_ASSERT(r == ref[nref - 1], "pop_tail returns the NEWEST unit"); nref--; } }
        else if (op == 4) { int was = in_ref(t); int r = thread_queue_remove(&q, t);
            if (!was) VF_ASSERT(r == ABT_ERR_POOL, "removing a unit that is not queued is refused");
            else { VF_ASSERT(r == ABT_SUCCESS, "a queued unit can be removed"); int j = 0; for (int i = 0; i < NN; i++) if (i < nref && ref[i] != t) ref[j++] = ref[i]; nref--; } }
        check();
    }
    VF_REACH("queue history"); VF_COVER(nref == 2, "two units queued at the end"); VF_COVER(nref == 0, "drained");
}
