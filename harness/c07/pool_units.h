/* Contracts and harnesses shared by fifo.c and randws.c (the two files have the
 * same entry points; RANDWS chooses the queue end by the context flag). */


static void pool_push_shared(ABT_pool pool, ABT_unit unit, ABT_pool_context context)
POOL_OK(pool) __CPROVER_requires(vf_need_lock == 1 && ABTI_unit_is_builtin(unit))
GHOST_ASSIGNS ONE_OP(PUSH_KIND(context), U2T(unit)) LOCKED_ONCE;

static void pool_push_private(ABT_pool pool, ABT_unit unit, ABT_pool_context context)
POOL_OK(pool) __CPROVER_requires(vf_need_lock == 0 && ABTI_unit_is_builtin(unit))
GHOST_ASSIGNS ONE_OP(PUSH_KIND(context), U2T(unit)) NO_LOCK;

/* pop: NULL only if (a) the empty flag was seen set during the call, or (b) the
 * queue handed back nothing under the lock; otherwise the popped node's handle */
static ABT_thread pool_pop_shared(ABT_pool pool, ABT_pool_context context)
POOL_OK(pool) __CPROVER_requires(vf_need_lock == 1 && vf_saw_empty == 0)
GHOST_ASSIGNS
__CPROVER_ensures(vf_lock_held == 0 && vf_acquires == vf_releases - __CPROVER_old(vf_releases) + __CPROVER_old(vf_acquires))
__CPROVER_ensures(vf_saw_empty == 1 ==> (__CPROVER_return_value == ABT_THREAD_NULL && vf_ops == __CPROVER_old(vf_ops)))
__CPROVER_ensures(vf_saw_empty == 0 ==>
    (vf_ops == __CPROVER_old(vf_ops) + 1 && vf_last_kind == POP_KIND(context) && vf_last_q == &PD(pool)->queue &&
     __CPROVER_return_value == (vf_pop_ret == NULL ? ABT_THREAD_NULL : (ABT_thread)vf_pop_ret) &&
     vf_lock_which == &PD(pool)->mutex && vf_t_acquire < vf_t_lastop && vf_t_lastop < vf_t_release));

static ABT_thread pool_pop_private(ABT_pool pool, ABT_pool_context context)
POOL_OK(pool) __CPROVER_requires(vf_need_lock == 0)
GHOST_ASSIGNS NO_LOCK
__CPROVER_ensures(vf_ops == __CPROVER_old(vf_ops) + 1 && vf_last_kind == POP_KIND(context) && vf_last_q == &PD(pool)->queue)
__CPROVER_ensures(__CPROVER_return_value == (vf_pop_ret == NULL ? ABT_THREAD_NULL : (ABT_thread)vf_pop_ret));

static int pool_remove_shared(ABT_pool pool, ABT_unit unit)
POOL_OK(pool) __CPROVER_requires(vf_need_lock == 1 && ABTI_unit_is_builtin(unit))
GHOST_ASSIGNS ONE_OP(VF_OP_REMOVE, U2T(unit)) LOCKED_ONCE
__CPROVER_ensures(__CPROVER_return_value == vf_remove_ret);

static int pool_remove_private(ABT_pool pool, ABT_unit unit)
POOL_OK(pool) __CPROVER_requires(vf_need_lock == 0 && ABTI_unit_is_builtin(unit))
GHOST_ASSIGNS ONE_OP(VF_OP_REMOVE, U2T(unit)) NO_LOCK
__CPROVER_ensures(__CPROVER_return_value == vf_remove_ret);

/* In the *_many loops every array element must be a built-in unit (the
 * repository asserts it per element).  That for-all precondition is a call-site
 * fact (units handed to a built-in pool are built-in: C14); here the tag-bit
 * helper is taken by its contract (enforced in C14's unit_tagbit unit). */
static inline ABTI_thread *ABTI_unit_get_thread_from_builtin_unit(ABT_unit unit)
__CPROVER_assigns()
__CPROVER_ensures(__CPROVER_return_value == (ABTI_thread *)U2T(unit));

/* push_many: element vf_k of the input is the vf_k-th push, in index order */
size_t vf_num;
#define PUSH_MANY_CONTRACT(LOCK)                                               \
    POOL_OK(pool) __CPROVER_requires(vf_need_lock == LOCK && vf_ops == 0 && num_units < 1000 && vf_num == num_units) \
    __CPROVER_requires(num_units == 0 || __CPROVER_is_fresh(units, sizeof(ABT_unit) * num_units)) \
    GHOST_ASSIGNS                                                              \
    __CPROVER_ensures(vf_ops == num_units && vf_lock_held == 0)                \
    __CPROVER_ensures(vf_k < num_units ==> (vf_kth_kind == PUSH_KIND(context) && vf_kth_thread == U2T(units[vf_k]))) \
    __CPROVER_ensures(num_units > 0 ==> vf_last_q == &PD(pool)->queue)
static void pool_push_many_shared(ABT_pool pool, const ABT_unit *units, size_t num_units, ABT_pool_context context)
PUSH_MANY_CONTRACT(1)
__CPROVER_ensures(num_units > 0 ==> (vf_acquires == __CPROVER_old(vf_acquires) + 1 && vf_releases == __CPROVER_old(vf_releases) + 1 && vf_lock_which == &PD(pool)->mutex && vf_t_lastop < vf_t_release))
__CPROVER_ensures(num_units == 0 ==> vf_acquires == __CPROVER_old(vf_acquires));
static void pool_push_many_private(ABT_pool pool, const ABT_unit *units, size_t num_units, ABT_pool_context context)
PUSH_MANY_CONTRACT(0) NO_LOCK;

/* pop_many: output element vf_k is the vf_k-th popped node; *num_popped counts
 * the nodes handed back; every node the queue handed back is in the output */
#define POP_MANY_CONTRACT(LOCK)                                                \
    POOL_OK(pool) __CPROVER_requires(vf_need_lock == LOCK && vf_ops == 0 && vf_live_pops == 0 && max_threads < 1000 && vf_num == max_threads && vf_saw_empty == 0) \
    __CPROVER_requires(max_threads == 0 || __CPROVER_is_fresh(threads, sizeof(ABT_thread) * max_threads)) \
    __CPROVER_requires(__CPROVER_is_fresh(num_popped, sizeof(size_t)))         \
    GHOST_ASSIGNS __CPROVER_assigns(*num_popped)                               \
    __CPROVER_assigns(max_threads > 0 : __CPROVER_object_whole(threads))       \
    __CPROVER_ensures(*num_popped <= max_threads && vf_lock_held == 0)         \
    __CPROVER_ensures(*num_popped == vf_live_pops) /* nothing popped is dropped */ \
    __CPROVER_ensures(vf_k < *num_popped ==> (vf_kth_kind == POP_KIND(context) && vf_kth_thread != NULL && threads[vf_k] == (ABT_thread)vf_kth_thread)) \
    __CPROVER_ensures(vf_ops > 0 ==> vf_last_q == &PD(pool)->queue)
static void pool_pop_many_shared(ABT_pool pool, ABT_thread *threads, size_t max_threads, size_t *num_popped, ABT_pool_context context)
POP_MANY_CONTRACT(1)
__CPROVER_ensures(vf_acquires == vf_releases - __CPROVER_old(vf_releases) + __CPROVER_old(vf_acquires))
__CPROVER_ensures((vf_saw_empty == 1 || max_threads == 0) ==> (vf_ops == 0 && *num_popped == 0));
static void pool_pop_many_private(ABT_pool pool, ABT_thread *threads, size_t max_threads, size_t *num_popped, ABT_pool_context context)
POP_MANY_CONTRACT(0) NO_LOCK;

/* blocking pops: the node handed back by the queue is returned at once; an
 * empty-handed return happens only after the elapsed-time test succeeded */
double vf_now; int vf_timed_out;
static inline double ABTI_get_wtime(void) __CPROVER_assigns() __CPROVER_ensures(1); /* arbitrary clock (A5) */
int nanosleep(const struct timespec *a, struct timespec *b) { int r; return r; }
static ABT_thread pool_pop_wait(ABT_pool pool, double time_secs, ABT_pool_context context)
POOL_OK(pool) __CPROVER_requires(vf_need_lock == 1 && vf_live_pops == 0)
GHOST_ASSIGNS
__CPROVER_ensures(vf_lock_held == 0)
__CPROVER_ensures(__CPROVER_return_value != ABT_THREAD_NULL ==> (vf_live_pops == 1 && __CPROVER_return_value == (ABT_thread)vf_pop_ret && vf_last_q == &PD(pool)->queue))
__CPROVER_ensures(__CPROVER_return_value == ABT_THREAD_NULL ==> vf_live_pops == 0);
static ABT_unit pool_pop_timedwait(ABT_pool pool, double abstime_secs)
POOL_OK(pool) __CPROVER_requires(vf_need_lock == 1 && vf_live_pops == 0)
GHOST_ASSIGNS
__CPROVER_ensures(vf_lock_held == 0)
__CPROVER_ensures(__CPROVER_return_value != ABT_UNIT_NULL ==> (vf_live_pops == 1 && U2T(__CPROVER_return_value) == vf_pop_ret && ABTI_unit_is_builtin(__CPROVER_return_value) && vf_last_q == &PD(pool)->queue))
__CPROVER_ensures(__CPROVER_return_value == ABT_UNIT_NULL ==> vf_live_pops == 0);

#define H1(NAME, CALL, DECLS) void h_##NAME(void) { DECLS; CALL; VF_REACH(#NAME " returns"); }
H1(pool_push_shared, pool_push_shared(p, u, c), ABT_pool p; ABT_unit u; ABT_pool_context c)
H1(pool_push_private, pool_push_private(p, u, c), ABT_pool p; ABT_unit u; ABT_pool_context c)
void h_pool_pop_shared(void) { ABT_pool p; ABT_pool_context c; ABT_thread t = pool_pop_shared(p, c); VF_REACH("pop_shared returns"); VF_COVER(t == ABT_THREAD_NULL && vf_saw_empty, "empty flag path"); VF_COVER(t == ABT_THREAD_NULL && !vf_saw_empty, "empty under lock"); VF_COVER(t != ABT_THREAD_NULL, "popped"); }
void h_pool_pop_private(void) { ABT_pool p; ABT_pool_context c; ABT_thread t = pool_pop_private(p, c); VF_REACH("pop_private returns"); VF_COVER(t == ABT_THREAD_NULL, "empty"); VF_COVER(t != ABT_THREAD_NULL, "popped"); }
H1(pool_remove_shared, pool_remove_shared(p, u), ABT_pool p; ABT_unit u)
H1(pool_remove_private, pool_remove_private(p, u), ABT_pool p; ABT_unit u)
void h_pool_push_many_shared(void) { ABT_pool p; const ABT_unit *us; size_t n; ABT_pool_context c; pool_push_many_shared(p, us, n, c); VF_REACH("push_many_shared returns"); VF_COVER(vf_num == 0, "none"); VF_COVER(vf_num > 3 && vf_k == 2, "several"); }
void h_pool_push_many_private(void) { ABT_pool p; const ABT_unit *us; size_t n; ABT_pool_context c; pool_push_many_private(p, us, n, c); VF_REACH("push_many_private returns"); VF_COVER(vf_num > 3 && vf_k == 2, "several"); }

void h_pool_pop_many_shared(void) { ABT_pool p; ABT_thread *ts; size_t n, *np; ABT_pool_context c; pool_pop_many_shared(p, ts, n, np, c); VF_REACH("pop_many_shared returns"); VF_COVER(vf_live_pops >= 2 && vf_k == 1, "several"); VF_COVER(vf_saw_empty, "empty flag"); VF_COVER(vf_ops == vf_live_pops + 1, "ended by empty queue"); VF_COVER(vf_num > 2 && vf_live_pops == vf_num, "ended by array size"); }
void h_pool_pop_many_private(void) { ABT_pool p; ABT_thread *ts; size_t n, *np; ABT_pool_context c; pool_pop_many_private(p, ts, n, np, c); VF_REACH("pop_many_private returns"); VF_COVER(vf_live_pops >= 2 && vf_k == 1, "several"); VF_COVER(vf_ops == vf_live_pops + 1, "ended by empty queue"); }
void h_pool_pop_wait(void) { ABT_pool p; double s; ABT_pool_context c; ABT_thread t = pool_pop_wait(p, s, c); VF_REACH("pop_wait returns"); VF_COVER(t == ABT_THREAD_NULL, "timed out"); VF_COVER(t != ABT_THREAD_NULL, "got one"); }
void h_pool_pop_timedwait(void) { ABT_pool p; double s; ABT_unit u = pool_pop_timedwait(p, s); VF_REACH("pop_timedwait returns"); VF_COVER(u == ABT_UNIT_NULL, "timed out"); VF_COVER(u != ABT_UNIT_NULL, "got one"); }

/* access mode -> variant: every shared access mode gets the locked functions */
void h_pool_def(void)
{
    ABT_pool_access access;
    ABTI_pool_required_def rd; ABTI_pool_optional_def od; ABTI_pool_deprecated_def dd;
    int r = POOL_GET_DEF(access, &rd, &od, &dd);
    if (access == ABT_POOL_ACCESS_PRIV) {
        VF_ASSERT(r == ABT_SUCCESS && rd.p_push == pool_push_private && rd.p_pop == pool_pop_private &&
                  od.p_push_many == pool_push_many_private && od.p_pop_many == pool_pop_many_private &&
                  dd.p_remove == pool_remove_private, "PRIV gets the unlocked variants");
    } else if (access == ABT_POOL_ACCESS_SPSC || access == ABT_POOL_ACCESS_MPSC || access == ABT_POOL_ACCESS_SPMC || access == ABT_POOL_ACCESS_MPMC) {
        VF_ASSERT(r == ABT_SUCCESS && rd.p_push == pool_push_shared && rd.p_pop == pool_pop_shared &&
                  od.p_push_many == pool_push_many_shared && od.p_pop_many == pool_pop_many_shared &&
                  dd.p_remove == pool_remove_shared, "every shared access mode gets the locked variants");
    } else {
        VF_ASSERT(r == ABT_ERR_INV_POOL_ACCESS, "unknown access mode rejected");
    }
    if (r == ABT_SUCCESS)
        VF_ASSERT(rd.p_is_empty == pool_is_empty && od.p_get_size == pool_get_size && od.p_pop_wait == pool_pop_wait &&
                  dd.p_pop_timedwait == pool_pop_timedwait && od.p_init == pool_init && od.p_free == pool_free, "common members");
    VF_REACH("fifo_def returns");
    VF_COVER(access == ABT_POOL_ACCESS_SPSC, "SPSC");
}
