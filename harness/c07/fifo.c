/* C07: pool/fifo.c -- every entry point: lockset discipline, which end of the
 * queue, exactly-once, "pop returns nothing only if the pool was seen empty". */
#include "vf.h"
#include "abti.h"
#include "env/spinlock.h"
#include "thread_queue.h"
#include "contracts/thread_queue_thin.h"
#include "pool/fifo.c"
#include "harness/c07/pool_common.h"
#define PUSH_KIND(c) VF_OP_PUSH_TAIL
#define POP_KIND(c) VF_OP_POP_HEAD
#define POOL_GET_DEF ABTI_pool_get_fifo_def
#include "harness/c07/pool_units.h"
