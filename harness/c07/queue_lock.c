/* C07: thread_queue_acquire_spinlock_if_not_empty (the lock-free fast path of
 * pop): enforced against the same contract the pool units use.  The is_empty
 * flag and the lock word are shared: loads return arbitrary values (rely), and
 * a non-zero load of is_empty is recorded in the ghost vf_saw_empty. */
#include "vf.h"
#include "env/spinlock_ghost.h"
#include "contracts/thread_queue_ghost.h"
#include "abti.h"
#include "env/spinlock.h"
#include "thread_queue.h"
#include "contracts/thread_queue_thin.h"

static inline int ABTD_atomic_acquire_load_int(const ABTD_atomic_int *ptr)
__CPROVER_assigns(vf_saw_empty)
__CPROVER_ensures(__CPROVER_return_value != 0 ==> vf_saw_empty == 1)
__CPROVER_ensures(__CPROVER_return_value == 0 ==> vf_saw_empty == __CPROVER_old(vf_saw_empty));

void h_acquire_if_not_empty(void)
{
    thread_queue_t *q; ABTD_spinlock *l;
    int r = thread_queue_acquire_spinlock_if_not_empty(q, l);
    VF_REACH("returns");
    VF_COVER(r == 0, "lock taken"); VF_COVER(r == 1, "seen empty");
}
