/* C07/C19: pool/fifo_wait.c (pthread mutex + condition variable) */
#include "vf.h"
#include "env/spinlock_ghost.h"
#include "contracts/thread_queue_ghost.h"
#include "abti.h"
#include "env/pthread_sync.h"
#include "thread_queue.h"
#define VF_TQ_THIN_IS_EMPTY
#include "env/spinlock.h"
#include "contracts/thread_queue_thin.h"
#include "pool/fifo_wait.c"
#include "harness/c07/pool_common.h"
#undef GHOST_ASSIGNS
#define GHOST_ASSIGNS                                                          \
    __CPROVER_assigns(vf_lock_held, vf_lock_which, vf_acquires, vf_releases, vf_clock, vf_t_acquire, vf_t_release, \
                      vf_ops, vf_last_kind, vf_last_q, vf_last_thread, vf_kth_thread, vf_kth_kind, vf_t_lastop, \
                      vf_pop_ret, vf_remove_ret, vf_saw_empty, vf_live_pops, vf_signals, vf_broadcasts, vf_cwaits, vf_t_signal)
#define W_OK POOL_OK(pool) __CPROVER_requires(vf_need_lock == 1 && vf_signals < 1000 && vf_broadcasts < 1000 && vf_cwaits < 1000)

/* push: signal issued while the mutex is held, after the push */
static void pool_push(ABT_pool pool, ABT_unit unit, ABT_pool_context context)
W_OK __CPROVER_requires(ABTI_unit_is_builtin(unit))
GHOST_ASSIGNS ONE_OP(VF_OP_PUSH_TAIL, U2T(unit)) LOCKED_ONCE
__CPROVER_ensures(vf_signals + vf_broadcasts == __CPROVER_old(vf_signals) + __CPROVER_old(vf_broadcasts) + 1 &&
                  vf_t_lastop < vf_t_signal && vf_t_signal < vf_t_release);

static inline ABTI_thread *ABTI_unit_get_thread_from_builtin_unit(ABT_unit unit)
__CPROVER_assigns()
__CPROVER_ensures(__CPROVER_return_value == (ABTI_thread *)U2T(unit));

size_t vf_num;
static void pool_push_many(ABT_pool pool, const ABT_unit *units, size_t num_units, ABT_pool_context context)
W_OK __CPROVER_requires(vf_ops == 0 && num_units < 1000 && vf_num == num_units)
__CPROVER_requires(num_units == 0 || __CPROVER_is_fresh(units, sizeof(ABT_unit) * num_units))
GHOST_ASSIGNS
__CPROVER_ensures(vf_ops == num_units && vf_lock_held == 0)
__CPROVER_ensures(vf_k < num_units ==> (vf_kth_kind == VF_OP_PUSH_TAIL && vf_kth_thread == U2T(units[vf_k])))
__CPROVER_ensures(num_units > 0 ==> (vf_last_q == &PD(pool)->queue && vf_acquires == __CPROVER_old(vf_acquires) + 1 &&
    vf_releases == __CPROVER_old(vf_releases) + 1 && vf_lock_which == &PD(pool)->mutex &&
    vf_t_lastop < vf_t_signal && vf_t_signal < vf_t_release))
/* one waiter for one unit, all waiters for several */
__CPROVER_ensures(num_units == 1 ==> (vf_signals == __CPROVER_old(vf_signals) + 1 && vf_broadcasts == __CPROVER_old(vf_broadcasts)))
__CPROVER_ensures(num_units > 1 ==> (vf_broadcasts == __CPROVER_old(vf_broadcasts) + 1))
__CPROVER_ensures(num_units == 0 ==> (vf_acquires == __CPROVER_old(vf_acquires) && vf_signals == __CPROVER_old(vf_signals) && vf_broadcasts == __CPROVER_old(vf_broadcasts)));

/* pop: nothing only if the empty flag was seen set, or the queue was empty
 * under the mutex */
static ABT_thread pool_pop(ABT_pool pool, ABT_pool_context context)
W_OK __CPROVER_requires(vf_saw_empty == 0)
GHOST_ASSIGNS
__CPROVER_ensures(vf_lock_held == 0)
__CPROVER_ensures(vf_saw_empty == 1 ==> (__CPROVER_return_value == ABT_THREAD_NULL && vf_ops == __CPROVER_old(vf_ops) && vf_acquires == __CPROVER_old(vf_acquires)))
__CPROVER_ensures(vf_saw_empty == 0 ==>
    (vf_ops == __CPROVER_old(vf_ops) + 1 && vf_last_kind == VF_OP_POP_HEAD && vf_last_q == &PD(pool)->queue &&
     __CPROVER_return_value == (vf_pop_ret == NULL ? ABT_THREAD_NULL : (ABT_thread)vf_pop_ret) &&
     vf_lock_which == &PD(pool)->mutex && vf_t_acquire < vf_t_lastop && vf_t_lastop < vf_t_release &&
     vf_acquires == __CPROVER_old(vf_acquires) + 1 && vf_releases == __CPROVER_old(vf_releases) + 1));

/* blocking pops: the pop is made under the mutex AFTER the (possibly timed
 * out) wait, so a unit pushed during the wait is returned or stays queued */
int clock_gettime(clockid_t id, struct timespec *ts) { struct timespec t; __CPROVER_assume(t.tv_sec >= 0 && t.tv_sec < ((time_t)1 << 40) && t.tv_nsec >= 0 && t.tv_nsec < 1000000000L); *ts = t; return 0; } /* A5: a valid wall-clock reading */
static ABT_thread pool_pop_wait(ABT_pool pool, double time_secs, ABT_pool_context context)
W_OK __CPROVER_requires(time_secs >= 0.0 && time_secs < 1e9) /* A9: sane time-outs (double -> time_t casts) */
GHOST_ASSIGNS ONE_OP(VF_OP_POP_HEAD, vf_pop_ret) LOCKED_ONCE
__CPROVER_ensures(vf_cwaits <= __CPROVER_old(vf_cwaits) + 1)
__CPROVER_ensures(__CPROVER_return_value == (vf_pop_ret == NULL ? ABT_THREAD_NULL : (ABT_thread)vf_pop_ret));
static ABT_unit pool_pop_timedwait(ABT_pool pool, double abstime_secs)
W_OK __CPROVER_requires(abstime_secs >= 0.0 && abstime_secs < 1e12)
GHOST_ASSIGNS ONE_OP(VF_OP_POP_HEAD, vf_pop_ret) LOCKED_ONCE
__CPROVER_ensures(vf_cwaits <= __CPROVER_old(vf_cwaits) + 1)
__CPROVER_ensures(vf_pop_ret == NULL ? __CPROVER_return_value == ABT_UNIT_NULL
                                     : (U2T(__CPROVER_return_value) == vf_pop_ret && ABTI_unit_is_builtin(__CPROVER_return_value)));

static void pool_pop_many(ABT_pool pool, ABT_thread *threads, size_t max_threads, size_t *num_popped, ABT_pool_context context)
W_OK __CPROVER_requires(vf_ops == 0 && vf_live_pops == 0 && max_threads < 1000 && vf_num == max_threads && vf_saw_empty == 0)
__CPROVER_requires(max_threads == 0 || __CPROVER_is_fresh(threads, sizeof(ABT_thread) * max_threads))
__CPROVER_requires(__CPROVER_is_fresh(num_popped, sizeof(size_t)))
GHOST_ASSIGNS __CPROVER_assigns(*num_popped)
__CPROVER_assigns(max_threads > 0 : __CPROVER_object_whole(threads))
__CPROVER_ensures(*num_popped <= max_threads && vf_lock_held == 0 && *num_popped == vf_live_pops)
__CPROVER_ensures(vf_k < *num_popped ==> (vf_kth_kind == VF_OP_POP_HEAD && vf_kth_thread != NULL && threads[vf_k] == (ABT_thread)vf_kth_thread))
__CPROVER_ensures((vf_saw_empty == 1 || max_threads == 0) ==> (vf_ops == 0 && *num_popped == 0));

void h_pool_push(void) { ABT_pool p; ABT_unit u; ABT_pool_context c; pool_push(p, u, c); VF_REACH("push returns"); }
void h_pool_push_many(void) { ABT_pool p; const ABT_unit *us; size_t n; ABT_pool_context c; pool_push_many(p, us, n, c); VF_REACH("push_many returns"); VF_COVER(vf_num == 0, "none"); VF_COVER(vf_num == 1, "one"); VF_COVER(vf_num > 3 && vf_k == 2, "several"); }
void h_pool_pop(void) { ABT_pool p; ABT_pool_context c; ABT_thread t = pool_pop(p, c); VF_REACH("pop returns"); VF_COVER(t == ABT_THREAD_NULL && vf_saw_empty, "empty flag"); VF_COVER(t == ABT_THREAD_NULL && !vf_saw_empty, "empty under mutex"); VF_COVER(t != ABT_THREAD_NULL, "popped"); }
void h_pool_pop_wait(void) { ABT_pool p; double s; ABT_pool_context c; ABT_thread t = pool_pop_wait(p, s, c); VF_REACH("pop_wait returns"); VF_COVER(t == ABT_THREAD_NULL, "nothing"); VF_COVER(t != ABT_THREAD_NULL && vf_cwaits > 0 && vf_saw_empty, "got one after waiting"); }
void h_pool_pop_timedwait(void) { ABT_pool p; double s; ABT_unit u = pool_pop_timedwait(p, s); VF_REACH("pop_timedwait returns"); VF_COVER(u == ABT_UNIT_NULL, "nothing"); VF_COVER(u != ABT_UNIT_NULL, "got one"); }
void h_pool_pop_many(void) { ABT_pool p; ABT_thread *ts; size_t n, *np; ABT_pool_context c; pool_pop_many(p, ts, n, np, c); VF_REACH("pop_many returns"); VF_COVER(vf_live_pops >= 2 && vf_k == 1, "several"); VF_COVER(vf_saw_empty, "empty flag"); }
