/* C07: pool/randws.c -- every entry point: lockset discipline, which end of the
 * queue, exactly-once, "pop returns nothing only if the pool was seen empty". */
#include "vf.h"
#include "abti.h"
#include "env/spinlock.h"
#include "thread_queue.h"
#include "contracts/thread_queue_thin.h"
#include "pool/randws.c"
#include "harness/c07/pool_common.h"
#define PUSH_KIND(c) (((c) & POOL_CONTEXT_PUSH_HEAD) ? VF_OP_PUSH_HEAD : VF_OP_PUSH_TAIL)
#define POP_KIND(c) (((c) & POOL_CONTEXT_POP_TAIL) ? VF_OP_POP_TAIL : VF_OP_POP_HEAD)
#define POOL_GET_DEF ABTI_pool_get_randws_def
#include "harness/c07/pool_units.h"
