/* C18 / C01: pool/pool.c ABT_pool_add_sched -- a scheduler is put into a pool as
 * a work unit.  The scheduler's "used" mark is the ownership record: NOT_USED
 * -> IN_POOL for the duration of its life in the pool; a failed call (its ULT
 * cannot be created: ABTI_ythread_create_sched, unit create_internal /
 * ythread_create) rolls the mark back so that the caller can retry or free the
 * scheduler; a scheduler that is already in use is refused untouched. */
#include "vf.h"
#include "abti.h"
static unsigned n_cs; static const void *cs_pool, *cs_sched; static int cs_fail, cs_used_seen;
int ABTI_ythread_create_sched(ABTI_global *g, ABTI_local *l, ABTI_pool *p, ABTI_sched *s) { n_cs++; cs_pool = p; cs_sched = s; cs_used_seen = s->used; return cs_fail ? ABT_ERR_MEM : ABT_SUCCESS; }
#include <pool/pool.c>
ABTI_global *gp_ABTI_global; static ABTI_global glob; static ABTI_pool pool; static ABTI_sched sc;
void h_pool_add_sched(void)
{
    gp_ABTI_global = &glob; n_cs = 0; { int f; cs_fail = !!f; } { ABTI_sched nd; sc = nd; }
    VF_ASSUME(sc.used == ABTI_SCHED_NOT_USED || sc.used == ABTI_SCHED_MAIN || sc.used == ABTI_SCHED_IN_POOL); ABTI_sched before = sc;
    int np, ns; int r = ABT_pool_add_sched(np ? ABT_POOL_NULL : (ABT_pool)&pool, ns ? ABT_SCHED_NULL : (ABT_sched)&sc);
    if (np || ns || before.used != ABTI_SCHED_NOT_USED) {
        VF_ASSERT(r == (np ? ABT_ERR_INV_POOL : ns ? ABT_ERR_INV_SCHED : ABT_ERR_INV_SCHED) && n_cs == 0 && sc.used == before.used && sc.p_ythread == before.p_ythread, "NULL handles or a scheduler already in use (a main scheduler, or already in a pool): refused, the scheduler untouched");
        VF_REACH("refused"); return;
    }
    VF_ASSERT(n_cs == 1 && cs_pool == &pool && cs_sched == &sc && cs_used_seen == ABTI_SCHED_IN_POOL, "its ULT is created once, for this pool, with the scheduler already marked IN_POOL (the new ULT may run at once)");
    if (cs_fail) VF_ASSERT(r == ABT_ERR_MEM && sc.used == ABTI_SCHED_NOT_USED, "failure: the mark is rolled back -- the scheduler is the caller's again (retry or free)");
    else VF_ASSERT(r == ABT_SUCCESS && sc.used == ABTI_SCHED_IN_POOL, "success: the scheduler lives in the pool");
    VF_ASSERT(sc.pools == before.pools && sc.num_pools == before.num_pools && sc.data == before.data && sc.automatic == before.automatic, "nothing else of the scheduler changes");
    VF_REACH("add_sched"); VF_COVER(cs_fail, "failed"); VF_COVER(!cs_fail, "ok");
}
