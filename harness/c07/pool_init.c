/* C07 / C18: pool_init / pool_free / pool_is_empty / pool_get_size of the
 * built-in FIFO and RANDWS pools (file chosen by -DVF_POOL_SRC): a freshly
 * initialised pool IS the empty queue with a free lock -- the initial state
 * every queue contract (TQ_INV) and the lock invariant start from -- and a
 * failed allocation leaves the pool descriptor untouched.  Real file and the
 * real thread_queue.h / spinlock bodies; CBMC's malloc returns arbitrary
 * contents and fails nondeterministically (--malloc-may-fail);
 * --memory-leak-check accounts for the data block. */
#include "vf.h"
#include "abti.h"
#include VF_POOL_SRC
void h_pool_init(void)
{
    static ABTI_pool pool; { int a; VF_ASSUME(a == ABT_POOL_ACCESS_PRIV || a == ABT_POOL_ACCESS_SPSC || a == ABT_POOL_ACCESS_MPSC || a == ABT_POOL_ACCESS_SPMC || a == ABT_POOL_ACCESS_MPMC); pool.access = (ABT_pool_access)a; }
    void *data0 = (void *)0x30; pool.data = data0;
    int r = pool_init((ABT_pool)&pool, ABT_POOL_CONFIG_NULL);
    if (r != ABT_SUCCESS) {
        VF_ASSERT(r == ABT_ERR_MEM && pool.data == data0, "failure: ABT_ERR_MEM, the descriptor's data pointer untouched (pool_create frees the descriptor without calling pool_free)");
        VF_REACH("init failed"); return;
    }
    data_t *d = (data_t *)pool.data;
    VF_ASSERT(d != NULL && d->queue.num_threads == 0 && d->queue.p_head == NULL && d->queue.p_tail == NULL && d->queue.is_empty.val == 1, "a fresh pool is the empty queue: no unit, both ends NULL, emptiness flag set");
    VF_ASSERT(pool.access == ABT_POOL_ACCESS_PRIV || d->mutex.val.val == 0, "the lock of a shared pool starts free (malloc does not zero memory)");
    VF_ASSERT(pool_is_empty((ABT_pool)&pool) == ABT_TRUE && pool_get_size((ABT_pool)&pool) == 0, "and reports so");
    pool_free((ABT_pool)&pool);
    VF_REACH("init ok, freed");
}
