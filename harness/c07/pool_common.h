/* Shared contract text for the entry points of the built-in pools (fifo.c,
 * randws.c): lockset discipline + which queue operation is applied to which
 * node.  PD(pool) is the pool's data_t, of which .queue and .mutex are used. */
#define PD(pool) ((data_t *)((ABTI_pool *)(pool))->data)
#define U2T(unit) ((const void *)(((uintptr_t)(unit)) & ~((uintptr_t)ABTI_UNIT_BUILTIN_POOL_BIT)))
#define POOL_OK(pool)                                                          \
    __CPROVER_requires(__CPROVER_is_fresh(pool, sizeof(ABTI_pool)) &&          \
                       __CPROVER_is_fresh(((ABTI_pool *)(pool))->data, sizeof(data_t))) \
    __CPROVER_requires(vf_lock_held == 0 && vf_ops < 1000 && vf_clock < 1000 && vf_acquires < 1000 && vf_releases < 1000 && vf_live_pops < 1000)
#define GHOST_ASSIGNS                                                          \
    __CPROVER_assigns(vf_lock_held, vf_lock_which, vf_acquires, vf_releases, vf_clock, vf_t_acquire, vf_t_release, \
                      vf_ops, vf_last_kind, vf_last_q, vf_last_thread, vf_kth_thread, vf_kth_kind, vf_t_lastop, \
                      vf_pop_ret, vf_remove_ret, vf_saw_empty, vf_live_pops)
/* exactly one queue operation KIND on this pool's queue with node NODE */
#define ONE_OP(KIND, NODE)                                                     \
    __CPROVER_ensures(vf_ops == __CPROVER_old(vf_ops) + 1 && vf_last_kind == KIND && \
                      vf_last_q == &PD(pool)->queue && vf_last_thread == (NODE))
/* shared variant: the operation happens strictly inside one acquire/release
 * pair of this pool's lock; lock not held on return */
#define LOCKED_ONCE                                                            \
    __CPROVER_ensures(vf_lock_held == 0 && vf_lock_which == &PD(pool)->mutex && \
                      vf_acquires == __CPROVER_old(vf_acquires) + 1 &&         \
                      vf_releases == __CPROVER_old(vf_releases) + 1 &&         \
                      vf_t_acquire < vf_t_lastop && vf_t_lastop < vf_t_release)
#define NO_LOCK                                                                \
    __CPROVER_ensures(vf_lock_held == 0 && vf_acquires == __CPROVER_old(vf_acquires) && \
                      vf_releases == __CPROVER_old(vf_releases))
