/* C07 (lifting lemma, A8): the CONTRACT of thread_queue_pop_head / push_tail
 * (contracts/thread_queue.h, enforced on the real code by the queue_* units) is
 * used here in place of the body (--replace-call-with-contract) on a window of
 * a ring of symbolic length n >= 3: positions 0 (head H), 1 (N), n-1 (tail T)
 * and an arbitrary position k (X) with its neighbours.  The lemma: the abstract
 * sequence S of node addresses changes exactly as the property says --
 * pop_head: S -> S[1..], returning S[0]; push_tail: S -> S ++ [t] -- stated
 * pointwise for the arbitrary position k (its successor and predecessor after
 * the call), which is what "FIFO order" and "each pushed unit is popped exactly
 * once" rest on.  No real body is involved: hypotheses are the contract text. */
#include "vf.h"
#include "abti.h"
int vf_rm_case; size_t vf_n0;
#include "thread_queue.h"
#include "contracts/thread_queue.h"
static inline ABTI_thread *thread_queue_pop_head(thread_queue_t *p_queue) TQ_POP_HEAD_CONTRACT;
static inline void thread_queue_push_tail(thread_queue_t *p_queue, ABTI_thread *p_thread) TQ_PUSH_TAIL_CONTRACT;
static inline void thread_queue_push_head(thread_queue_t *p_queue, ABTI_thread *p_thread) TQ_PUSH_HEAD_CONTRACT;
static inline ABTI_thread *thread_queue_pop_tail(thread_queue_t *p_queue) TQ_POP_TAIL_CONTRACT;
static inline int thread_queue_remove(thread_queue_t *p_queue, ABTI_thread *p_thread) TQ_REMOVE_CONTRACT;

static thread_queue_t q; static ABTI_thread H, N, T, T2, X, Xp, Xn, NEWT, far1, far2;
static size_t n, k;
/* node at ring position i (positions outside the window are "far" nodes nobody looks at) */
static ABTI_thread *at(size_t i)
{
    if (i == 0) return &H; if (i == 1) return &N; if (i == n - 1) return &T; if (i == n - 2) return &T2;
    if (i == k) return &X; if (i + 1 == k) return &Xp; if (i == k + 1) return &Xn;
    return (i & 1) ? &far1 : &far2;
}
static void build(void)
{
    { size_t a, b; n = a; k = b; } VF_ASSUME(n >= 3 && n < SIZE_MAX - 1 && k >= 1 && k <= n - 1);
    q.num_threads = n; q.p_head = &H; q.p_tail = &T; q.is_empty.val = 0; vf_n0 = n;
    /* links of the represented positions */
    size_t pos[7] = { 0, 1, n - 1, n - 2, k, k - 1, k + 1 };
    for (int j = 0; j < 7; j++) { size_t i = pos[j]; if (i >= n) continue; ABTI_thread *t = at(i); t->p_next = at(i + 1 == n ? 0 : i + 1); t->p_prev = at(i == 0 ? n - 1 : i - 1); /* (no division by the symbolic n) */ t->is_in_pool.val = 1; }
}
void h_lemma_pop_head(void)
{
    build(); ABTI_thread *xk = at(k), *succ0 = at(k + 1 == n ? 0 : k + 1), *pred0 = at(k - 1); void (*f0)(void *) = xk->f_thread; void *a0 = xk->p_arg;
    ABTI_thread *r = thread_queue_pop_head(&q);
    VF_ASSERT(r == &H && q.num_threads == n - 1 && q.p_head == &N && q.p_tail == &T, "pop_head returns S[0]; the sequence is S[1..]: new head S[1], same tail, one shorter");
    /* the arbitrary element S[k] (k >= 1) is now at position k-1 with the same neighbours, except that the ring closes over the new head */
    VF_ASSERT(xk->p_next == (k == n - 1 ? &N : succ0), "S[k] keeps its successor (the tail's successor is the new head)");
    VF_ASSERT(xk->p_prev == (k == 1 ? &T : pred0), "S[k] keeps its predecessor (the new head's predecessor is the tail)");
    VF_ASSERT(xk->is_in_pool.val == 1 && xk->f_thread == f0 && xk->p_arg == a0, "S[k] stays queued with its payload intact");
    VF_ASSERT(H.p_next == NULL && H.p_prev == NULL && H.is_in_pool.val == 0, "the popped unit is fully unlinked");
    VF_REACH("lemma pop_head"); VF_COVER(k == 1, "k is the new head"); VF_COVER(k == n - 1 && n > 5, "k is the tail"); VF_COVER(k > 2 && k < n - 2, "interior");
}
void h_lemma_push_tail(void)
{
    build(); NEWT.is_in_pool.val = 0; ABTI_thread *xk = at(k), *succ0 = at(k + 1 == n ? 0 : k + 1), *pred0 = at(k - 1);
    thread_queue_push_tail(&q, &NEWT);
    VF_ASSERT(q.num_threads == n + 1 && q.p_head == &H && q.p_tail == &NEWT && NEWT.p_prev == &T && NEWT.p_next == &H && NEWT.is_in_pool.val == 1, "push_tail: the sequence is S ++ [t]: same head, t behind the old tail, ring closed through t");
    VF_ASSERT(xk->p_next == (k == n - 1 ? &NEWT : succ0) && xk->p_prev == pred0 && xk->is_in_pool.val == 1, "every S[k] keeps its position: same neighbours (the old tail's successor is t)");
    VF_ASSERT(H.p_prev == &NEWT, "the head's back link closes the ring over t");
    VF_REACH("lemma push_tail"); VF_COVER(k == n - 1, "k is the old tail"); VF_COVER(k == 1, "k next to the head");
}

void h_lemma_push_head(void)
{
    build(); NEWT.is_in_pool.val = 0; ABTI_thread *xk = at(k), *succ0 = at(k + 1 == n ? 0 : k + 1), *pred0 = at(k - 1);
    thread_queue_push_head(&q, &NEWT);
    VF_ASSERT(q.num_threads == n + 1 && q.p_head == &NEWT && q.p_tail == &T && NEWT.p_next == &H && NEWT.p_prev == &T && NEWT.is_in_pool.val == 1 && H.p_prev == &NEWT && T.p_next == &NEWT, "push_head: the sequence is [t] ++ S: t in front of the old head, same tail, ring closed through t in BOTH directions");
    VF_ASSERT(xk->p_next == (k == n - 1 ? &NEWT : succ0) && xk->p_prev == pred0 && xk->is_in_pool.val == 1, "every S[k], k >= 1, keeps its neighbours (the tail's successor is t)");
    VF_REACH("lemma push_head"); VF_COVER(k == n - 1, "k is the tail"); VF_COVER(k == 1, "k next to the old head");
}
void h_lemma_pop_tail(void)
{
    build(); VF_ASSUME(k <= n - 2); /* an element that stays */ ABTI_thread *xk = at(k), *succ0 = at(k + 1), *pred0 = at(k - 1);
    ABTI_thread *r = thread_queue_pop_tail(&q);
    VF_ASSERT(r == &T && q.num_threads == n - 1 && q.p_head == &H && q.p_tail == at(n - 2), "pop_tail returns S[n-1]; the sequence is S[..n-2]: same head, new tail S[n-2]");
    VF_ASSERT(xk->p_next == (k == n - 2 ? &H : succ0) && xk->p_prev == pred0 && xk->is_in_pool.val == 1, "every remaining S[k] keeps its neighbours (the new tail's successor is the head)");
    VF_ASSERT(H.p_prev == at(n - 2), "the head's back link names the new tail");
    VF_ASSERT(T.p_next == NULL && T.p_prev == NULL && T.is_in_pool.val == 0, "the popped unit is fully unlinked");
    VF_REACH("lemma pop_tail"); VF_COVER(k == n - 2 && n > 4, "k is the new tail"); VF_COVER(k == 1 && n > 4, "k next to the head");
}
/* remove(S[k]) for an arbitrary position k (0 <= k <= n-1) of a ring of symbolic length n >= 3: S without position k */
void h_lemma_remove(void)
{
    { size_t a, b; n = a; k = b; } VF_ASSUME(n >= 3 && n < SIZE_MAX - 1 && k <= n - 1);
    q.num_threads = n; q.p_head = &H; q.p_tail = &T; q.is_empty.val = 0;
    size_t pos[7] = { 0, 1, n - 1, n - 2, k, k == 0 ? n - 1 : k - 1, k + 1 == n ? 0 : k + 1 };
    for (int j = 0; j < 7; j++) { size_t i = pos[j]; ABTI_thread *t = at(i); t->p_next = at(i + 1 == n ? 0 : i + 1); t->p_prev = at(i == 0 ? n - 1 : i - 1); t->is_in_pool.val = 1; }
    ABTI_thread *xk = at(k), *succ0 = at(k + 1 == n ? 0 : k + 1), *pred0 = at(k == 0 ? n - 1 : k - 1);
    vf_rm_case = (k == 0) ? 3 : (k == n - 1) ? 4 : (n == 3) ? 5 : (k == 1) ? 6 : (k == n - 2) ? 7 : 8;
    int r = thread_queue_remove(&q, xk);
    VF_ASSERT(r == ABT_SUCCESS && q.num_threads == n - 1, "a queued unit is removed; one shorter");
    VF_ASSERT(pred0->p_next == succ0 && succ0->p_prev == pred0, "its neighbours are linked to each other: the sequence is S without position k, order of the others kept");
    VF_ASSERT(q.p_head == (k == 0 ? succ0 : &H) && q.p_tail == (k == n - 1 ? pred0 : &T), "head / tail move iff the removed unit was head / tail");
    VF_ASSERT(xk->p_next == NULL && xk->p_prev == NULL && xk->is_in_pool.val == 0, "the removed unit is fully unlinked");
    VF_REACH("lemma remove"); VF_COVER(vf_rm_case == 8, "interior"); VF_COVER(vf_rm_case == 3, "head"); VF_COVER(vf_rm_case == 4, "tail"); VF_COVER(vf_rm_case == 5, "middle of three"); VF_COVER(vf_rm_case == 6, "second"); VF_COVER(vf_rm_case == 7, "second to last");
}
