/* C07: pool/thread_queue.h -- every queue operation against its contract */
#include "vf.h"
#include "abti.h"
int vf_rm_case; /* ghost: shape selector of thread_queue_remove */
size_t vf_n0;   /* ghost copy of the length on entry (for the covers) */
#include "thread_queue.h" /* the real /repo/src/pool/thread_queue.h */
#include "contracts/thread_queue.h"

static inline void thread_queue_push_tail(thread_queue_t *p_queue, ABTI_thread *p_thread) TQ_PUSH_TAIL_CONTRACT;
static inline void thread_queue_push_head(thread_queue_t *p_queue, ABTI_thread *p_thread) TQ_PUSH_HEAD_CONTRACT;
static inline ABTI_thread *thread_queue_pop_head(thread_queue_t *p_queue) TQ_POP_HEAD_CONTRACT;
static inline ABTI_thread *thread_queue_pop_tail(thread_queue_t *p_queue) TQ_POP_TAIL_CONTRACT;
static inline int thread_queue_remove(thread_queue_t *p_queue, ABTI_thread *p_thread) TQ_REMOVE_CONTRACT;

static inline void thread_queue_init(thread_queue_t *p_queue)
__CPROVER_requires(__CPROVER_is_fresh(p_queue, sizeof(thread_queue_t)))
__CPROVER_assigns(p_queue->num_threads, p_queue->p_head, p_queue->p_tail, p_queue->is_empty.val)
__CPROVER_ensures(TQ_EMPTY(p_queue));

static inline ABT_bool thread_queue_is_empty(const thread_queue_t *p_queue)
__CPROVER_requires(__CPROVER_is_fresh(p_queue, sizeof(thread_queue_t)))
__CPROVER_assigns()
__CPROVER_ensures(__CPROVER_return_value == (p_queue->is_empty.val ? ABT_TRUE : ABT_FALSE));

static inline size_t thread_queue_get_size(const thread_queue_t *p_queue)
__CPROVER_requires(__CPROVER_is_fresh(p_queue, sizeof(thread_queue_t)))
__CPROVER_assigns()
__CPROVER_ensures(__CPROVER_return_value == p_queue->num_threads);

#define NCOV VF_COVER(vf_n0 == 0, "n=0"); VF_COVER(vf_n0 == 1, "n=1"); VF_COVER(vf_n0 == 2, "n=2"); VF_COVER(vf_n0 == 3, "n=3"); VF_COVER(vf_n0 > 1000, "n large")
void h_push_tail(void) { thread_queue_t *q; ABTI_thread *t; thread_queue_push_tail(q, t); VF_REACH("push_tail returns"); NCOV; }
void h_push_head(void) { thread_queue_t *q; ABTI_thread *t; thread_queue_push_head(q, t); VF_REACH("push_head returns"); NCOV; }
void h_pop_head(void) { thread_queue_t *q; ABTI_thread *r = thread_queue_pop_head(q); VF_REACH("pop_head returns"); NCOV; VF_COVER(r == NULL, "empty"); VF_COVER(r != NULL, "non-empty"); }
void h_pop_tail(void) { thread_queue_t *q; ABTI_thread *r = thread_queue_pop_tail(q); VF_REACH("pop_tail returns"); NCOV; VF_COVER(r == NULL, "empty"); VF_COVER(r != NULL, "non-empty"); }
void h_remove(void)
{
    thread_queue_t *q; ABTI_thread *t;
    int r = thread_queue_remove(q, t);
    VF_REACH("remove returns");
    VF_COVER(vf_rm_case == 0, "case 0"); VF_COVER(vf_rm_case == 1, "case 1"); VF_COVER(vf_rm_case == 2, "case 2");
    VF_COVER(vf_rm_case == 3, "case 3"); VF_COVER(vf_rm_case == 4, "case 4"); VF_COVER(vf_rm_case == 5, "case 5");
    VF_COVER(vf_rm_case == 6, "case 6"); VF_COVER(vf_rm_case == 7, "case 7"); VF_COVER(vf_rm_case == 8, "case 8");
}
void h_init(void) { thread_queue_t *q; thread_queue_init(q); VF_REACH("init returns"); }
void h_is_empty(void) { thread_queue_t *q; ABT_bool b = thread_queue_is_empty(q); VF_REACH("is_empty returns"); VF_COVER(b == ABT_TRUE, "true"); VF_COVER(b == ABT_FALSE, "false"); }
void h_get_size(void) { thread_queue_t *q; size_t n = thread_queue_get_size(q); VF_REACH("get_size returns"); VF_COVER(n > 7, "big"); }
