/* C07/C14: src/pool/pool.c -- the public pool API on top of the dispatch layer
 * (abti_pool.h, unit abti_pool_dispatch): pops hand out exactly what the pool
 * returned (the work unit, or the unit that stands for it), never drop it;
 * pushes push exactly once; optional operations that the pool does not
 * implement are refused with nothing done; size queries add the blocked units.
 * Pool callbacks are logging stubs (A6). */
#include "vf.h"
#include "abti.h"
static unsigned n_push, n_pop, n_popw, n_poptw, n_rm, n_popm, n_empty, n_size; static ABT_pool a_pool; static ABT_unit a_unit; static ABT_pool_context a_ctx; static double a_time;
static ABT_thread r_thread; static ABT_unit r_unit; static int r_int; static ABT_bool r_bool; static size_t r_size, r_num; static ABT_thread *a_arr; static size_t a_len;
static void f_push(ABT_pool p, ABT_unit u, ABT_pool_context c) { n_push++; a_pool = p; a_unit = u; a_ctx = c; }
static ABT_thread f_pop(ABT_pool p, ABT_pool_context c) { n_pop++; a_pool = p; a_ctx = c; return r_thread; }
static ABT_thread f_pop_wait(ABT_pool p, double t, ABT_pool_context c) { n_popw++; a_pool = p; a_time = t; a_ctx = c; return r_thread; }
static ABT_unit f_pop_timedwait(ABT_pool p, double t) { n_poptw++; a_pool = p; a_time = t; return r_unit; }
static int f_remove(ABT_pool p, ABT_unit u) { n_rm++; a_pool = p; a_unit = u; return r_int; }
static void f_pop_many(ABT_pool p, ABT_thread *th, size_t len, size_t *num, ABT_pool_context c) { n_popm++; a_pool = p; a_arr = th; a_len = len; a_ctx = c; *num = r_num; }
static ABT_bool f_is_empty(ABT_pool p) { n_empty++; a_pool = p; return r_bool; }
static size_t f_get_size(ABT_pool p) { n_size++; a_pool = p; return r_size; }
#include <pool/pool.c>
ABTI_global *gp_ABTI_global; static ABTI_global glob; static ABTI_pool pool, src; static ABTI_thread th;
static int has_popw, has_poptw, has_rm, has_popm, has_size;
static void setup(void)
{
    gp_ABTI_global = &glob; { ABTI_pool np; pool = np; ABTI_thread nt; th = nt; }
    pool.required_def.p_push = f_push; pool.required_def.p_pop = f_pop; pool.required_def.p_is_empty = f_is_empty;
    { int a, b, c, d, e; has_popw = !!a; has_poptw = !!b; has_rm = !!c; has_popm = !!d; has_size = !!e; }
    pool.optional_def.p_pop_wait = has_popw ? f_pop_wait : NULL; pool.deprecated_def.p_pop_timedwait = has_poptw ? f_pop_timedwait : NULL; pool.deprecated_def.p_remove = has_rm ? f_remove : NULL;
    pool.optional_def.p_pop_many = has_popm ? f_pop_many : NULL; pool.optional_def.p_get_size = has_size ? f_get_size : NULL;
    n_push = n_pop = n_popw = n_poptw = n_rm = n_popm = n_empty = n_size = 0;
    { int some; r_thread = some ? (ABT_thread)&th : ABT_THREAD_NULL; int i; r_int = i; ABT_bool b; r_bool = b; size_t s; r_size = s; size_t m; r_num = m; }
    th.unit = (ABT_unit)(((uintptr_t)&th) | ABTI_UNIT_BUILTIN_POOL_BIT); /* a built-in unit: the unit <-> work unit translation is the tag bit (C14 assoc_tagbit) */
    r_unit = (r_thread == ABT_THREAD_NULL) ? ABT_UNIT_NULL : th.unit;
    VF_ASSUME(pool.num_blocked.val >= 0 && pool.num_blocked.val < 1000000 && r_size < 1000000);
}
#define CALLS (n_push + n_pop + n_popw + n_poptw + n_rm + n_popm + n_empty + n_size)
void h_pool_pop_api(void)
{
    setup(); ABT_pool h = (ABT_pool)&pool; int op; VF_ASSUME(0 <= op && op <= 8); ABT_unit u = (ABT_unit)0x55; ABT_thread t = (ABT_thread)0x55; double tm; ABT_pool_context cx;
    int r;
    switch (op) {
    case 0: r = ABT_pool_pop(h, &u); VF_ASSERT(r == ABT_SUCCESS && n_pop == 1 && CALLS == 1 && a_pool == h && a_ctx == ABT_POOL_CONTEXT_OP_POOL_OTHER && u == r_unit, "ABT_pool_pop: one pop; the unit of the popped work unit (or ABT_UNIT_NULL when the pool gave nothing)"); break;
    case 1: r = ABT_pool_pop_wait(h, &u, tm);
        if (has_popw) VF_ASSERT(r == ABT_SUCCESS && n_popw == 1 && CALLS == 1 && a_pool == h && u == r_unit, "ABT_pool_pop_wait: one blocking pop; its unit handed out");
        else VF_ASSERT(r == ABT_ERR_POOL && CALLS == 0, "pool without pop_wait: refused, nothing popped"); break;
    case 2: r = ABT_pool_pop_timedwait(h, &u, tm);
        if (has_poptw) VF_ASSERT(r == ABT_SUCCESS && n_poptw == 1 && CALLS == 1 && a_pool == h && u == r_unit, "ABT_pool_pop_timedwait: one timed pop; its unit handed out");
        else VF_ASSERT(r == ABT_ERR_POOL && CALLS == 0, "pool without pop_timedwait: refused, nothing popped"); break;
    case 3: r = ABT_pool_pop_thread(h, &t); VF_ASSERT(r == ABT_SUCCESS && n_pop == 1 && CALLS == 1 && a_ctx == ABT_POOL_CONTEXT_OP_POOL_OTHER && t == r_thread, "ABT_pool_pop_thread: the popped work unit itself"); break;
    case 4: r = ABT_pool_pop_thread_ex(h, &t, cx); VF_ASSERT(r == ABT_SUCCESS && n_pop == 1 && CALLS == 1 && a_ctx == cx && t == r_thread, "ABT_pool_pop_thread_ex: the caller's context flag is passed on"); break;
    case 5: r = ABT_pool_pop_wait_thread(h, &t, tm);
        if (has_popw) VF_ASSERT(r == ABT_SUCCESS && n_popw == 1 && CALLS == 1 && t == r_thread, "ABT_pool_pop_wait_thread"); else VF_ASSERT(r == ABT_ERR_POOL && CALLS == 0, "refused without pop_wait"); break;
    case 6: { ABT_thread arr[2]; size_t num = 99, len; VF_ASSUME(len <= 2); r = ABT_pool_pop_threads(h, arr, len, &num);
        if (!has_popm) VF_ASSERT(r == ABT_ERR_POOL && CALLS == 0, "refused without pop_many");
        else if (len == 0) VF_ASSERT(r == ABT_SUCCESS && CALLS == 0, "zero-length request: no pop");
        else VF_ASSERT(r == ABT_SUCCESS && n_popm == 1 && CALLS == 1 && a_arr == arr && a_len == len && num == r_num && a_ctx == ABT_POOL_CONTEXT_OP_POOL_OTHER, "ABT_pool_pop_threads: forwarded once with the caller's buffer; the count the pool reported"); break; }
    case 7: r = ABT_pool_remove(h, u);
        if (has_rm) VF_ASSERT(n_rm == 1 && CALLS == 1 && a_unit == u && r == (r_int == ABT_SUCCESS ? ABT_SUCCESS : r_int), "ABT_pool_remove: one removal of this unit; the pool's verdict is the result");
        else VF_ASSERT(r == ABT_ERR_POOL && CALLS == 0, "refused without remove"); break;
    default: { ABT_bool e = 7; size_t s1 = 7, s2 = 7; r = ABT_pool_is_empty(h, &e); VF_ASSERT(r == ABT_SUCCESS && e == r_bool && n_empty == 1, "ABT_pool_is_empty");
        int r1 = ABT_pool_get_size(h, &s1), r2 = ABT_pool_get_total_size(h, &s2);
        if (has_size) VF_ASSERT(r1 == ABT_SUCCESS && r2 == ABT_SUCCESS && s1 == r_size && s2 == r_size + (size_t)pool.num_blocked.val, "size = queued units; total size = queued + blocked units owed to the pool");
        else VF_ASSERT(r1 == ABT_ERR_POOL && r2 == ABT_ERR_POOL && s1 == 7 && s2 == 7, "refused without get_size"); break; }
    }
    VF_ASSERT(n_push == 0, "no pop-side call pushes");
    VF_ASSERT(ABT_pool_pop(ABT_POOL_NULL, &u) == ABT_ERR_INV_POOL && ABT_pool_pop_thread(ABT_POOL_NULL, &t) == ABT_ERR_INV_POOL && ABT_pool_remove(ABT_POOL_NULL, u) == ABT_ERR_INV_POOL, "NULL pool handle rejected");
    VF_REACH("pool pop api"); VF_COVER(op == 0 && r_thread != ABT_THREAD_NULL, "popped a unit"); VF_COVER(op == 2 && has_poptw, "timed pop"); VF_COVER(op == 6 && has_popm && a_len == 2, "pop many");
}
