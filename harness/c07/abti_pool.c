/* C07/C01/C06/C11: abti_pool.h -- the dispatch layer between the runtime and a
 * pool implementation.  Every unit that reasons about "one push", "one pop",
 * "blocked count +1/-1" through a thin contract of ABTI_pool_* relies on these
 * functions doing exactly that: forward the call once, with the same unit /
 * context / handle, return what the pool returned, and change only the counter
 * they are named after.  Here the REAL inline bodies are checked against
 * logging pool callbacks (A6). */
#include "vf.h"
#include "abti.h"
static unsigned n_push, n_pop, n_popw, n_rm, n_popm, n_pushm, n_empty, n_size, vf_clock, t_push, t_state;
static ABT_pool a_pool; static ABT_unit a_unit; static ABT_pool_context a_ctx; static double a_time; static void *a_arr; static size_t a_len; static size_t *a_num;
static ABT_thread r_thread; static int r_int; static ABT_bool r_bool; static size_t r_size;
static int st_at_push; static ABTI_thread *watch;
static void f_push(ABT_pool p, ABT_unit u, ABT_pool_context c) { n_push++; a_pool = p; a_unit = u; a_ctx = c; if (watch) st_at_push = watch->state.val; }
static ABT_thread f_pop(ABT_pool p, ABT_pool_context c) { n_pop++; a_pool = p; a_ctx = c; return r_thread; }
static ABT_thread f_pop_wait(ABT_pool p, double t, ABT_pool_context c) { n_popw++; a_pool = p; a_time = t; a_ctx = c; return r_thread; }
static int f_remove(ABT_pool p, ABT_unit u) { n_rm++; a_pool = p; a_unit = u; return r_int; }
static void f_pop_many(ABT_pool p, ABT_thread *th, size_t len, size_t *num, ABT_pool_context c) { n_popm++; a_pool = p; a_arr = th; a_len = len; a_num = num; a_ctx = c; *num = 0; }
static void f_push_many(ABT_pool p, const ABT_unit *us, size_t num, ABT_pool_context c) { n_pushm++; a_pool = p; a_arr = (void *)us; a_len = num; a_ctx = c; }
static ABT_bool f_is_empty(ABT_pool p) { n_empty++; a_pool = p; return r_bool; }
static size_t f_get_size(ABT_pool p) { n_size++; a_pool = p; return r_size; }
static ABTI_pool pool, other; static ABTI_thread th;
static void setup(void)
{
    { ABTI_pool nd1, nd2; ABTI_thread nt; pool = nd1; other = nd2; th = nt; } /* symbolic contents */
    pool.required_def.p_push = f_push; pool.required_def.p_pop = f_pop; pool.required_def.p_is_empty = f_is_empty;
    pool.optional_def.p_pop_wait = f_pop_wait; pool.optional_def.p_pop_many = f_pop_many; pool.optional_def.p_push_many = f_push_many; pool.optional_def.p_get_size = f_get_size;
    pool.deprecated_def.p_remove = f_remove;
    n_push = n_pop = n_popw = n_rm = n_popm = n_pushm = n_empty = n_size = 0; watch = NULL;
    { ABT_thread t; r_thread = t; int i; r_int = i; ABT_bool b; r_bool = b; size_t s; r_size = s; }
    VF_ASSUME(pool.num_blocked.val > -1000000 && pool.num_blocked.val < 1000000 && pool.num_scheds.val > 0 && pool.num_scheds.val < 1000000); /* A9 */
}
#define NOCALLS_EXCEPT(which) (n_push + n_pop + n_popw + n_rm + n_popm + n_pushm + n_empty + n_size == (which))
void h_pool_dispatch(void)
{
    setup();
    int32_t b0 = pool.num_blocked.val, s0 = pool.num_scheds.val, ob0 = other.num_blocked.val, os0 = other.num_scheds.val;
    ABT_unit u; ABT_pool_context c; double t; int op; VF_ASSUME(0 <= op && op <= 13);
    ABT_thread arr[2]; ABT_unit us[2]; size_t num = 7;
    switch (op) {
    case 0: ABTI_pool_inc_num_blocked(&pool); VF_ASSERT(pool.num_blocked.val == b0 + 1 && pool.num_scheds.val == s0 && NOCALLS_EXCEPT(0), "inc_num_blocked: exactly +1 on this pool's blocked count, nothing else"); break;
    case 1: ABTI_pool_dec_num_blocked(&pool); VF_ASSERT(pool.num_blocked.val == b0 - 1 && pool.num_scheds.val == s0 && NOCALLS_EXCEPT(0), "dec_num_blocked: exactly -1"); break;
    case 2: ABTI_pool_push(&pool, u, c); VF_ASSERT(n_push == 1 && NOCALLS_EXCEPT(1) && a_pool == (ABT_pool)&pool && a_unit == u && a_ctx == c, "push: the pool's push is called exactly once with this pool, this unit, this context"); break;
    case 3: { th.p_pool = &pool; ABT_unit u0 = th.unit; watch = &th; ABTI_pool_add_thread(&th, c);
        VF_ASSERT(n_push == 1 && NOCALLS_EXCEPT(1) && a_pool == (ABT_pool)&pool && a_unit == u0 && a_ctx == c, "add_thread: exactly one push of the work unit's own unit into its own pool");
        VF_ASSERT(st_at_push == ABT_THREAD_STATE_READY && th.state.val == ABT_THREAD_STATE_READY, "add_thread: READY is stored BEFORE the unit becomes visible in the pool"); break; }
    case 4: { ABT_thread r = ABTI_pool_pop(&pool, c); VF_ASSERT(n_pop == 1 && NOCALLS_EXCEPT(1) && a_pool == (ABT_pool)&pool && a_ctx == c && r == r_thread, "pop: one pop of this pool; what it returned is returned unchanged (never dropped, never replaced)"); break; }
    case 5: { ABT_thread r = ABTI_pool_pop_wait(&pool, t, c); VF_ASSERT(n_popw == 1 && NOCALLS_EXCEPT(1) && a_pool == (ABT_pool)&pool && a_ctx == c && r == r_thread, "pop_wait: one call, result returned unchanged"); break; }
    case 6: { int r = ABTI_pool_remove(&pool, u); VF_ASSERT(n_rm == 1 && NOCALLS_EXCEPT(1) && a_pool == (ABT_pool)&pool && a_unit == u && r == r_int, "remove: one call with this unit; its verdict returned"); break; }
    case 7: ABTI_pool_pop_many(&pool, arr, 2, &num, c); VF_ASSERT(n_popm == 1 && NOCALLS_EXCEPT(1) && a_pool == (ABT_pool)&pool && a_arr == arr && a_len == 2 && a_num == &num && a_ctx == c, "pop_many forwarded once with the caller's buffers"); break;
    case 8: ABTI_pool_push_many(&pool, us, 2, c); VF_ASSERT(n_pushm == 1 && NOCALLS_EXCEPT(1) && a_pool == (ABT_pool)&pool && a_arr == us && a_len == 2 && a_ctx == c, "push_many forwarded once with the caller's units"); break;
    case 9: ABTI_pool_retain(&pool); VF_ASSERT(pool.num_scheds.val == s0 + 1 && pool.num_blocked.val == b0 && NOCALLS_EXCEPT(0), "retain: scheduler count +1"); break;
    case 10: { int32_t r = ABTI_pool_release(&pool); VF_ASSERT(pool.num_scheds.val == s0 - 1 && r == s0 - 1 && pool.num_blocked.val == b0 && NOCALLS_EXCEPT(0), "release: scheduler count -1, returns the new count"); break; }
    case 11: { ABT_bool r = ABTI_pool_is_empty(&pool); VF_ASSERT(n_empty == 1 && NOCALLS_EXCEPT(1) && r == r_bool && a_pool == (ABT_pool)&pool, "is_empty forwarded"); break; }
    case 12: { size_t r = ABTI_pool_get_size(&pool); VF_ASSERT(n_size == 1 && NOCALLS_EXCEPT(1) && r == r_size && a_pool == (ABT_pool)&pool, "get_size forwarded"); break; }
    default: { VF_ASSUME(b0 >= 0 && r_size < 1000000); size_t r = ABTI_pool_get_total_size(&pool); VF_ASSERT(r == r_size + (size_t)b0 && n_size == 1, "total size = queued units + units blocked and owed back to the pool"); break; }
    }
    VF_ASSERT(other.num_blocked.val == ob0 && other.num_scheds.val == os0, "no other pool is touched");
    VF_ASSERT(op == 0 || op == 1 || op == 9 || op == 10 || (pool.num_blocked.val == b0 && pool.num_scheds.val == s0), "only the counter operations change a counter");
    VF_ASSERT(ABTI_pool_get_ptr(ABTI_pool_get_handle(&pool)) == &pool && ABTI_pool_get_ptr(ABT_POOL_NULL) == NULL && ABTI_pool_get_handle(NULL) == ABT_POOL_NULL, "handle <-> pointer round trip");
    VF_REACH("pool dispatch"); VF_COVER(op == 3, "add_thread"); VF_COVER(op == 13, "total size"); VF_COVER(op == 10, "release");
}
