/* C09: futures.c -- ready exactly at the num_compartments-th set; callback
 * exactly once, with the array, BEFORE the release-store of the counter, which
 * is BEFORE the broadcast; further sets fail and change nothing. */
#include "vf.h"
#include "abti.h"
#include "env/spinlock.h"
ABTI_future *vf_fu;
/* broadcast only when the published counter says full */
#define VF_WL_BCAST_PRE (vf_fu->counter.val == vf_fu->num_compartments)
#define VF_WL_WAIT_PRE (vf_fu->counter.val < vf_fu->num_compartments)
#define VF_WL_WAIT_HAVOC vf_fu->counter.val
#define VF_WL_WAIT_POST (vf_fu->counter.val == vf_fu->num_compartments)
#include "contracts/waitlist_thin.h"

/* the publication of the counter: must be the RELEASE variant; recorded on the
 * ghost clock */
unsigned vf_t_publish, vf_publishes;
static inline void ABTD_atomic_release_store_size(ABTD_atomic_size *ptr, size_t val)
__CPROVER_requires(__CPROVER_is_fresh(ptr, sizeof(*ptr)))
/* lockset: the counter of a live future is written only under the future's lock -- ABT_future_set reads, then writes it
 * (read-modify-write made atomic by the lock only), so an unlocked writer (e.g. a reset) could be overwritten */
__CPROVER_requires(vf_lock_held == 1 && vf_lock_which == &vf_fu->lock)
__CPROVER_assigns(ptr->val, vf_clock, vf_t_publish, vf_publishes)
__CPROVER_ensures(ptr->val == val && vf_clock == __CPROVER_old(vf_clock) + 1 && vf_t_publish == vf_clock && vf_publishes == __CPROVER_old(vf_publishes) + 1);

#include <futures.c>

#define NC 4
static ABTI_future fu;
static void *arr[NC];
static unsigned vf_cb_calls, vf_t_cb;
static void **vf_cb_arg;
static size_t vf_cb_seen_counter;
static void cb(void **arg) { vf_cb_calls++; vf_clock++; vf_t_cb = vf_clock; vf_cb_arg = arg; vf_cb_seen_counter = fu.counter.val; }

static size_t f_nc; static void **f_arr; static void (*f_cb)(void **); static ABTI_waitlist f_wl;
#define FRAME_FU VF_ASSERT(fu.num_compartments == f_nc && fu.array == f_arr && fu.p_callback == f_cb && fu.waitlist.p_head == f_wl.p_head && fu.waitlist.p_tail == f_wl.p_tail && fu.waitlist.futex.val.val == f_wl.futex.val.val, "frame: number of compartments, array pointer, callback and the wait-list words are not written by this routine")
static void setup(void)
{
    size_t nc, c; int has_cb;
    VF_ASSUME(nc <= NC && c <= nc);
    fu.num_compartments = nc;
    fu.counter.val = c;
    fu.array = nc ? arr : NULL;
    fu.p_callback = has_cb ? cb : NULL;
    vf_fu = &fu; f_nc = fu.num_compartments; f_arr = fu.array; f_cb = fu.p_callback; f_wl = fu.waitlist;
    vf_lock_held = 0; vf_cb_calls = 0;
    VF_ASSUME(vf_clock < 100 && vf_acquires < 100 && vf_releases < 100 && vf_wl_bcasts < 100 && vf_wl_waits < 100 && vf_publishes < 100);
}

void h_future_set(void)
{
    setup();
    void *v;
    size_t c0 = fu.counter.val, nc = fu.num_compartments;
    void *a0[NC]; for (int i = 0; i < NC; i++) a0[i] = arr[i];
    unsigned b0 = vf_wl_bcasts, p0 = vf_publishes, a_0 = vf_acquires, r0 = vf_releases;
    int r = ABT_future_set((ABT_future)&fu, v);
    VF_ASSERT(vf_lock_held == 0 && vf_acquires == a_0 + 1 && vf_releases == r0 + 1 && vf_lock_which == &fu.lock, "one critical section on the future's lock");
    if (c0 >= nc) {
        VF_ASSERT(r == ABT_ERR_FUTURE, "set on a full (or 0-compartment) future fails");
        VF_ASSERT(fu.counter.val == c0 && vf_cb_calls == 0 && vf_wl_bcasts == b0 && vf_publishes == p0, "failed set changes nothing");
        for (int i = 0; i < NC; i++) VF_ASSERT(arr[i] == a0[i], "failed set leaves the values alone");
    } else {
        VF_ASSERT(r == ABT_SUCCESS, "set succeeds while compartments are free");
        VF_ASSERT(fu.counter.val == c0 + 1 && vf_publishes == p0 + 1, "counter published once, by a release store");
        for (int i = 0; i < NC; i++) VF_ASSERT(arr[i] == ((size_t)i == c0 ? v : a0[i]), "value stored in compartment number counter, others untouched");
        if (c0 + 1 == nc) {
            VF_ASSERT(vf_wl_bcasts == b0 + 1 && vf_wl_which == &fu.waitlist, "last set: exactly one broadcast");
            VF_ASSERT(vf_t_publish < vf_t_wl_bcast && vf_t_wl_bcast < vf_t_release, "counter published before the broadcast, inside the critical section");
            if (fu.p_callback) {
                VF_ASSERT(vf_cb_calls == 1 && vf_cb_arg == fu.array, "callback exactly once, with all set values");
                VF_ASSERT(vf_t_acquire < vf_t_cb && vf_t_cb < vf_t_publish, "callback runs before the future is published as ready");
                VF_ASSERT(vf_cb_seen_counter < nc, "while the callback runs the future does not yet test ready");
            } else {
                VF_ASSERT(vf_cb_calls == 0, "no callback registered, none called");
            }
        } else {
            VF_ASSERT(vf_cb_calls == 0 && vf_wl_bcasts == b0, "not the last set: no callback, no broadcast");
        }
    }
    FRAME_FU;
    VF_REACH("future_set returns");
    VF_COVER(r == ABT_SUCCESS && c0 + 1 == nc && nc == 3 && fu.p_callback, "last of three with callback");
    VF_COVER(r == ABT_SUCCESS && c0 + 1 < nc, "intermediate");
    VF_COVER(r == ABT_ERR_FUTURE && nc == 0, "zero compartments");
}

void h_future_wait(void)
{
    setup();
    size_t c0 = fu.counter.val;
    unsigned w0 = vf_wl_waits, r0 = vf_releases, a0 = vf_acquires;
    /* caller: an external thread, a ULT, or a tasklet (refused by the 1.x API) */
    static ABTI_xstream cxs; static ABTI_thread cth; int kind; VF_ASSUME(0 <= kind && kind <= 2);
    cxs.p_thread = &cth; cth.type = (kind == 1) ? ABTI_THREAD_TYPE_YIELDABLE : 0; lp_ABTI_local = kind == 0 ? NULL : (ABTI_local *)&cxs;
    int r = ABT_future_wait((ABT_future)&fu);
    if (kind == 2) {
        VF_ASSERT(r == ABT_ERR_FUTURE && vf_wl_waits == w0 && fu.counter.val == c0, "a tasklet may not wait: refused, nothing enqueued");
        VF_ASSERT(vf_lock_held == 0 && vf_acquires - a0 == vf_releases - r0, "... and the future's lock is NOT left held (a refused wait must not wedge every later set)");
        VF_REACH("future_wait refused"); return;
    }
    VF_ASSERT(r == ABT_SUCCESS && vf_lock_held == 0 && vf_releases == r0 + 1, "lock released exactly once");
    VF_ASSERT(vf_wl_waits == w0 + (c0 < fu.num_compartments ? 1 : 0), "waits iff not full was observed under the lock");
    VF_ASSERT(fu.counter.val == fu.num_compartments, "returns only once the future is ready");
    FRAME_FU;
    VF_REACH("future_wait returns");
    VF_COVER(c0 < fu.num_compartments, "blocked");
}

void h_future_test(void)
{
    setup();
    ABT_bool flag = 7;
    size_t c0 = fu.counter.val;
    int r = ABT_future_test((ABT_future)&fu, &flag);
    VF_ASSERT(r == ABT_SUCCESS && flag == (c0 == fu.num_compartments ? ABT_TRUE : ABT_FALSE), "ready iff the published counter equals num_compartments");
    VF_ASSERT(fu.counter.val == c0, "test changes nothing");
    FRAME_FU;
    VF_REACH("future_test returns");
    VF_COVER(flag == ABT_TRUE, "ready"); VF_COVER(flag == ABT_FALSE, "not ready");
}

void h_future_reset(void)
{
    setup();
    unsigned p0 = vf_publishes;
    int r = ABT_future_reset((ABT_future)&fu);
    VF_ASSERT(r == ABT_SUCCESS && fu.counter.val == 0 && vf_lock_held == 0 && vf_publishes == p0 + 1, "reset publishes counter 0 under the lock");
    VF_ASSERT(vf_t_acquire < vf_t_publish && vf_t_publish < vf_t_release, "the reset store lies inside one critical section of the future's lock (it cannot fall between the read and the write of a concurrent set)");
    FRAME_FU;
    VF_REACH("future_reset returns");
}
