/* C09: eventual.c -- ready exactly once, value copied under the lock before
 * the broadcast, a second set changes nothing, test/wait decide under the lock.
 * Spinlock and wait-list by contract (ghost lockset + clock). */
#include "vf.h"
#include "abti.h"
ABTI_eventual *vf_ev; /* ghost: the eventual under test */
/* lock-invariant rule for the plain field `ready` (protected by the eventual's lock): other threads may change it
 * until the lock is taken (acquire havocs it and snapshots what is found), and what the caller leaves at the release
 * is snapshotted again -- a store made before the acquire is lost, a store made after the release shows up as a
 * difference to the release snapshot. */
ABT_bool vf_ready_at_acq, vf_ready_at_rel;
#define VF_LOCK_HAVOC vf_ev->ready
#define VF_LOCK_GHOST vf_ready_at_acq
#define VF_LOCK_POST ((vf_ev->ready == ABT_TRUE || vf_ev->ready == ABT_FALSE) && vf_ready_at_acq == vf_ev->ready)
#define VF_LOCK_REL_GHOST vf_ready_at_rel
#define VF_LOCK_REL_POST (vf_ready_at_rel == vf_ev->ready)
#include "env/spinlock.h"
/* broadcast may only be issued once the eventual is ready (value complete) */
#define VF_WL_BCAST_PRE (vf_ev->ready == ABT_TRUE)
/* a waiter is enqueued only when the eventual was seen not ready */
#define VF_WL_WAIT_PRE (vf_ev->ready == ABT_FALSE)
/* while asleep other threads set the eventual; woken only by set's broadcast */
#define VF_WL_WAIT_HAVOC vf_ev->ready
#define VF_WL_WAIT_POST (vf_ev->ready == ABT_TRUE)
#include "contracts/waitlist_thin.h"
#include <eventual.c> /* the real /repo/src/eventual.c (angle form: this harness has the same file name) */

#define NB 16
static ABTI_eventual ev;
static unsigned char buf[NB], src[NB], buf0[NB];
static size_t f_nb; static void *f_val; static ABTI_waitlist f_wl;
#define FRAME_EV VF_ASSERT(ev.nbytes == f_nb && ev.value == f_val && ev.waitlist.p_head == f_wl.p_head && ev.waitlist.p_tail == f_wl.p_tail && ev.waitlist.futex.val.val == f_wl.futex.val.val, "frame: buffer size, buffer pointer and the wait-list words (head, tail, futex generation counter) are not written by this routine (the wait list changes only inside the wait-list operations)")
static void setup(void)
{
    size_t nb;
    VF_ASSUME(nb <= NB);
    ev.nbytes = nb;
    ev.value = nb ? buf : NULL;
    VF_ASSUME(ev.ready == ABT_TRUE || ev.ready == ABT_FALSE);
    for (int i = 0; i < NB; i++) { unsigned char c, d; buf[i] = c; buf0[i] = c; src[i] = d; }
    vf_ev = &ev; f_nb = ev.nbytes; f_val = ev.value; f_wl = ev.waitlist;
    vf_lock_held = 0;
    VF_ASSUME(vf_clock < 100 && vf_acquires < 100 && vf_releases < 100 && vf_wl_bcasts < 100 && vf_wl_waits < 100);
}

void h_eventual_set(void)
{
    setup();
    int nbytes;
    VF_ASSUME(nbytes <= NB);
    ABT_bool ready0 = ev.ready;
    unsigned b0 = vf_wl_bcasts, a0 = vf_acquires, r0 = vf_releases;
    int r = ABT_eventual_set((ABT_eventual)&ev, src, nbytes);
    VF_ASSERT(vf_lock_held == 0, "lock not held on return");
    if (nbytes >= 0 && (size_t)nbytes <= ev.nbytes) { ready0 = vf_ready_at_acq; VF_ASSERT(vf_acquires == a0 + 1, "the decision is made in one critical section"); VF_ASSERT(ev.ready == vf_ready_at_rel, "the ready flag is not written after the lock was released"); }
    if (nbytes < 0) {
        VF_ASSERT(r == ABT_ERR_INV_ARG, "negative size: ABT_ERR_INV_ARG");
    } else if ((size_t)nbytes > ev.nbytes) {
        VF_ASSERT(r == ABT_ERR_INV_EVENTUAL, "size larger than the buffer: ABT_ERR_INV_EVENTUAL");
    } else if (ready0 == ABT_TRUE) {
        VF_ASSERT(r == ABT_ERR_EVENTUAL, "second set fails with ABT_ERR_EVENTUAL");
    } else {
        VF_ASSERT(r == ABT_SUCCESS, "first set succeeds");
        VF_ASSERT(ev.ready == ABT_TRUE, "eventual is ready after the first set");
        VF_ASSERT(vf_wl_bcasts == b0 + 1 && vf_wl_which == &ev.waitlist, "exactly one broadcast on this eventual's wait list");
        VF_ASSERT(vf_acquires == a0 + 1 && vf_releases == r0 + 1 && vf_lock_which == &ev.lock &&
                  vf_t_acquire < vf_t_wl_bcast && vf_t_wl_bcast < vf_t_release, "broadcast strictly inside the critical section");
        for (int i = 0; i < NB; i++)
            VF_ASSERT(buf[i] == ((i < nbytes && ev.value) ? src[i] : buf0[i]), "buffer holds the value that was set");
    }
    if (r != ABT_SUCCESS) {
        VF_ASSERT(ev.ready == ready0 && vf_wl_bcasts == b0, "failed set: ready flag and waiters untouched");
        for (int i = 0; i < NB; i++)
            VF_ASSERT(buf[i] == buf0[i], "failed set: stored value untouched");
    }
    FRAME_EV;
    VF_REACH("set returns");
    VF_COVER(r == ABT_SUCCESS && nbytes > 3, "first set");
    VF_COVER(r == ABT_ERR_EVENTUAL, "second set");
    VF_COVER(r == ABT_ERR_INV_EVENTUAL, "too large");
}

void h_eventual_wait(void)
{
    setup();
    /* caller: external thread (no local) or a yieldable ULT */
    void *val = (void *)0x55;
    ABT_bool ready0 = ev.ready;
    unsigned w0 = vf_wl_waits, r0 = vf_releases, a0 = vf_acquires;
    /* caller: an external thread, a ULT, or a tasklet (refused by the 1.x API) */
    static ABTI_xstream cxs; static ABTI_thread cth; int kind; VF_ASSUME(0 <= kind && kind <= 2);
    cxs.p_thread = &cth; cth.type = (kind == 1) ? ABTI_THREAD_TYPE_YIELDABLE : 0; lp_ABTI_local = kind == 0 ? NULL : (ABTI_local *)&cxs;
    int r = ABT_eventual_wait((ABT_eventual)&ev, &val);
    if (kind == 2) {
        VF_ASSERT(r == ABT_ERR_EVENTUAL && vf_wl_waits == w0 && val == (void *)0x55, "a tasklet may not wait: refused, nothing enqueued, no value handed out");
        VF_ASSERT(vf_lock_held == 0 && vf_acquires - a0 == vf_releases - r0, "... and the eventual's lock is not left held");
        VF_REACH("eventual_wait refused"); return;
    }
    ready0 = vf_ready_at_acq; /* what was found under the lock */
    VF_ASSERT(r == ABT_SUCCESS && vf_lock_held == 0 && vf_releases == r0 + 1, "lock released exactly once");
    VF_ASSERT(vf_wl_waits == w0 + (ready0 == ABT_FALSE ? 1 : 0), "waits iff the eventual was seen not ready under the lock");
    VF_ASSERT(ev.ready == ABT_TRUE, "returns only once the eventual is ready");
    VF_ASSERT(val == ev.value, "hands out the eventual's value buffer");
    FRAME_EV;
    VF_REACH("wait returns");
    VF_COVER(ready0 == ABT_FALSE, "blocked"); VF_COVER(ready0 == ABT_TRUE, "already ready");
}

void h_eventual_test(void)
{
    setup();
    void *val = (void *)0x55;
    ABT_bool flag = 7;
    ABT_bool ready0 = ev.ready;
    unsigned a0 = vf_acquires, r0 = vf_releases;
    int r = ABT_eventual_test((ABT_eventual)&ev, &val, &flag);
    ready0 = vf_ready_at_acq; /* what was found under the lock */
    VF_ASSERT(r == ABT_SUCCESS && vf_lock_held == 0 && vf_acquires == a0 + 1 && vf_releases == r0 + 1, "one critical section");
    VF_ASSERT(flag == ready0, "reports ready iff ready was observed under the lock");
    VF_ASSERT(ready0 ? val == ev.value : val == (void *)0x55, "value written only when ready");
    VF_ASSERT(ev.ready == ready0, "test changes nothing");
    FRAME_EV;
    VF_REACH("test returns");
    VF_COVER(flag == ABT_TRUE, "ready"); VF_COVER(flag == ABT_FALSE, "not ready");
}

void h_eventual_reset(void)
{
    setup(); ABTI_waitlist wl0 = ev.waitlist;
    int r = ABT_eventual_reset((ABT_eventual)&ev);
    VF_ASSERT(ev.waitlist.p_head == wl0.p_head && ev.waitlist.p_tail == wl0.p_tail && ev.waitlist.futex.val.val == wl0.futex.val.val, "reset does not touch the wait list: in particular the futex word, the generation counter that sleeping external waiters compare against, is never set back");
    VF_ASSERT(r == ABT_SUCCESS && ev.ready == ABT_FALSE && vf_lock_held == 0, "reset: not ready, lock released");
    VF_ASSERT(vf_ready_at_rel == ABT_FALSE && ev.ready == vf_ready_at_rel, "the flag is cleared inside the critical section: in place when the lock is released, not written afterwards (a reset cannot interleave with a set)");
    VF_ASSERT(ev.value == (ev.nbytes ? (void *)buf : NULL), "buffer pointer kept");
    FRAME_EV;
    VF_REACH("reset returns");
}

void h_eventual_null(void)
{
    void *val; ABT_bool flag;
    VF_ASSERT(ABT_eventual_set(ABT_EVENTUAL_NULL, src, 0) == ABT_ERR_INV_EVENTUAL, "set: NULL handle rejected");
    VF_ASSERT(ABT_eventual_wait(ABT_EVENTUAL_NULL, &val) == ABT_ERR_INV_EVENTUAL, "wait: NULL handle rejected");
    VF_ASSERT(ABT_eventual_test(ABT_EVENTUAL_NULL, &val, &flag) == ABT_ERR_INV_EVENTUAL, "test: NULL handle rejected");
    VF_ASSERT(ABT_eventual_reset(ABT_EVENTUAL_NULL) == ABT_ERR_INV_EVENTUAL, "reset: NULL handle rejected");
    VF_REACH("null handles");
}
