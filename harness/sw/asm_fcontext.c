/* C02 (assembly half): src/arch/fcontext/fcontext_x86_64_sysv_elf_gas.S,
 * extracted instruction by instruction into C by tools/asm2c.py on every run
 * (fcontext_asm.gen.h), over the machine model env/x86_model.h.
 *
 * Obligations (all inputs: every register content, every FP control value,
 * every admissible stack position, every combination of saving and restoring
 * routine):
 *  ROUNDTRIP  a ULT that gives up the processor through any saving routine and
 *             is later resumed through any restoring routine continues at its
 *             return address with rsp, rbx, rbp, r12-r15, MXCSR and the x87
 *             control word exactly as it left them, whatever ran in between
 *             (provided nobody wrote to its stack above its saved stack
 *             pointer: stack exclusivity, C15).
 *  RESTORE    the context that is switched to is restored from its own saved
 *             frame even though the post-switch callback clobbers every
 *             caller-saved register and the OLD ULT (published by that
 *             callback) may already be running elsewhere and rewriting its
 *             stack.
 *  MODEL      the *_with_call routines do what the C model of env/switch_env.h
 *             says: store the old context, THEN call f_cb(cb_arg) exactly once
 *             on the new context's stack, with an ABI-aligned stack.
 *  FRESH      init_and_* enter f_thread(p_new_ctx) on the new stack with the
 *             SysV alignment (rsp + 8 multiple of 16) for ANY p_stacktop, never
 *             above the stack top.
 *  PEEK       peek_fcontext calls f_peek(arg) on the target's stack and comes
 *             back with rsp and r12 restored. */
#include "vf.h"
#include "env/x86_model.h"
#include "fcontext_asm.gen.h"

static unsigned n_calls; static uint64_t call_target, call_rdi, call_rsp, call_oldslot_val; static uint32_t call_mxcsr; static uint16_t call_fcw;
static uint64_t watch_slot;      /* context slot whose content is sampled when the callback is entered */
static uint64_t old_region;       /* != 0: the callback published the old ULT, which may already run elsewhere: its whole stack (this region) changes under us */
#define old_runs_elsewhere old_region
uint64_t nondet_u64(void); uint8_t nondet_u8(void); uint32_t nondet_u32(void); uint16_t nondet_u16(void);
static void havoc_range(uint64_t base, uint64_t lo, uint64_t hi) /* words of region `base` lying entirely in lo <= address < hi (all limits are 8-byte aligned) */
{
    for (unsigned i = 0; i < VF_STK; i += 8) if (base + i >= lo && base + i + 8 <= hi) vf_memw[(base + i) >> 3] = nondet_u64();
}
static uint64_t region_of(uint64_t a) { return a & ~(uint64_t)(VF_STK - 1); }
static void havoc_caller_saved(vf_cpu *c) { c->rax = nondet_u64(); c->rcx = nondet_u64(); c->rdx = nondet_u64(); c->rsi = nondet_u64(); c->rdi = nondet_u64(); c->r8 = nondet_u64(); c->r9 = nondet_u64(); c->r10 = nondet_u64(); c->r11 = nondet_u64(); }
/* an ABI-conforming C function called by `callq *%reg` */
static void vf_env_call(vf_cpu *c, uint64_t target)
{
    n_calls++; call_target = target; call_rdi = c->rdi; call_rsp = c->rsp; call_mxcsr = c->mxcsr; call_fcw = c->fcw;
    call_oldslot_val = watch_slot ? vf_load64(watch_slot) : 0;
    VF_ASSERT((c->rsp & 15) == 8, "asm: a C function is called with the stack 16-byte aligned at the call instruction (SysV ABI)");
    VF_ASSERT(c->rsp >= region_of(c->rsp) + 32 && c->rsp >= VF_STK_A && c->rsp < VF_CTX, "asm: the callee has a stack to run on");
    /* the callee uses its own frame below rsp, clobbers the caller-saved registers, keeps the rest */
    havoc_range(region_of(c->rsp), region_of(c->rsp), c->rsp);
    havoc_caller_saved(c);
    if (old_region) havoc_range(old_region, old_region, old_region + VF_STK);
    c->rsp += 8; /* ret */
}
static vf_cpu cpu;
static void any_cpu(vf_cpu *c) { vf_cpu n; n.rax = nondet_u64(); n.rbx = nondet_u64(); n.rcx = nondet_u64(); n.rdx = nondet_u64(); n.rsi = nondet_u64(); n.rdi = nondet_u64(); n.rbp = nondet_u64(); n.rsp = nondet_u64();
    n.r8 = nondet_u64(); n.r9 = nondet_u64(); n.r10 = nondet_u64(); n.r11 = nondet_u64(); n.r12 = nondet_u64(); n.r13 = nondet_u64(); n.r14 = nondet_u64(); n.r15 = nondet_u64(); n.pc = nondet_u64(); n.mxcsr = nondet_u32(); n.fcw = nondet_u16(); *c = n; }
static void any_mem(void) { for (unsigned i = 0; i < VF_MEM_END / 8; i++) vf_memw[i] = nondet_u64(); }
/* a C caller has just executed `call routine`: return address on top, stack ABI-aligned */
static void enter_from_c(vf_cpu *c, uint64_t stack_base, uint64_t ra)
{
    VF_ASSUME(c->rsp >= stack_base + 96 && c->rsp <= stack_base + VF_STK - 8 && (c->rsp & 15) == 8); /* room for the 56-byte frame plus a callee below it */
    vf_store64(c->rsp, ra);
}
#define CTX_A (VF_CTX + 0)
#define CTX_B (VF_CTX + 8)
#define CTX_N (VF_CTX + 16)
#define F_THREAD 0x7001000u
#define F_CB 0x7002000u
#define F_PEEK 0x7003000u

/* which == 0 switch_fcontext, 1 jump_fcontext, 2 switch_with_call_fcontext, 3 jump_with_call_fcontext:
 * `cur` switches to the started context stored in slot `slot_new`, saving itself (if it does) into `slot_old` */
static void run_restorer(int which, vf_cpu *c, uint64_t slot_new, uint64_t slot_old, uint64_t cb_arg)
{
    if (which == 0) { c->rdi = slot_new; c->rsi = slot_old; asm_switch_fcontext(c); }
    else if (which == 1) { c->rdi = slot_new; asm_jump_fcontext(c); }
    else if (which == 2) { c->rdi = cb_arg; c->rsi = F_CB; c->rdx = slot_new; c->rcx = slot_old; asm_switch_with_call_fcontext(c); }
    else { c->rdi = cb_arg; c->rsi = F_CB; c->rdx = slot_new; asm_jump_with_call_fcontext(c); }
}
/* which == 0 switch, 1 init_and_switch, 2 switch_with_call, 3 init_and_switch_with_call: `cur` saves itself into slot_old */
static void run_saver(int which, vf_cpu *c, uint64_t slot_new, uint64_t slot_old, uint64_t cb_arg, uint64_t stacktop)
{
    if (which == 0) { c->rdi = slot_new; c->rsi = slot_old; asm_switch_fcontext(c); }
    else if (which == 1) { c->rdi = slot_new; c->rsi = F_THREAD; c->rdx = stacktop; c->rcx = slot_old; asm_init_and_switch_fcontext(c); }
    else if (which == 2) { c->rdi = cb_arg; c->rsi = F_CB; c->rdx = slot_new; c->rcx = slot_old; asm_switch_with_call_fcontext(c); }
    else { c->rdi = cb_arg; c->rsi = F_CB; c->rdx = slot_new; c->rcx = F_THREAD; c->r8 = stacktop; c->r9 = slot_old; asm_init_and_switch_with_call_fcontext(c); }
}
static uint64_t any_stacktop(void) { uint64_t t = nondet_u64(); VF_ASSUME(t >= VF_STK_N + 64 && t <= VF_STK_N + VF_STK); return t; } /* ANY address (aligned or not) with 64 bytes of stack below it */
static void put_frame_B(uint64_t *sp_b) { uint64_t sp = nondet_u64(); VF_ASSUME(sp >= VF_STK_B + 48 && sp <= VF_STK_B + VF_STK - 64 && (sp & 15) == 0); vf_store64(CTX_B, sp); *sp_b = sp; }

void h_asm_roundtrip(void)
{
    any_mem(); any_cpu(&cpu); n_calls = 0; watch_slot = 0; old_region = 0;
#ifdef VF_SAVER
    int saver = VF_SAVER, restorer = nondet_u8() & 3;
#else
    int saver = nondet_u8() & 3, restorer = nondet_u8() & 3;
#endif
    uint64_t ra = nondet_u64(), sp_b; put_frame_B(&sp_b);
    /* ULT A, running on stack A, calls the saving routine */
    enter_from_c(&cpu, VF_STK_A, ra);
    vf_cpu a0 = cpu;
    run_saver(saver, &cpu, CTX_B, CTX_A, nondet_u64(), any_stacktop());
    uint64_t saved = vf_load64(CTX_A);
    VF_ASSERT(saved != 0 && saved >= VF_STK_A && saved < a0.rsp && (saved & 15) == 0, "the saved context is non-NULL (marks 'started'), lies on A's own stack below its stack pointer, 16-byte aligned");
    /* other work units run: every register, the FP control state and all memory except A's live stack and the context slots change */
    any_cpu(&cpu);
    havoc_range(VF_STK_A, VF_STK_A, saved); havoc_range(VF_STK_B, VF_STK_B, VF_STK_B + VF_STK); havoc_range(VF_STK_N, VF_STK_N, VF_STK_N + VF_STK);
    /* some ULT running on stack B switches (back) to A */
    uint64_t ra2 = nondet_u64(); enter_from_c(&cpu, VF_STK_B, ra2);
    n_calls = 0; old_region = VF_STK_B; /* the resumer is published by the callback and may run elsewhere at once */
    run_restorer(restorer, &cpu, CTX_A, CTX_B, nondet_u64());
    VF_ASSERT(cpu.pc == ra, "A continues at the return address of its switch call");
    VF_ASSERT(cpu.rsp == a0.rsp + 8, "with its stack pointer as after a return");
    VF_ASSERT(cpu.rbx == a0.rbx && cpu.rbp == a0.rbp && cpu.r12 == a0.r12 && cpu.r13 == a0.r13 && cpu.r14 == a0.r14 && cpu.r15 == a0.r15, "callee-saved registers rbx, rbp, r12-r15 exactly as A left them");
    VF_ASSERT(cpu.mxcsr == a0.mxcsr && cpu.fcw == a0.fcw, "MXCSR and the x87 control word exactly as A left them");
    VF_REACH("asm round trip"); VF_COVER(restorer == 3, "resumed by jump_with_call"); VF_COVER(restorer == 0, "resumed by switch"); VF_COVER(restorer == 1, "resumed by jump"); VF_COVER(restorer == 2, "resumed by switch_with_call");
}

void h_asm_restore(void)
{
    any_mem(); any_cpu(&cpu); n_calls = 0; old_region = 0; watch_slot = 0;
    /* ULT B gives up the processor first (through a routine that starts a fresh ULT, so that no third saved context is
     * needed); its saved frame is whatever that routine wrote: no layout is assumed here */
    uint64_t ra_b = nondet_u64(); enter_from_c(&cpu, VF_STK_B, ra_b); vf_cpu b0 = cpu;
    run_saver((nondet_u8() & 1) ? 1 : 3, &cpu, CTX_N, CTX_B, nondet_u64(), any_stacktop());
    uint64_t sp_b = vf_load64(CTX_B); VF_ASSUME(sp_b >= VF_STK_B + 48); /* room for a callback frame below B's saved frame */
    any_cpu(&cpu); havoc_range(VF_STK_B, VF_STK_B, sp_b); havoc_range(VF_STK_N, VF_STK_N, VF_STK_N + VF_STK); havoc_range(VF_STK_A, VF_STK_A, VF_STK_A + VF_STK);
    /* ULT A switches to B; the callback publishes A, which may at once run elsewhere and rewrite its stack */
    int which = nondet_u8() & 3; uint64_t arg = nondet_u64(); enter_from_c(&cpu, VF_STK_A, nondet_u64()); uint64_t rsp0 = cpu.rsp;
    vf_store64(CTX_A, 0); watch_slot = (which == 0 || which == 2) ? CTX_A : 0; old_region = VF_STK_A; n_calls = 0;
    run_restorer(which, &cpu, CTX_B, CTX_A, arg);
    VF_ASSERT(cpu.pc == ra_b && cpu.rsp == b0.rsp + 8, "the new context continues at ITS return address on ITS stack");
    VF_ASSERT(cpu.rbx == b0.rbx && cpu.rbp == b0.rbp && cpu.r12 == b0.r12 && cpu.r13 == b0.r13 && cpu.r14 == b0.r14 && cpu.r15 == b0.r15 && cpu.mxcsr == b0.mxcsr && cpu.fcw == b0.fcw,
              "registers and FP control state are the new context's own -- not those of the ULT that switched out or exited, whatever the callback and the old ULT did meanwhile");
    if (which >= 2) {
        VF_ASSERT(n_calls == 1 && call_target == F_CB && call_rdi == arg, "MODEL: f_cb(cb_arg) is called exactly once");
        VF_ASSERT(region_of(call_rsp) == VF_STK_B && call_rsp + 8 == sp_b, "MODEL: the callback runs on the NEW context's stack, just below its saved frame (the old ULT may be resumed by another stream while it runs)");
    } else VF_ASSERT(n_calls == 0, "no callback");
    if (which == 0 || which == 2) {
        uint64_t saved_a = vf_load64(CTX_A);
        VF_ASSERT(saved_a != 0 && region_of(saved_a) == VF_STK_A && saved_a < rsp0 && (saved_a & 15) == 0, "the old context slot holds the saved stack pointer (non-NULL, on the old ULT's own stack)");
        if (which == 2) VF_ASSERT(call_oldslot_val == saved_a, "MODEL: the old context is completely stored BEFORE the callback runs");
    }
    VF_REACH("asm restore"); VF_COVER(which == 3, "jump_with_call"); VF_COVER(which == 2, "switch_with_call"); VF_COVER(which == 1, "jump");
}

void h_asm_fresh(void)
{
    any_mem(); any_cpu(&cpu); n_calls = 0; old_region = VF_STK_A; vf_store64(CTX_A, 0); watch_slot = CTX_A;
    int which = nondet_u8() & 3; uint64_t top = any_stacktop(), arg = nondet_u64();
    enter_from_c(&cpu, VF_STK_A, nondet_u64()); uint64_t rsp0 = cpu.rsp;
    if (which == 0) { cpu.rdi = CTX_N; cpu.rsi = F_THREAD; cpu.rdx = top; cpu.rcx = CTX_A; asm_init_and_switch_fcontext(&cpu); }
    else if (which == 1) { cpu.rdi = CTX_N; cpu.rsi = F_THREAD; cpu.rdx = top; asm_init_and_jump_fcontext(&cpu); }
    else if (which == 2) { cpu.rdi = arg; cpu.rsi = F_CB; cpu.rdx = CTX_N; cpu.rcx = F_THREAD; cpu.r8 = top; cpu.r9 = CTX_A; asm_init_and_switch_with_call_fcontext(&cpu); }
    else { cpu.rdi = arg; cpu.rsi = F_CB; cpu.rdx = CTX_N; cpu.rcx = F_THREAD; cpu.r8 = top; asm_init_and_jump_with_call_fcontext(&cpu); }
    VF_ASSERT(cpu.pc == F_THREAD && cpu.rdi == CTX_N, "FRESH: control enters f_thread with p_new_ctx as its argument");
    VF_ASSERT(((cpu.rsp + 8) & 15) == 0, "FRESH: on a stack aligned as the SysV ABI demands at function entry (rsp + 8 multiple of 16), for ANY p_stacktop");
    VF_ASSERT(cpu.rsp + 8 <= top && cpu.rsp + 8 > top - 16, "FRESH: at the top of the NEW stack, never above p_stacktop");
    if (which >= 2) {
        VF_ASSERT(n_calls == 1 && call_target == F_CB && call_rdi == arg, "MODEL: f_cb(cb_arg) exactly once before the new ULT starts");
        VF_ASSERT(call_rsp + 8 <= top && call_rsp + 8 > top - 16, "MODEL: the callback runs on the NEW stack");
        if (which == 2) VF_ASSERT(call_oldslot_val == vf_load64(CTX_A) && call_oldslot_val != 0, "MODEL: the old context is completely stored BEFORE the callback runs");
    } else VF_ASSERT(n_calls == 0, "no callback");
    if (which == 0 || which == 2) { uint64_t sa = vf_load64(CTX_A); VF_ASSERT(sa != 0 && region_of(sa) == VF_STK_A && sa < rsp0 && (sa & 15) == 0, "the old context slot holds the saved stack pointer (non-NULL, on the old ULT's own stack, 16-byte aligned)"); }
    VF_REACH("asm fresh"); VF_COVER(which == 2 && (top & 15) == 8, "init_and_switch_with_call on an 8-byte aligned user stack"); VF_COVER(which == 3, "init_and_jump_with_call"); VF_COVER((top & 15) == 3, "odd stack top");
}

void h_asm_peek(void)
{
    any_mem(); any_cpu(&cpu); n_calls = 0; old_region = 0; watch_slot = 0;
    uint64_t sp_b; put_frame_B(&sp_b); uint64_t before[8]; for (int i = 0; i < 8; i++) before[i] = vf_load64(sp_b + 8 * i); /* the target's saved frame, whatever its layout */
    uint64_t ra = nondet_u64(), arg = nondet_u64(); enter_from_c(&cpu, VF_STK_A, ra); vf_cpu a0 = cpu;
    cpu.rdi = arg; cpu.rsi = F_PEEK; cpu.rdx = CTX_B; asm_peek_fcontext(&cpu);
    VF_ASSERT(n_calls == 1 && call_target == F_PEEK && call_rdi == arg && call_rsp == sp_b - 8, "PEEK: f_peek(arg) once, on the target's stack just below its saved frame");
    VF_ASSERT(cpu.pc == ra && cpu.rsp == a0.rsp + 8 && cpu.r12 == a0.r12 && cpu.rbx == a0.rbx && cpu.rbp == a0.rbp && cpu.r13 == a0.r13 && cpu.r14 == a0.r14 && cpu.r15 == a0.r15, "PEEK: returns to the caller with its stack pointer and callee-saved registers restored");
    for (int i = 0; i < 8; i++) VF_ASSERT(vf_load64(sp_b + 8 * i) == before[i], "PEEK: the target's saved context is left intact");
    VF_ASSERT(vf_load64(CTX_B) == sp_b, "PEEK: the target's context slot is left intact");
    VF_REACH("asm peek");
}
