/* C03 / C12: ABT_thread_free, ABT_thread_free_many, ABT_thread_join,
 * ABT_thread_join_many and thread_free (thread.c): a work unit is released only
 * after its join returned, exactly once, in the order unit -> key table ->
 * descriptor; invalid targets are rejected untouched; handles are nulled.
 * thread_join by contract (its own unit: thread_join, C03). */
#include "vf.h"
#include "abti.h"
static ABTI_global glob; static ABTI_xstream xs; static ABTI_thread t[3], selft; static ABTI_ktable kt;
#define VF_TID(p) ((p) == &t[0] ? 1 : (p) == &t[1] ? 2 : (p) == &t[2] ? 3 : (p) == &selft ? 8 : 9)
unsigned vf_clk; unsigned vf_join_n, vf_unset_n, vf_ktfree_n, vf_memfree_n; int vf_join_last, vf_unset_last, vf_memfree_last, vf_ktfree_is_kt; unsigned vf_t_join, vf_t_unset, vf_t_ktfree, vf_t_memfree;
unsigned vf_join_mask, vf_free_mask, vf_order_bad; /* bit per thread id; sticky flag: a release that was not preceded by the join of that unit */
static void thread_join(ABTI_local **pp_local, ABTI_thread *p_thread)
__CPROVER_assigns(vf_clk, vf_join_n, vf_join_last, vf_t_join, vf_join_mask)
__CPROVER_ensures(vf_clk == __CPROVER_old(vf_clk) + 1 && vf_t_join == vf_clk && vf_join_n == __CPROVER_old(vf_join_n) + 1 && vf_join_last == VF_TID(p_thread) && vf_join_mask == (__CPROVER_old(vf_join_mask) | (1u << VF_TID(p_thread))));
void ABTI_thread_unset_associated_pool(ABTI_global *g, ABTI_thread *p_thread)
__CPROVER_assigns(vf_clk, vf_unset_n, vf_unset_last, vf_t_unset)
__CPROVER_ensures(vf_clk == __CPROVER_old(vf_clk) + 1 && vf_t_unset == vf_clk && vf_unset_n == __CPROVER_old(vf_unset_n) + 1 && vf_unset_last == VF_TID(p_thread));
void ABTI_ktable_free(ABTI_global *g, ABTI_local *l, ABTI_ktable *p)
__CPROVER_assigns(vf_clk, vf_ktfree_n, vf_ktfree_is_kt, vf_t_ktfree)
__CPROVER_ensures(vf_clk == __CPROVER_old(vf_clk) + 1 && vf_t_ktfree == vf_clk && vf_ktfree_n == __CPROVER_old(vf_ktfree_n) + 1 && vf_ktfree_is_kt == (p == &kt));
static inline void ABTI_mem_free_thread(ABTI_global *g, ABTI_local *l, ABTI_thread *p_thread)
__CPROVER_assigns(vf_clk, vf_memfree_n, vf_memfree_last, vf_t_memfree, vf_free_mask, vf_order_bad)
__CPROVER_ensures(vf_clk == __CPROVER_old(vf_clk) + 1 && vf_t_memfree == vf_clk && vf_memfree_n == __CPROVER_old(vf_memfree_n) + 1 && vf_memfree_last == VF_TID(p_thread))
__CPROVER_ensures(vf_free_mask == (__CPROVER_old(vf_free_mask) | (1u << VF_TID(p_thread))))
__CPROVER_ensures(vf_order_bad == (__CPROVER_old(vf_order_bad) || !(__CPROVER_old(vf_join_mask) & (1u << VF_TID(p_thread))) || (__CPROVER_old(vf_free_mask) & (1u << VF_TID(p_thread)))));
ABTI_global *gp_ABTI_global; ABTD_XSTREAM_LOCAL ABTI_local *lp_ABTI_local;
#include <thread.c>
static void setup(void) { gp_ABTI_global = &glob; vf_join_n = vf_unset_n = vf_ktfree_n = vf_memfree_n = 0; vf_join_mask = vf_free_mask = vf_order_bad = 0; VF_ASSUME(vf_clk < 1000); { int e; if (e) lp_ABTI_local = NULL; else { lp_ABTI_local = (ABTI_local *)&xs; xs.p_thread = &selft; } } }
void h_thread_free(void)
{
    setup(); int which; VF_ASSUME(which >= 0 && which <= 3); ABTI_thread *tp = which == 3 ? &selft : &t[0]; { int hk; tp->p_keytable.val = hk ? &kt : NULL; } ABT_thread h = which == 2 ? ABT_THREAD_NULL : (ABT_thread)tp;
    int r = ABT_thread_free(&h);
    int bad = (which == 2) || (which == 3 && lp_ABTI_local != NULL) || (tp->type & (ABTI_THREAD_TYPE_PRIMARY | ABTI_THREAD_TYPE_MAIN_SCHED));
    if (bad) VF_ASSERT(r == ABT_ERR_INV_THREAD && vf_join_n == 0 && vf_memfree_n == 0 && vf_unset_n == 0 && vf_ktfree_n == 0 && h == (which == 2 ? ABT_THREAD_NULL : (ABT_thread)tp), "NULL handle, the caller itself, the primary ULT or a main scheduler: rejected, nothing joined or released, handle unchanged");
    else {
        VF_ASSERT(r == ABT_SUCCESS && h == ABT_THREAD_NULL, "success: handle nulled");
        VF_ASSERT(vf_join_n == 1 && vf_join_last == VF_TID(tp) && vf_memfree_n == 1 && vf_memfree_last == VF_TID(tp) && vf_unset_n == 1 && vf_unset_last == VF_TID(tp), "joined once, unit released once, descriptor released once: this work unit");
        VF_ASSERT(vf_t_join < vf_t_unset && vf_t_unset < vf_t_memfree && !vf_order_bad, "nothing is released before the join returned; the descriptor goes last");
        VF_ASSERT(vf_ktfree_n == (tp->p_keytable.val ? 1u : 0u) && (!vf_ktfree_n || (vf_ktfree_is_kt && vf_t_unset < vf_t_ktfree && vf_t_ktfree < vf_t_memfree)), "its key table (destructors) is released iff it has one, once, before the descriptor");
    }
    VF_REACH("ABT_thread_free"); VF_COVER(!bad && vf_ktfree_n == 1, "with key table"); VF_COVER(bad && which == 3, "self");
}
void h_thread_join_api(void)
{
    setup(); int which; VF_ASSUME(which >= 0 && which <= 3); ABTI_thread *tp = which == 3 ? &selft : &t[0]; ABT_thread h = which == 2 ? ABT_THREAD_NULL : (ABT_thread)tp;
    int r = ABT_thread_join(h);
    int bad = (which == 2) || (which == 3 && lp_ABTI_local != NULL) || (tp->type & (ABTI_THREAD_TYPE_PRIMARY | ABTI_THREAD_TYPE_MAIN_SCHED));
    if (bad) VF_ASSERT(r == ABT_ERR_INV_THREAD && vf_join_n == 0, "invalid target rejected without waiting"); else VF_ASSERT(r == ABT_SUCCESS && vf_join_n == 1 && vf_join_last == VF_TID(tp) && vf_memfree_n == 0, "returns only through thread_join of this unit; releases nothing");
    VF_REACH("ABT_thread_join");
}
void h_thread_many(void)
{
    setup(); ABT_thread list[3]; int n; VF_ASSUME(0 <= n && n <= 3); int nz[3]; for (int i = 0; i < 3; i++) { int c; nz[i] = !!c; list[i] = nz[i] ? (ABT_thread)&t[i] : ABT_THREAD_NULL; t[i].p_keytable.val = NULL; } int fr;
    int r = fr ? ABT_thread_free_many(n, list) : ABT_thread_join_many(n, list);
    unsigned want = 0, cnt = 0; for (int i = 0; i < 3; i++) if (i < n && nz[i]) { want |= 1u << (i + 1); cnt++; }
    VF_ASSERT(r == ABT_SUCCESS && vf_join_mask == want && vf_join_n == cnt, "every non-NULL entry is joined exactly once, nothing else");
    if (fr) { VF_ASSERT(vf_free_mask == want && vf_memfree_n == cnt && vf_unset_n == cnt && !vf_order_bad, "free_many: each joined unit is released exactly once, never before its own join"); for (int i = 0; i < 3; i++) if (i < n) VF_ASSERT(list[i] == ABT_THREAD_NULL, "handles nulled"); }
    else VF_ASSERT(vf_memfree_n == 0, "join_many releases nothing");
    VF_REACH("many"); VF_COVER(fr && cnt == 3, "three freed"); VF_COVER(!fr && cnt == 2, "two joined");
}
