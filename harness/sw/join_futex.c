/* C03: thread.c thread_join_futexwait -- an external thread or tasklet that
 * joins a ULT sleeps on a private futex it publishes through the joiner link.
 * From the moment the link is published the terminating target may wake the
 * futex at ANY time (ABTD_futex_resume writes the wake-up word and never looks
 * again), even before the joiner goes to sleep.  Rely/guarantee obligation:
 *  - the futex is in its initial state when it is published;
 *  - what is published is a dummy EXT descriptor whose p_arg is that futex (the
 *    layout ABTI_ythread_resume_joiner decodes);
 *  - the joiner sleeps on exactly the published futex, and a wake-up that
 *    arrived between publication and sleep is still there (nothing rewrites the
 *    word after publication) -- otherwise join never returns.
 * Real file included; the publication, the sleep and the state load are
 * redirected to stubs in which the environment wakes the futex
 * nondeterministically right after publication. */
#include "vf.h"
#include "abti.h"
int nondet_int(void);
static unsigned n_pub, n_sleep, n_state_loads; static ABTD_futex_single *pub_futex; static int env_woke, bad; static ABTI_ythread tgt; static const void *pub_target;
#ifdef ABT_CONFIG_USE_LINUX_FUTEX
#define FUTEX_IS_INITIAL(f) ((f)->val.val == 0)
#define FUTEX_ENV_WAKE(f) ((f)->val.val = 1)
#define FUTEX_IS_WOKEN(f) ((f)->val.val == 1)
#else
#define FUTEX_IS_INITIAL(f) ((f)->p_sync_obj.val == NULL)
#define FUTEX_ENV_WAKE(f) ((f)->p_sync_obj.val = (void *)(intptr_t)1)
#define FUTEX_IS_WOKEN(f) ((f)->p_sync_obj.val == (void *)(intptr_t)1)
#endif
static void vf_pub_link(ABTD_ythread_context_atomic_ptr *ptr, ABTD_ythread_context *p_ctx)
{
    n_pub++; pub_target = ptr; ptr->val.val = p_ctx;
    ABTI_ythread *d = (ABTI_ythread *)((char *)p_ctx - offsetof(ABTI_ythread, ctx));
    if (d->thread.type != ABTI_THREAD_TYPE_EXT) bad = 1; /* resume_joiner tells a sleeping non-ULT joiner by this type */
    pub_futex = (ABTD_futex_single *)d->thread.p_arg;
    VF_ASSERT(pub_futex != NULL && FUTEX_IS_INITIAL(pub_futex), "the futex is initialised BEFORE the joiner link makes it reachable for the terminating target");
    if (nondet_int()) { FUTEX_ENV_WAKE(pub_futex); env_woke = 1; } /* the target terminates right now */
}
void ABTD_futex_suspend(ABTD_futex_single *f)
{
    n_sleep++;
    VF_ASSERT(f == pub_futex, "the joiner sleeps on the futex it published");
    VF_ASSERT(!env_woke || FUTEX_IS_WOKEN(f), "a wake-up delivered between publication and sleep is not erased (else the joiner sleeps forever)");
    VF_ASSERT(env_woke || FUTEX_IS_INITIAL(f), "otherwise the word is still in its initial state");
}
static int vf_state_load(const ABTD_atomic_int *p) { n_state_loads++; if (p != &tgt.thread.state) bad = 1; return ABT_THREAD_STATE_TERMINATED; }
#define ABTD_atomic_release_store_ythread_context_ptr vf_pub_link
#define ABTD_atomic_acquire_load_int vf_state_load
#include <thread.c>
#undef ABTD_atomic_release_store_ythread_context_ptr
#undef ABTD_atomic_acquire_load_int
void h_join_futexwait(void)
{
    n_pub = n_sleep = n_state_loads = 0; env_woke = 0; bad = 0; pub_futex = NULL;
    tgt.thread.type = ABTI_THREAD_TYPE_YIELDABLE | ABTI_THREAD_TYPE_NAMED; { uint32_t rq; tgt.thread.request.val = rq; } uint32_t req0 = tgt.thread.request.val;
    thread_join_futexwait(&tgt.thread);
    int first = !(req0 & ABTI_THREAD_REQ_JOIN);
    VF_ASSERT(bad == 0 && tgt.thread.request.val == (req0 | ABTI_THREAD_REQ_JOIN), "JOIN requested; a dummy EXT descriptor is what gets published");
    VF_ASSERT(n_pub == (first ? 1u : 0u) && n_sleep == n_pub && (!first || pub_target == &tgt.ctx.p_link), "sleeps exactly once, on the target's joiner link, iff ITS fetch_or was the first to set JOIN (else the target is already past the point where it looks for a joiner)");
    VF_ASSERT(n_state_loads >= 1, "and in every case returns only after an acquire-load saw TERMINATED");
    VF_REACH("join_futexwait"); VF_COVER(first && env_woke, "woken before sleeping"); VF_COVER(!first, "target already terminating");
}
