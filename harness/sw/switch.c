/* C02/C11/C06/C03/C12: every context-switch primitive of abti_ythread.h through
 * the real chain  *_internal -> ABTI_ythread_context_* -> ABTD_ythread_context_*
 * -> C model of the assembly, with the REAL callbacks of ythread.c.
 * See env/switch_env.h for the environment. */
#include "vf.h"
#include "abti.h"
#include "env/switch_env.h"
#include <ythread.c>

ABTI_global *gp_ABTI_global;
static ABTI_global glob;
static ABTI_xstream xs, xs2;
static ABTI_ythread self, parent, target, joiner, primary;
static ABTI_pool poolA, poolB, poolT, poolJ;
static ABTD_spinlock lk;
static ABTI_sched msched;
static ABTD_futex_single jfutex;

/* --- extern callees of the callbacks: logging stubs --- */
static unsigned n_cancel, n_migrate, n_free, n_futex_resume, t_req;
static int mig_ok;
void ABTI_thread_handle_request_cancel(ABTI_global *g, ABTI_xstream *x, ABTI_thread *t) { n_cancel++; vf_clock++; t_req = vf_clock; }
int ABTI_thread_handle_request_migrate(ABTI_global *g, ABTI_local *l, ABTI_thread *t)
{
    n_migrate++; vf_clock++; t_req = vf_clock;
    if (mig_ok) { t->p_pool = &poolB; return ABT_SUCCESS; } /* the unit now belongs to pool B */
    return ABT_ERR_MEM;
}
void ABTI_thread_free(ABTI_global *g, ABTI_local *l, ABTI_thread *t) { n_free++; }
void ABTD_futex_resume(ABTD_futex_single *f) { n_futex_resume++; }
void ABTI_unit_unmap_thread(ABTI_global *g, ABT_unit u) {}
static void (*vf_after)(void); /* obligations of never-returning primitives are checked right after the jump */
void vf_after_jump(void) { if (vf_after) vf_after(); }

static void setup(void)
{
    gp_ABTI_global = &glob; glob.p_primary_ythread = &primary;
    vf_self = &self; vf_ctx_saved = 0; vf_sw_calls = 0;
    vf_self_pushes = 0; vf_n_blocked_store = 0; vf_n_terminated_store = 0; vf_n_running_store = 0; vf_n_inc = 0; vf_n_dec = 0; vf_n_release = 0; vf_n_link = 0; vf_other_pushes = 0;
    vf_after = NULL; n_cancel = 0; n_migrate = 0; n_free = 0; n_futex_resume = 0; vf_clock = 1;
    xs.p_thread = &self.thread;
    self.thread.type = ABTI_THREAD_TYPE_YIELDABLE | ABTI_THREAD_TYPE_NAMED; self.thread.state.val = ABT_THREAD_STATE_RUNNING;
    self.thread.unit = (ABT_unit)(((uintptr_t)&self.thread) | ABTI_UNIT_BUILTIN_POOL_BIT);
    self.thread.p_last_xstream = &xs; self.thread.p_parent = &parent.thread; self.thread.p_pool = &poolA; self.ctx.ctx.dummy = (void *)1;
    parent.thread.type = ABTI_THREAD_TYPE_YIELDABLE; parent.thread.p_last_xstream = &xs; parent.ctx.ctx.dummy = (void *)1; parent.thread.state.val = ABT_THREAD_STATE_RUNNING;
    target.thread.type = ABTI_THREAD_TYPE_YIELDABLE; target.thread.p_pool = &poolT; target.ctx.p_stacktop = (void *)&target; /* some stack */
    { int started; target.ctx.ctx.dummy = started ? (void *)1 : NULL; }
    /* every ULT owns a stack (lazy stacks are compiled out in this configuration) */
    self.ctx.p_stacktop = (void *)&self; parent.ctx.p_stacktop = (void *)&parent; joiner.ctx.p_stacktop = (void *)&joiner; primary.ctx.p_stacktop = (void *)&primary;
    poolA.is_builtin = ABT_TRUE; poolB.is_builtin = ABT_TRUE; poolT.is_builtin = ABT_TRUE; poolJ.is_builtin = ABT_TRUE;
    { uint32_t rq; VF_ASSUME((rq & ~(ABTI_THREAD_REQ_CANCEL | ABTI_THREAD_REQ_MIGRATE | ABTI_THREAD_REQ_JOIN)) == 0); self.thread.request.val = rq; }
    { int m; mig_ok = m ? 1 : 0; }
    VF_ASSUME(poolA.num_blocked.val >= 0 && poolA.num_blocked.val < 1000 && poolB.num_blocked.val >= 0 && poolB.num_blocked.val < 1000 && poolT.num_blocked.val >= 0 && poolT.num_blocked.val < 1000 && poolJ.num_blocked.val >= 0 && poolJ.num_blocked.val < 1000);
    vf_resumed_on = &xs2;
}
#define REQ_CANCEL (req0 & ABTI_THREAD_REQ_CANCEL)
#define REQ_MIG (req0 & ABTI_THREAD_REQ_MIGRATE)
/* common obligations of a returning switch */
#define SWITCH_COMMON(new_y, cbfn)                                                                          \
    VF_ASSERT(vf_sw_calls == 1 && vf_sw_old == &self.ctx.ctx && vf_sw_new == &(new_y).ctx.ctx, "the model is entered exactly once: old = caller's context, new = the documented next ULT"); \
    VF_ASSERT(vf_sw_cb == (cbfn), "the documented post-switch callback is installed");                        \
    VF_ASSERT(xs.p_thread == &(new_y).thread && (new_y).thread.p_last_xstream == &xs, "who-runs-where is updated to the next ULT before the switch"); \
    VF_ASSERT(p_x == vf_resumed_on, "after resumption the local-stream pointer is reloaded (the ULT may continue on another stream)");

/* the suspend-type callbacks: +1 on the pool the unit belonged to, request
 * handling, then BLOCKED by a release store, then the hand-over action */
#define SUSPEND_COMMON                                                                                      \
    VF_ASSERT(vf_n_inc == 1 && vf_inc_pool == ((REQ_MIG && mig_ok) ? (void *)&poolB : (void *)&poolA), "blocked count +1 exactly once, on the pool the ULT belongs to after request handling (where it will be resumed)"); \
    VF_ASSERT(n_cancel == 0, "a suspending ULT is not terminated by a pending cancel (allow_termination off)");                   \
    VF_ASSERT(n_migrate == (REQ_MIG ? 1 : 0), "a pending migration is handled exactly once");                                      \
    VF_ASSERT(vf_n_blocked_store == 1 && self.thread.state.val == ABT_THREAD_STATE_BLOCKED && vf_self_pushes == 0, "BLOCKED stored exactly once with the release variant; not pushed"); \
    VF_ASSERT(vf_t_save < vf_t_inc && vf_t_inc < vf_t_blocked && (n_migrate == 0 || (vf_t_save < t_req && t_req < vf_t_inc)), "order: context saved < request handling < count +1 < BLOCKED");

void h_suspend(void)
{
    setup(); uint32_t req0 = self.thread.request.val; int a0 = poolA.num_blocked.val; ABTI_xstream *p_x = &xs;
    ABTI_ythread_suspend(&p_x, &self, ABT_SYNC_EVENT_TYPE_USER, NULL);
    SWITCH_COMMON(parent, ABTI_ythread_callback_suspend) SUSPEND_COMMON
    VF_REACH("suspend"); VF_COVER(REQ_MIG && mig_ok, "migrated while suspending");
}
void h_suspend_unlock(void)
{
    setup(); uint32_t req0 = self.thread.request.val; int a0 = poolA.num_blocked.val; ABTI_xstream *p_x = &xs;
    ABTI_ythread_suspend_unlock(&p_x, &self, &lk, ABT_SYNC_EVENT_TYPE_MUTEX, NULL);
    SWITCH_COMMON(parent, ABTI_ythread_callback_suspend_unlock) SUSPEND_COMMON
    VF_ASSERT(vf_n_release == 1 && vf_release_lock == &lk && vf_t_blocked < vf_t_release, "the waiter lock is released exactly once, AFTER the ULT is observable as BLOCKED (a resumer needs the lock)");
    VF_REACH("suspend_unlock");
}
void h_suspend_join(void)
{
    setup(); uint32_t req0 = self.thread.request.val; int a0 = poolA.num_blocked.val; ABTI_xstream *p_x = &xs;
    ABTI_ythread_suspend_join(&p_x, &self, &target, ABT_SYNC_EVENT_TYPE_THREAD_JOIN, NULL);
    SWITCH_COMMON(parent, ABTI_ythread_callback_suspend_join) SUSPEND_COMMON
    VF_ASSERT(vf_n_link == 1 && vf_link_target == &target.ctx.p_link && vf_link_value == &self.ctx && vf_t_blocked < vf_t_link, "the joiner link is release-published exactly once, AFTER BLOCKED (the target may resume the joiner at once)");
    VF_REACH("suspend_join");
}
void h_suspend_replace_sched(void)
{
    setup(); uint32_t req0 = self.thread.request.val; int a0 = poolA.num_blocked.val; ABTI_xstream *p_x = &xs; msched.request.val = 0;
    ABTI_ythread_suspend_replace_sched(&p_x, &self, &msched, ABT_SYNC_EVENT_TYPE_OTHER, NULL);
    SWITCH_COMMON(parent, ABTI_ythread_callback_suspend_replace_sched) SUSPEND_COMMON
    VF_ASSERT(msched.request.val == ABTI_SCHED_REQ_REPLACE, "the main scheduler is asked to replace itself");
    VF_REACH("suspend_replace_sched");
}
void h_suspend_to(void)
{
    setup(); uint32_t req0 = self.thread.request.val; int a0 = poolA.num_blocked.val; ABTI_xstream *p_x = &xs;
    ABTI_ythread_suspend_to(&p_x, &self, &target, ABT_SYNC_EVENT_TYPE_USER, NULL);
    SWITCH_COMMON(target, ABTI_ythread_callback_suspend) SUSPEND_COMMON
    VF_ASSERT(target.thread.p_parent == &parent.thread, "the target runs next as a sibling (same parent)");
    VF_ASSERT((vf_sw_kind == 13) == (target.ctx.ctx.dummy == NULL || vf_sw_kind == 13), "kind"); 
    VF_REACH("suspend_to");
}
void h_resume_suspend_to(void)
{
    setup(); uint32_t req0 = self.thread.request.val; int a0 = poolA.num_blocked.val, t0 = poolT.num_blocked.val; ABTI_xstream *p_x = &xs;
    int same; if (same) target.thread.p_pool = &poolA;
    target.thread.state.val = ABT_THREAD_STATE_BLOCKED; target.ctx.ctx.dummy = (void *)1;
    ABTI_ythread_resume_suspend_to(&p_x, &self, &target, ABT_SYNC_EVENT_TYPE_USER, NULL);
    SWITCH_COMMON(target, ABTI_ythread_callback_resume_suspend_to)
    VF_ASSERT(target.thread.state.val == ABT_THREAD_STATE_RUNNING && vf_n_running_store == 1 && vf_running_who == &target.thread.state, "the resumed target is RUNNING (release store) before it is entered");
    VF_ASSERT(vf_n_blocked_store == 1 && self.thread.state.val == ABT_THREAD_STATE_BLOCKED && vf_self_pushes == 0 && vf_t_save < vf_t_blocked, "caller left BLOCKED, not pushed, after its context is saved");
    if (same && !(REQ_MIG && mig_ok)) VF_ASSERT(vf_n_inc == 0 && vf_n_dec == 0 && poolA.num_blocked.val == a0, "same pool: one unit blocks, one unblocks: count unchanged");
    else if (!same && !(REQ_MIG && mig_ok)) VF_ASSERT(vf_n_inc == 1 && vf_inc_pool == &poolA && vf_n_dec == 1 && vf_dec_pool == &poolT && poolA.num_blocked.val == a0 + 1 && poolT.num_blocked.val == t0 - 1, "different pools: +1 caller's pool, -1 target's pool");
    else VF_ASSERT(vf_n_inc == 1 && vf_inc_pool == &poolB && vf_n_dec == 1 && vf_dec_pool == (same ? (void *)&poolA : (void *)&poolT), "caller migrated while suspending: it is counted in its new pool");
    VF_REACH("resume_suspend_to"); VF_COVER(same, "same pool"); VF_COVER(!same, "different pools");
}

/* yield family: caller READY and pushed back exactly once to ITS pool, unless a
 * pending cancel was honoured (then not pushed) */
#define YIELD_COMMON(ctxval)                                                                                \
    if (REQ_CANCEL) VF_ASSERT(n_cancel == 1 && vf_self_pushes == 0, "cancel pending: the caller is terminated by request handling and not pushed"); \
    else { VF_ASSERT(vf_self_pushes == 1 && vf_push_ctx == (int)(ctxval) && vf_t_save < vf_t_push, "caller pushed back exactly once, after its context is saved, with the documented context flag"); \
           VF_ASSERT(vf_push_pool == ((REQ_MIG && mig_ok) ? (void *)&poolB : (void *)&poolA), "... to its own pool (the NEW pool if a migration request was served)"); \
           VF_ASSERT(self.thread.state.val == ABT_THREAD_STATE_READY, "caller is READY"); }                      \
    VF_ASSERT(vf_n_blocked_store == 0 && vf_n_inc == 0, "a yielding ULT is never counted as blocked");
void h_yield(void)
{
    setup(); uint32_t req0 = self.thread.request.val; ABTI_xstream *p_x = &xs; int loop;
    ABTI_ythread_yield(&p_x, &self, loop ? ABTI_YTHREAD_YIELD_KIND_YIELD_LOOP : ABTI_YTHREAD_YIELD_KIND_USER, ABT_SYNC_EVENT_TYPE_USER, NULL);
    SWITCH_COMMON(parent, loop ? ABTI_ythread_callback_yield_loop : ABTI_ythread_callback_yield_user_yield)
    YIELD_COMMON(loop ? ABT_POOL_CONTEXT_OP_THREAD_YIELD_LOOP : ABT_POOL_CONTEXT_OP_THREAD_YIELD)
    VF_REACH("yield"); VF_COVER(REQ_CANCEL, "cancelled at yield"); VF_COVER(!REQ_CANCEL && REQ_MIG && mig_ok, "migrated at yield");
}
void h_yield_to(void)
{
    setup(); uint32_t req0 = self.thread.request.val; ABTI_xstream *p_x = &xs; int k; VF_ASSUME(0 <= k && k <= 2);
    target.thread.state.val = ABT_THREAD_STATE_READY;
    ABTI_ythread_yield_to(&p_x, &self, &target, k == 0 ? ABTI_YTHREAD_YIELD_TO_KIND_USER : (k == 1 ? ABTI_YTHREAD_YIELD_TO_KIND_CREATE_TO : ABTI_YTHREAD_YIELD_TO_KIND_REVIVE_TO), ABT_SYNC_EVENT_TYPE_USER, NULL);
    SWITCH_COMMON(target, k == 0 ? ABTI_ythread_callback_yield_user_yield_to : (k == 1 ? ABTI_ythread_callback_yield_create_to : ABTI_ythread_callback_yield_revive_to))
    YIELD_COMMON(k == 0 ? ABT_POOL_CONTEXT_OP_THREAD_YIELD_TO : (k == 1 ? ABT_POOL_CONTEXT_OP_THREAD_CREATE_TO : ABT_POOL_CONTEXT_OP_THREAD_REVIVE_TO))
    VF_ASSERT(target.thread.state.val == ABT_THREAD_STATE_RUNNING && vf_running_who == &target.thread.state && target.thread.p_parent == &parent.thread, "the named target runs next on this stream, RUNNING by release store, as a sibling");
    VF_REACH("yield_to");
}
void h_thread_yield_to(void)
{
    setup(); uint32_t req0 = self.thread.request.val; ABTI_xstream *p_x = &xs; int a0 = poolA.num_blocked.val, b0 = poolB.num_blocked.val;
    target.thread.state.val = ABT_THREAD_STATE_READY;
    ABTI_ythread_thread_yield_to(&p_x, &self, &target, ABT_SYNC_EVENT_TYPE_USER, NULL);
    SWITCH_COMMON(target, ABTI_ythread_callback_thread_yield_to)
    if (REQ_CANCEL) VF_ASSERT(n_cancel == 1 && vf_self_pushes == 0, "cancelled"); else { VF_ASSERT(vf_self_pushes == 1 && vf_push_ctx == (int)ABT_POOL_CONTEXT_OP_THREAD_YIELD_TO && vf_t_save < vf_t_push, "pushed once, after its context is saved");
        VF_ASSERT(vf_push_pool == ((REQ_MIG && mig_ok) ? (void *)&poolB : (void *)&poolA), "... to its own pool: the NEW pool if a migration request was served in this switch (the next scheduling goes through the requested pool)");
        VF_ASSERT(self.thread.state.val == ABT_THREAD_STATE_READY, "caller is READY"); }
    VF_ASSERT(vf_n_dec == 1 && vf_dec_pool == &poolA && poolA.num_blocked.val == a0 - 1 && poolB.num_blocked.val == b0, "the caller's pre-increment is undone on the ORIGINAL pool (read before request handling), even if the unit migrated");
    VF_ASSERT(REQ_CANCEL || vf_t_push < vf_t_dec, "decrement after the push (the pool never looks empty in between)");
    VF_REACH("thread_yield_to");
}
void h_resume_yield_to(void)
{
    setup(); uint32_t req0 = self.thread.request.val; ABTI_xstream *p_x = &xs; int t0 = poolT.num_blocked.val;
    target.thread.state.val = ABT_THREAD_STATE_BLOCKED; target.ctx.ctx.dummy = (void *)1;
    ABTI_ythread_resume_yield_to(&p_x, &self, &target, ABTI_YTHREAD_RESUME_YIELD_TO_KIND_USER, ABT_SYNC_EVENT_TYPE_USER, NULL);
    SWITCH_COMMON(target, ABTI_ythread_callback_resume_yield_to)
    YIELD_COMMON(ABT_POOL_CONTEXT_OP_THREAD_RESUME_YIELD_TO)
    VF_ASSERT(target.thread.state.val == ABT_THREAD_STATE_RUNNING && vf_n_dec == 1 && vf_dec_pool == &poolT && poolT.num_blocked.val == t0 - 1, "the blocked target runs next; its pool's blocked count -1 exactly once");
    VF_REACH("resume_yield_to"); VF_COVER(!REQ_CANCEL && REQ_MIG && mig_ok, "caller migrated: still pushed");
}
void h_yield_orphan(void)
{
    setup(); ABTI_xstream *p_x = &xs; self.thread.request.val = 0;
    ABTI_ythread_yield_orphan(&p_x, &self, ABT_SYNC_EVENT_TYPE_USER, NULL);
    SWITCH_COMMON(parent, ABTI_ythread_callback_orphan)
    VF_ASSERT(vf_self_pushes == 0 && vf_n_blocked_store == 0 && vf_n_inc == 0, "an orphaned ULT is neither pushed nor counted");
    VF_REACH("yield_orphan");
}

/* resume = READY + exactly one push to the pool read BEFORE the push + exactly
 * one decrement of THAT pool AFTER the push */
void h_resume_and_push(void)
{
    setup(); vf_self = &target; /* the resumed ULT is not the caller: publication rule does not apply */
    target.thread.state.val = ABT_THREAD_STATE_BLOCKED; int t0 = poolT.num_blocked.val;
    vf_self = &self;
    ABTI_ythread_resume_and_push((ABTI_local *)&xs, &target);
    VF_ASSERT(vf_other_pushes == 1 && vf_other_pushed == &target.thread && vf_other_push_pool == &poolT && vf_other_push_ctx == (int)ABT_POOL_CONTEXT_OP_THREAD_RESUME, "exactly one push of the resumed ULT to its pool");
    VF_ASSERT(vf_n_dec == 1 && vf_dec_pool == &poolT && poolT.num_blocked.val == t0 - 1, "exactly one decrement, of the pool the ULT was pushed to (read before the push: afterwards the field is unstable)");
    VF_ASSERT(vf_t_other_push < vf_t_dec, "decrement AFTER the push: the pool is never empty with count 0 while the unit is in flight");
    VF_REACH("resume_and_push");
}

void h_run_child(void)
{
    setup(); vf_self = &parent; xs.p_thread = &parent.thread; ABTI_xstream *p_x = &xs; /* the scheduler (parent) switches to a child */
    parent.thread.p_last_xstream = &xs; target.thread.state.val = ABT_THREAD_STATE_READY;
    ABTI_ythread_run_child(&p_x, &parent, &target);
    VF_ASSERT(vf_sw_calls == 1 && vf_sw_old == &parent.ctx.ctx && vf_sw_new == &target.ctx.ctx && vf_sw_cb == NULL, "switch to the child, no callback");
    VF_ASSERT(target.thread.state.val == ABT_THREAD_STATE_RUNNING && vf_running_who == &target.thread.state && target.thread.p_parent == &parent.thread && target.thread.p_last_xstream == &xs, "child RUNNING (release store), parent link and stream recorded before the switch");
    VF_ASSERT((vf_sw_kind == 11) == (vf_sw_entry != NULL) && (vf_sw_kind == 11 ? vf_sw_stacktop == target.ctx.p_stacktop : vf_sw_kind == 1), "a never-started child is entered through the wrapper on its own stack top");
    VF_REACH("run_child"); VF_COVER(vf_sw_kind == 11, "first start"); VF_COVER(vf_sw_kind == 1, "resumption");
}

/* C06: the blocked-unit count is BALANCED: what a suspend adds to a pool, the
 * matching resume takes from the same pool -- also when a migration request is
 * served while the ULT suspends. */
void h_suspend_resume_balance(void)
{
    setup(); int a0 = poolA.num_blocked.val, b0 = poolB.num_blocked.val; ABTI_xstream *p_x = &xs; int which; VF_ASSUME(0 <= which && which <= 2);
    self.thread.request.val &= ~ABTI_THREAD_REQ_CANCEL;
    if (which == 0) ABTI_ythread_suspend(&p_x, &self, ABT_SYNC_EVENT_TYPE_USER, NULL);
    else if (which == 1) ABTI_ythread_suspend_unlock(&p_x, &self, &lk, ABT_SYNC_EVENT_TYPE_MUTEX, NULL);
    else ABTI_ythread_suspend_join(&p_x, &self, &target, ABT_SYNC_EVENT_TYPE_THREAD_JOIN, NULL);
    /* some other ULT resumes it */
    VF_ASSERT(self.thread.state.val == ABT_THREAD_STATE_BLOCKED, "suspended");
    ABTI_ythread_resume_and_push((ABTI_local *)&xs2, &self);
    VF_ASSERT(poolA.num_blocked.val == a0 && poolB.num_blocked.val == b0, "after suspend + resume every pool's blocked count is what it was (zero when nobody is blocked, never negative)");
    VF_REACH("suspend/resume balance"); VF_COVER(n_migrate == 1 && mig_ok, "with a migration served in between");
}

/* ---------------- exit family (never return) ---------------- */
/* the joiner hand-shake of the exiting ULT is taken by contract here (verified
 * in unit sw_atomic_get_joiner): NULL or the ULT that joins self */
static ABTI_ythread *vf_joiner_choice;
static inline ABTI_ythread *ABTI_ythread_atomic_get_joiner(ABTI_ythread *p_ythread)
__CPROVER_assigns() __CPROVER_ensures(__CPROVER_pointer_equals(__CPROVER_return_value, vf_joiner_choice));

static int a0_, j0_, t0_;
#define EXIT_TERMINATED                                                                                        \
    VF_ASSERT(vf_n_terminated_store == 1 && self.thread.state.val == ABT_THREAD_STATE_TERMINATED && vf_t_save < vf_t_terminated, "caller TERMINATED exactly once (release store), after it has left its stack"); \
    VF_ASSERT(vf_self_pushes == 0 && vf_n_blocked_store == 0, "a terminated ULT is neither pushed nor blocked");
static void h_after_exit(void)
{
    VF_ASSERT(vf_sw_calls == 1 && vf_sw_cb == ABTI_ythread_callback_exit && vf_sw_cb_arg == &self, "one jump with the exit callback on the caller");
    EXIT_TERMINATED
    if (vf_joiner_choice == NULL) {
        VF_ASSERT(vf_sw_new == &parent.ctx.ctx && xs.p_thread == &parent.thread && vf_other_pushes == 0 && n_futex_resume == 0 && vf_n_dec == 0, "no joiner: back to the parent (scheduler), nobody woken");
    } else if (joiner.thread.type == ABTI_THREAD_TYPE_EXT) {
        VF_ASSERT(n_futex_resume == 1 && vf_other_pushes == 0 && vf_sw_new == &parent.ctx.ctx, "external-thread joiner: woken through its futex exactly once; then back to the parent");
    } else if (joiner.thread.p_last_xstream == &xs && !(self.thread.type & ABTI_THREAD_TYPE_MAIN_SCHED)) {
        VF_ASSERT(vf_sw_new == &joiner.ctx.ctx && xs.p_thread == &joiner.thread && joiner.thread.state.val == ABT_THREAD_STATE_RUNNING, "joiner on the same stream: direct jump, joiner RUNNING");
        VF_ASSERT(vf_n_dec == 1 && vf_dec_pool == &poolJ && poolJ.num_blocked.val == j0_ - 1 && vf_other_pushes == 0 && n_futex_resume == 0, "... its pool's blocked count -1 exactly once, not pushed as well");
    } else {
        VF_ASSERT(vf_other_pushes == 1 && vf_other_pushed == &joiner.thread && vf_n_dec == 1 && vf_dec_pool == &poolJ && vf_sw_new == &parent.ctx.ctx, "joiner elsewhere (or exiting main scheduler): resumed by push exactly once; then back to the parent");
        VF_ASSERT(vf_t_other_push < vf_t_save, "the joiner is woken BEFORE the exiting ULT leaves its stack only by push (it cannot run this ULT's stack); termination follows after the jump");
    }
    VF_REACH("exit checked");
    VF_COVER(vf_joiner_choice && joiner.thread.type != ABTI_THREAD_TYPE_EXT && joiner.thread.p_last_xstream == &xs, "direct hand-over"); VF_COVER(vf_joiner_choice && joiner.thread.type == ABTI_THREAD_TYPE_EXT, "external joiner"); VF_COVER(!vf_joiner_choice, "no joiner");
}
static void setup_joiner(void)
{
    int has; vf_joiner_choice = has ? &joiner : NULL;
    int ext; joiner.thread.type = ext ? ABTI_THREAD_TYPE_EXT : ABTI_THREAD_TYPE_YIELDABLE;
    joiner.thread.p_arg = &jfutex; joiner.thread.p_pool = &poolJ; joiner.thread.state.val = ABT_THREAD_STATE_BLOCKED; joiner.ctx.ctx.dummy = (void *)1;
    int samexs; joiner.thread.p_last_xstream = samexs ? &xs : &xs2;
    j0_ = poolJ.num_blocked.val;
    int ms; if (ms) self.thread.type |= ABTI_THREAD_TYPE_MAIN_SCHED;
}
void h_exit(void)
{
    setup(); setup_joiner(); vf_after = h_after_exit;
    ABTI_ythread_exit(&xs, &self);
    VF_ASSERT(0, "ABTI_ythread_exit never returns");
}
static void h_after_exit_to(void)
{
    VF_ASSERT(vf_sw_calls == 1 && vf_sw_cb == ABTI_ythread_callback_exit && vf_sw_cb_arg == &self && vf_sw_new == &target.ctx.ctx, "one jump to the named target with the exit callback");
    EXIT_TERMINATED
    VF_ASSERT(target.thread.state.val == ABT_THREAD_STATE_RUNNING && xs.p_thread == &target.thread && target.thread.p_parent == &parent.thread, "the named target runs next on this stream");
    if (vf_joiner_choice == NULL) VF_ASSERT(vf_other_pushes == 0 && n_futex_resume == 0, "no joiner: nobody woken");
    else if (joiner.thread.type == ABTI_THREAD_TYPE_EXT) VF_ASSERT(n_futex_resume == 1 && vf_other_pushes == 0, "external joiner woken once");
    else VF_ASSERT(vf_other_pushes == 1 && vf_other_pushed == &joiner.thread && vf_n_dec == 1 && vf_dec_pool == &poolJ, "ULT joiner resumed by push exactly once (never entered directly: the caller wants the target)");
    VF_REACH("exit_to checked");
}
void h_exit_to(void)
{
    setup(); setup_joiner(); vf_after = h_after_exit_to; target.thread.state.val = ABT_THREAD_STATE_READY;
    /* resume_joiner uses the real ABTI_ythread_resume_joiner on top of the contract above */
    ABTI_ythread_exit_to(&xs, &self, &target);
    VF_ASSERT(0, "never returns");
}
static void h_after_resume_exit_to(void)
{
    VF_ASSERT(vf_sw_calls == 1 && vf_sw_cb == ABTI_ythread_callback_resume_exit_to && vf_sw_new == &target.ctx.ctx, "one jump to the blocked target with the resume-exit callback");
    EXIT_TERMINATED
    VF_ASSERT(target.thread.state.val == ABT_THREAD_STATE_RUNNING && xs.p_thread == &target.thread, "the resumed target runs next on this stream");
    VF_ASSERT(poolT.num_blocked.val == t0_ - 1, "the target's pool: blocked count -1 exactly once");
    VF_REACH("resume_exit_to checked");
}
void h_resume_exit_to(void)
{
    setup(); setup_joiner(); vf_after = h_after_resume_exit_to; target.thread.state.val = ABT_THREAD_STATE_BLOCKED; target.ctx.ctx.dummy = (void *)1; t0_ = poolT.num_blocked.val;
    if (vf_joiner_choice && joiner.thread.type != ABTI_THREAD_TYPE_EXT) joiner.thread.p_pool = &poolJ;
    ABTI_ythread_resume_exit_to(&xs, &self, &target);
    VF_ASSERT(0, "never returns");
}
static void h_after_exit_to_primary(void)
{
    VF_ASSERT(vf_sw_calls == 1 && vf_sw_cb == ABTI_ythread_callback_exit && vf_sw_cb_arg == &self && vf_sw_new == &primary.ctx.ctx, "one jump to the primary ULT with the exit callback");
    EXIT_TERMINATED
    VF_ASSERT(primary.thread.state.val == ABT_THREAD_STATE_RUNNING && xs.p_thread == &primary.thread && primary.thread.p_last_xstream == &xs, "the primary ULT runs next on this stream");
    VF_REACH("exit_to_primary checked");
}
void h_exit_to_primary(void)
{
    setup(); vf_after = h_after_exit_to_primary; primary.thread.type = ABTI_THREAD_TYPE_YIELDABLE; primary.ctx.ctx.dummy = (void *)1; primary.thread.state.val = ABT_THREAD_STATE_BLOCKED;
    ABTI_ythread_exit_to_primary(&glob, &xs, &self);
    VF_ASSERT(0, "never returns");
}

/* C03/C12: wake-up of the joiner when the target is cancelled / exits to another ULT */
void h_resume_joiner(void)
{
    setup(); setup_joiner(); int j0 = poolJ.num_blocked.val;
    ABTI_ythread_resume_joiner(&xs, &self);
    if (vf_joiner_choice == NULL) VF_ASSERT(n_futex_resume == 0 && vf_other_pushes == 0 && vf_n_dec == 0, "no joiner: nobody woken");
    else if (joiner.thread.type == ABTI_THREAD_TYPE_EXT) VF_ASSERT(n_futex_resume == 1 && vf_other_pushes == 0 && vf_n_dec == 0, "external-thread joiner: released through its futex exactly once (never pushed: it is not a work unit)");
    else VF_ASSERT(n_futex_resume == 0 && vf_other_pushes == 1 && vf_other_pushed == &joiner.thread && vf_n_dec == 1 && vf_dec_pool == &poolJ && poolJ.num_blocked.val == j0 - 1, "ULT joiner: resumed by push exactly once, its pool's blocked count -1");
    VF_REACH("resume_joiner"); VF_COVER(vf_joiner_choice && joiner.thread.type == ABTI_THREAD_TYPE_EXT, "external");
}
