/* C18 / C01: thread.c -- the public creation wrappers on top of ythread_create
 * (its own unit: ythread_create): ABT_thread_create, ABT_thread_create_on_xstream
 * and ABT_thread_create_many for ANY number of ULTs.
 * ythread_create by contract: it either fails (ABT_ERR_MEM; its output parameter
 * is NOT written -- that is what the real function does, see unit
 * ythread_create) or succeeds and hands out a new ULT.
 * Obligations: the wrapper passes the caller's pool / function / argument /
 * attribute through unchanged, asks for a NAMED ULT iff a handle is wanted,
 * pushes (THREAD_POOL_OP_PUSH); on success the output handle is the new ULT; on
 * failure it is ABT_THREAD_NULL (1.x API of the single-ULT calls) or left
 * untouched -- never a value that was not produced by a successful creation.
 * create_many, ghost-index form (entry number vf_k is arbitrary): entry k is
 * created from pool_list[k], thread_func_list[k], arg_list[k] exactly once
 * unless an earlier entry failed; newthread_list[k] is the new handle iff entry
 * k was created, and UNTOUCHED otherwise. */
#include "vf.h"
struct ABTI_ythread; struct ABTI_ythread *vf_yk, *vf_ys;
long vf_calls, vf_k, vf_fail_at; unsigned vf_k_created, vf_bad; void *vf_out0; /* newthread_list[k] before the call */ const void *vf_exp_attr;
const void *vf_a_pool, *vf_a_arg, *vf_a_attr, *vf_a_sched; void (*vf_a_func)(void *); unsigned vf_a_type; int vf_a_op; size_t vf_a_stacksize; const void *vf_a_ustack; /* arguments of call number vf_k */
#include "abti.h"
ABTI_global *gp_ABTI_global; ABTD_XSTREAM_LOCAL ABTI_local *lp_ABTI_local;
#include <thread.c>
ABTU_ret_err static inline int ythread_create(ABTI_global *p_global, ABTI_local *p_local, ABTI_pool *p_pool, void (*thread_func)(void *), void *arg, ABTI_thread_attr *p_attr,
                                              ABTI_thread_type thread_type, ABTI_sched *p_sched, thread_pool_op_kind pool_op, ABTI_ythread **pp_newthread)
__CPROVER_requires(vf_calls >= 0 && vf_calls < 2000000)
__CPROVER_assigns(*pp_newthread, vf_calls, vf_k_created, vf_a_pool, vf_a_arg, vf_a_attr, vf_a_sched, vf_a_func, vf_a_type, vf_a_op, vf_a_stacksize, vf_a_ustack)
__CPROVER_ensures(vf_calls == __CPROVER_old(vf_calls) + 1)
__CPROVER_ensures(__CPROVER_return_value == (__CPROVER_old(vf_calls) == vf_fail_at ? ABT_ERR_MEM : ABT_SUCCESS))
__CPROVER_ensures(__CPROVER_old(vf_calls) == vf_fail_at ==> *pp_newthread == __CPROVER_old(*pp_newthread)) /* a failed creation does not write its output */
__CPROVER_ensures((__CPROVER_old(vf_calls) != vf_fail_at && __CPROVER_old(vf_calls) == vf_k) ==> __CPROVER_pointer_equals(*pp_newthread, vf_yk))
__CPROVER_ensures((__CPROVER_old(vf_calls) != vf_fail_at && __CPROVER_old(vf_calls) != vf_k) ==> __CPROVER_pointer_equals(*pp_newthread, vf_ys))
__CPROVER_ensures(vf_k_created == ((__CPROVER_old(vf_calls) == vf_k && vf_k != vf_fail_at && __CPROVER_old(vf_k_created) < 2) ? __CPROVER_old(vf_k_created) + 1 : __CPROVER_old(vf_k_created)))
__CPROVER_ensures(__CPROVER_old(vf_calls) == vf_k ? (vf_a_pool == p_pool && vf_a_arg == arg && vf_a_attr == p_attr && vf_a_sched == p_sched && vf_a_func == thread_func && vf_a_type == (unsigned)thread_type && vf_a_op == (int)pool_op && vf_a_stacksize == (p_attr ? p_attr->stacksize : (size_t)0) && vf_a_ustack == (p_attr ? p_attr->p_stack : NULL))
                                                  : (vf_a_pool == __CPROVER_old(vf_a_pool) && vf_a_arg == __CPROVER_old(vf_a_arg) && vf_a_attr == __CPROVER_old(vf_a_attr) && vf_a_sched == __CPROVER_old(vf_a_sched) && vf_a_func == __CPROVER_old(vf_a_func) && vf_a_type == __CPROVER_old(vf_a_type) && vf_a_op == __CPROVER_old(vf_a_op) && vf_a_stacksize == __CPROVER_old(vf_a_stacksize) && vf_a_ustack == __CPROVER_old(vf_a_ustack)));

/* thread_revive and the directed switch by recording contracts (their own units: thread_revive, sw_yield_to) */
unsigned vf_revives, vf_yields_to; int vf_rev_fail; const void *vf_r_pool, *vf_r_arg, *vf_r_thread, *vf_y_self, *vf_y_target; void (*vf_r_func)(void *); int vf_r_op, vf_y_kind; unsigned vf_y_after_revive; const void *vf_out_at_yield; ABT_thread *vf_outp;
ABTU_ret_err static inline int thread_revive(ABTI_global *p_global, ABTI_local *p_local, ABTI_pool *p_pool, void (*thread_func)(void *), void *arg, thread_pool_op_kind pool_op, ABTI_thread *p_thread)
__CPROVER_assigns(vf_revives, vf_r_pool, vf_r_arg, vf_r_thread, vf_r_func, vf_r_op)
__CPROVER_ensures(vf_revives == __CPROVER_old(vf_revives) + 1 && vf_r_pool == p_pool && vf_r_arg == arg && vf_r_thread == p_thread && vf_r_func == thread_func && vf_r_op == (int)pool_op)
__CPROVER_ensures(__CPROVER_return_value == (vf_rev_fail ? ABT_ERR_MEM : ABT_SUCCESS));
static inline void ABTI_ythread_yield_to(ABTI_xstream **pp_local_xstream, ABTI_ythread *p_self, ABTI_ythread *p_target, ABTI_ythread_yield_to_kind kind, ABT_sync_event_type sync_event_type, void *p_sync)
__CPROVER_assigns(vf_yields_to, vf_y_self, vf_y_target, vf_y_kind, vf_out_at_yield)
__CPROVER_ensures(vf_yields_to == __CPROVER_old(vf_yields_to) + 1 && vf_y_self == p_self && vf_y_target == p_target && vf_y_kind == (int)kind && vf_out_at_yield == (vf_outp ? (const void *)*vf_outp : NULL));

static ABTI_global glob; static ABTI_xstream xs, xtarget; static ABTI_thread selft; static ABTI_ythread YK, YS; static ABTI_pool pool, mainpool; static ABTI_sched msched; static ABTI_thread_attr attrobj;
static void work(void *a) { } static int arg_dummy_;
static void setup(void) { gp_ABTI_global = &glob; { int e; if (e) lp_ABTI_local = NULL; else { lp_ABTI_local = (ABTI_local *)&xs; xs.p_thread = &selft; } } vf_yk = &YK; vf_ys = &YS; vf_calls = 0; vf_k_created = 0; vf_bad = 0; }

void h_api_create(void)
{
    setup(); vf_k = 0; { int f; vf_fail_at = f ? 0 : -1; }
    int on_x, want, nullh, witha; ABT_thread out = (ABT_thread)0x55; int arg; ABT_thread_attr attr = witha ? (ABT_thread_attr)&attrobj : ABT_THREAD_ATTR_NULL;
    static ABT_pool mp[1]; mp[0] = (ABT_pool)&mainpool; msched.pools = mp; msched.num_pools = 1; xtarget.p_main_sched = &msched;
    int r = on_x ? ABT_thread_create_on_xstream(nullh ? ABT_XSTREAM_NULL : (ABT_xstream)&xtarget, work, &arg, attr, want ? &out : NULL)
                 : ABT_thread_create(nullh ? ABT_POOL_NULL : (ABT_pool)&pool, work, &arg, attr, want ? &out : NULL);
    if (nullh) { VF_ASSERT(r == (on_x ? ABT_ERR_INV_XSTREAM : ABT_ERR_INV_POOL) && vf_calls == 0 && (!want || out == ABT_THREAD_NULL), "an invalid target: refused, nothing created, NULL handle"); VF_REACH("null target"); return; }
    VF_ASSERT(vf_calls == 1 && vf_a_pool == (on_x ? (void *)&mainpool : (void *)&pool) && vf_a_func == work && vf_a_arg == &arg && vf_a_attr == (witha ? (void *)&attrobj : NULL) && vf_a_sched == NULL && vf_a_op == (int)THREAD_POOL_OP_PUSH,
              "one creation, with the caller's pool (the stream's first main pool), function, argument and attribute, pushed to the pool, not a scheduler");
    VF_ASSERT(vf_a_type == (want ? (unsigned)(ABTI_THREAD_TYPE_YIELDABLE | ABTI_THREAD_TYPE_NAMED) : (unsigned)ABTI_THREAD_TYPE_YIELDABLE), "a named ULT (kept until freed) iff the caller asks for the handle");
    if (vf_fail_at == 0) VF_ASSERT(r == ABT_ERR_MEM && (!want || out == ABT_THREAD_NULL), "failed creation: the error and the NULL handle");
    else VF_ASSERT(r == ABT_SUCCESS && (!want || out == (ABT_thread)&YK), "success: the handle of the new ULT");
    VF_REACH("api create"); VF_COVER(on_x && r == ABT_SUCCESS, "on a stream"); VF_COVER(!on_x && vf_fail_at == 0 && want, "failed");
}

void h_api_create_many_any(void)
{
    setup();
    int n; VF_ASSUME(n <= (1 << 20)); size_t m = n > 0 ? (size_t)n : 1;
    ABT_pool *pools = malloc(m * sizeof(ABT_pool)); void (**funcs)(void *) = malloc(m * sizeof(*funcs)); void **args = malloc(m * sizeof(void *)); ABT_thread *outs = malloc(m * sizeof(ABT_thread));
    if (!pools || !funcs || !args || !outs) return;
    { long k; VF_ASSUME(0 <= k && (n > 0 ? k < n : k == 0)); vf_k = k; } { long f; VF_ASSUME(f >= -1 && f <= (1 << 20)); vf_fail_at = f; }
    int witha, withargs, withouts; ABT_thread_attr attr = witha ? (ABT_thread_attr)&attrobj : ABT_THREAD_ATTR_NULL; int ustack; attrobj.p_stack = ustack ? (void *)&arg_dummy_ : NULL;
    ABT_pool pk = pools[vf_k]; void (*fk)(void *) = funcs[vf_k]; void *ak = args[vf_k]; ABT_thread out0 = outs[vf_k]; vf_out0 = out0; vf_exp_attr = witha ? (void *)&attrobj : NULL;
    int r = ABT_thread_create_many(n, pools, funcs, withargs ? args : NULL, attr, withouts ? outs : NULL);
    if (witha && ustack) { VF_ASSERT(r == ABT_ERR_INV_THREAD_ATTR && vf_calls == 0 && outs[vf_k] == out0, "one user stack cannot serve many ULTs: refused, nothing created, outputs untouched"); VF_REACH("user stack refused"); goto done; }
    VF_ASSERT(vf_k_created <= 1, "entry k (any k) is created at most once");
    if (r == ABT_SUCCESS && n > 0) VF_ASSERT(vf_k_created == 1, "success: every entry was created");
    if (vf_k_created) {
        VF_ASSERT(vf_a_pool == (void *)pk && pk != ABT_POOL_NULL && vf_a_func == fk && vf_a_arg == (withargs ? ak : NULL) && vf_a_attr == (witha ? (void *)&attrobj : NULL) && vf_a_sched == NULL && vf_a_op == (int)THREAD_POOL_OP_PUSH,
                  "entry k is created from pool_list[k], thread_func_list[k], arg_list[k] (NULL without an argument list), the shared attribute, and pushed");
        VF_ASSERT(vf_a_type == (withouts ? (unsigned)(ABTI_THREAD_TYPE_YIELDABLE | ABTI_THREAD_TYPE_NAMED) : (unsigned)ABTI_THREAD_TYPE_YIELDABLE), "named iff handles are wanted");
        VF_ASSERT(outs[vf_k] == (withouts ? (ABT_thread)&YK : out0), "its handle is stored in newthread_list[k] (nothing is written without a handle list)");
    } else
        VF_ASSERT(outs[vf_k] == out0, "an entry that was not created (its own creation failed, or an earlier entry failed) leaves newthread_list[k] UNTOUCHED: never a value no successful creation produced");
    VF_ASSERT(r == ABT_SUCCESS || r == ABT_ERR_MEM || r == ABT_ERR_INV_POOL, "error codes");
    VF_REACH("create_many any"); VF_COVER(r == ABT_ERR_MEM && withouts && vf_fail_at == vf_k && vf_k == 3, "entry k's own creation fails"); VF_COVER(r == ABT_SUCCESS && n > 5 && withouts, "long list"); VF_COVER(r == ABT_ERR_INV_POOL, "NULL pool in the list");
done:
    free(pools); free(funcs); free(args); free(outs);
}

/* ABT_thread_revive / ABT_thread_revive_to / ABT_thread_create_to */
void h_api_revive(void)
{
    setup(); vf_k = 0; vf_revives = vf_yields_to = 0; { int f; vf_rev_fail = !!f; vf_fail_at = f ? 0 : -1; } vf_outp = NULL;
    static ABTI_ythread selfy, tgty; static ABTI_thread tgtt; int which; VF_ASSUME(0 <= which && which <= 2); /* 0 revive, 1 revive_to, 2 create_to */
    int caller; VF_ASSUME(0 <= caller && caller <= 3); /* 0 external, 1 tasklet, 2 ULT, 3 main-scheduler ULT */
    if (caller == 0) lp_ABTI_local = NULL; else { lp_ABTI_local = (ABTI_local *)&xs; xs.p_thread = caller == 1 ? &selft : &selfy.thread; selft.type = 0; selfy.thread.type = ABTI_THREAD_TYPE_YIELDABLE | (caller == 3 ? ABTI_THREAD_TYPE_MAIN_SCHED : 0); }
    int tk; VF_ASSUME(0 <= tk && tk <= 2); /* target: NULL handle, a ULT, a tasklet */ ABTI_thread *tp = tk == 1 ? &tgty.thread : &tgtt; tgty.thread.type = ABTI_THREAD_TYPE_YIELDABLE | ABTI_THREAD_TYPE_NAMED; tgtt.type = ABTI_THREAD_TYPE_NAMED;
    int st; tp->state.val = st; int nullpool; ABT_pool ph = nullpool ? ABT_POOL_NULL : (ABT_pool)&pool; int arg; ABT_thread h = tk == 0 ? ABT_THREAD_NULL : (ABT_thread)tp; ABT_thread h0 = h;
    int r; int want;
    if (which == 0) r = ABT_thread_revive(ph, work, &arg, &h);
    else if (which == 1) r = ABT_thread_revive_to(ph, work, &arg, &h);
    else { h = (ABT_thread)0x55; h0 = h; vf_outp = want ? &h : NULL; r = ABT_thread_create_to(ph, work, &arg, ABT_THREAD_ATTR_NULL, want ? &h : NULL); }
    int needs_ult = which != 0;
    if (needs_ult && caller == 0) { VF_ASSERT(r == ABT_ERR_INV_XSTREAM && vf_revives + vf_calls + vf_yields_to == 0 && h == h0, "a directed switch from an external thread: refused, nothing done"); VF_REACH("ext"); return; }
    if (needs_ult && (caller == 1 || caller == 3)) { VF_ASSERT(r == ABT_ERR_INV_THREAD && vf_revives + vf_calls + vf_yields_to == 0 && h == h0, "a tasklet or a main scheduler cannot switch to another ULT: refused, nothing done"); VF_REACH("not a plain ULT"); return; }
    if (which != 2) {
        int bad_target = tk == 0 || st != ABT_THREAD_STATE_TERMINATED || (which == 1 && tk == 2);
        if (bad_target) { VF_ASSERT(r == ABT_ERR_INV_THREAD && vf_revives == 0 && vf_yields_to == 0 && h == h0 && (tk == 0 || tp->state.val == st), "revive only from TERMINATED (and revive_to only of a ULT): anything else is refused with the work unit untouched"); VF_REACH("bad target"); return; }
        if (nullpool) { VF_ASSERT(r == ABT_ERR_INV_POOL && vf_revives == 0 && vf_yields_to == 0, "NULL pool refused, nothing done"); VF_REACH("null pool"); return; }
        VF_ASSERT(vf_revives == 1 && vf_r_thread == tp && vf_r_pool == &pool && vf_r_func == work && vf_r_arg == &arg && vf_r_op == (int)(which == 0 ? THREAD_POOL_OP_PUSH : THREAD_POOL_OP_INIT), "one revival of THIS work unit with the caller's pool, function and argument: pushed (revive) or only associated (revive_to: the caller switches to it directly)");
        VF_ASSERT(r == (vf_rev_fail ? ABT_ERR_MEM : ABT_SUCCESS) && h == h0, "the revival's result is the call's result; the handle is kept");
        VF_ASSERT(vf_yields_to == ((which == 1 && !vf_rev_fail) ? 1u : 0u) && (!vf_yields_to || (vf_y_self == &selfy && vf_y_target == &tgty && vf_y_kind == (int)ABTI_YTHREAD_YIELD_TO_KIND_REVIVE_TO)), "revive_to switches to the revived ULT exactly once, only after a successful revival; revive never switches");
        VF_REACH("revive"); VF_COVER(which == 1 && vf_yields_to == 1, "revive_to switched"); VF_COVER(which == 0 && tk == 2 && r == ABT_SUCCESS, "tasklet revived");
    } else {
        if (nullpool) { VF_ASSERT(r == ABT_ERR_INV_POOL && vf_calls == 0 && vf_yields_to == 0 && h == h0, "NULL pool refused, nothing created"); VF_REACH("create_to null pool"); return; }
        VF_ASSERT(vf_calls == 1 && vf_a_pool == &pool && vf_a_func == work && vf_a_arg == &arg && vf_a_attr == NULL && vf_a_sched == NULL && vf_a_op == (int)THREAD_POOL_OP_INIT && vf_a_type == (want ? (unsigned)(ABTI_THREAD_TYPE_YIELDABLE | ABTI_THREAD_TYPE_NAMED) : (unsigned)ABTI_THREAD_TYPE_YIELDABLE), "one creation, associated with the pool but NOT pushed (the caller switches to it directly)");
        if (vf_fail_at == 0) VF_ASSERT(r == ABT_ERR_MEM && vf_yields_to == 0 && h == h0, "failed creation: error, no switch, the output untouched");
        else VF_ASSERT(r == ABT_SUCCESS && vf_yields_to == 1 && vf_y_self == &selfy && vf_y_target == &YK && vf_y_kind == (int)ABTI_YTHREAD_YIELD_TO_KIND_CREATE_TO && (!want || (h == (ABT_thread)&YK && vf_out_at_yield == (void *)&YK)), "success: the handle is stored BEFORE the switch (the new ULT may use it), then exactly one switch to the new ULT");
        VF_REACH("create_to"); VF_COVER(r == ABT_SUCCESS && want, "created and switched");
    }
}

/* the runtime's own ULTs: primary ULT, root ULT, main-scheduler ULT, stackable-scheduler ULT */
void h_create_internal(void)
{
    setup(); vf_k = 0; { int f; vf_fail_at = f ? 0 : -1; } lp_ABTI_local = NULL;
    int which; VF_ASSUME(0 <= which && which <= 3); static ABTI_sched sc; static ABT_pool mp[1]; mp[0] = (ABT_pool)&mainpool; msched.pools = mp; msched.num_pools = 1; xtarget.p_main_sched = &msched; xtarget.p_root_pool = &pool;
    { size_t ss; glob.sched_stacksize = ss; } { int pr; xtarget.type = pr ? ABTI_XSTREAM_TYPE_PRIMARY : ABTI_XSTREAM_TYPE_SECONDARY; }
    ABTI_ythread *out = (ABTI_ythread *)0x40; ABTI_ythread *sy0 = (ABTI_ythread *)0x48; sc.p_ythread = sy0; void (*runf)(ABT_sched); sc.run = runf;
    int r = which == 0 ? ABTI_ythread_create_primary(&glob, NULL, &xtarget, &out) : which == 1 ? ABTI_ythread_create_root(&glob, NULL, &xtarget, &out)
          : which == 2 ? ABTI_ythread_create_main_sched(&glob, NULL, &xtarget, &sc) : ABTI_ythread_create_sched(&glob, NULL, &pool, &sc);
    ABTI_ythread *got = which <= 1 ? out : sc.p_ythread; ABTI_ythread *before = which <= 1 ? (ABTI_ythread *)0x40 : sy0;
    VF_ASSERT(vf_calls == 1 && vf_a_ustack == NULL && vf_a_attr != NULL, "one creation, never on a user-provided stack");
    VF_ASSERT(r == (vf_fail_at == 0 ? ABT_ERR_MEM : ABT_SUCCESS) && got == (vf_fail_at == 0 ? before : &YK), "failure: the error, the output (the scheduler's ULT link) untouched; success: the new ULT");
    if (which == 0) VF_ASSERT(vf_a_pool == &mainpool && vf_a_type == (unsigned)(ABTI_THREAD_TYPE_YIELDABLE | ABTI_THREAD_TYPE_PRIMARY) && vf_a_stacksize == 0 && vf_a_sched == NULL && vf_a_op == (int)THREAD_POOL_OP_PUSH && vf_a_func == NULL, "primary ULT: the caller's own stack (size 0: none allocated), associated with the first pool of the main scheduler");
    if (which == 1) VF_ASSERT(vf_a_pool == NULL && vf_a_type == (unsigned)(ABTI_THREAD_TYPE_YIELDABLE | ABTI_THREAD_TYPE_ROOT | ABTI_THREAD_TYPE_NAMED) && vf_a_stacksize == (xtarget.type == ABTI_XSTREAM_TYPE_PRIMARY ? glob.sched_stacksize : (size_t)0) && vf_a_sched == NULL && vf_a_op == (int)THREAD_POOL_OP_NONE && vf_a_func == thread_root_func, "root ULT: in no pool; its own stack only on the primary stream (a secondary stream's root runs on the native thread's stack)");
    if (which == 2) VF_ASSERT(vf_a_pool == &pool && vf_a_type == (unsigned)(ABTI_THREAD_TYPE_YIELDABLE | ABTI_THREAD_TYPE_MAIN_SCHED | ABTI_THREAD_TYPE_NAMED) && vf_a_stacksize == glob.sched_stacksize && vf_a_sched == &sc && vf_a_op == (int)THREAD_POOL_OP_PUSH && vf_a_func == thread_main_sched_func, "main-scheduler ULT: pushed to the stream's ROOT pool, carries the scheduler, scheduler stack size");
    if (which == 3) VF_ASSERT(vf_a_pool == &pool && vf_a_type == (unsigned)ABTI_THREAD_TYPE_YIELDABLE && vf_a_stacksize == glob.sched_stacksize && vf_a_sched == &sc && vf_a_op == (int)THREAD_POOL_OP_PUSH && vf_a_func == (void (*)(void *))runf && vf_a_arg == (void *)&sc, "stackable scheduler: an unnamed ULT running the scheduler's run function on its own handle, pushed to the given pool");
    VF_REACH("internal creates"); VF_COVER(which == 2 && r == ABT_SUCCESS, "main sched"); VF_COVER(which == 3 && vf_fail_at == 0, "stackable failed");
}
