/* C03 / C12: thread.c ABT_thread_join_many / ABT_thread_free_many on a handle
 * list of ANY length.  Ghost-index form: entry number vf_k (arbitrary) is the
 * concrete work unit TK or ABT_THREAD_NULL; every other non-NULL entry resolves
 * to a summary work unit TS.  Handles in a list are distinct (a unit is freed
 * once): the handle-resolution stub prunes lists that repeat entry k's handle.
 * thread_join and ABTI_thread_free by recording contracts (their own units:
 * thread_join, api_free).  Proved without a bound:
 *  - entry k, if not NULL, is joined exactly once (and, free_many, released
 *    exactly once, its slot set to ABT_THREAD_NULL); NULL entries are skipped;
 *  - EVERY release (of any entry) comes directly after the join of that same
 *    unit -- nothing is released before its own join returned;
 *  - join_many releases nothing.   Since k is arbitrary: every entry. */
#include "vf.h"
struct ABTI_thread; struct ABTI_thread *vf_tk, *vf_ts; const struct ABTI_thread *vf_last_joined;
unsigned vf_joins_k, vf_frees_k, vf_bad, vf_frees; int vf_calls; long vf_k;
#include "abti.h"
static ABTI_thread TK, TS; static ABT_thread hk; static ABTI_global glob; static ABTI_xstream xs; static ABTI_thread selft;
static ABTI_thread *vf_get_thread(ABT_thread h)
{
    if (h == hk && hk != ABT_THREAD_NULL && vf_calls != vf_k) __CPROVER_assume(0); /* distinct handles */
    vf_calls++;
    return h == ABT_THREAD_NULL ? NULL : (h == hk ? &TK : &TS);
}
static void thread_join(ABTI_local **pp_local, ABTI_thread *p_thread)
__CPROVER_assigns(vf_joins_k, vf_last_joined)
__CPROVER_ensures(vf_last_joined == p_thread && vf_joins_k == ((p_thread == vf_tk && __CPROVER_old(vf_joins_k) < 2) ? __CPROVER_old(vf_joins_k) + 1 : __CPROVER_old(vf_joins_k)));
void ABTI_thread_free(ABTI_global *g, ABTI_local *l, ABTI_thread *p_thread)
__CPROVER_assigns(vf_frees_k, vf_frees, vf_last_joined, vf_bad)
__CPROVER_ensures(vf_bad == ((__CPROVER_old(vf_bad) || __CPROVER_old(vf_last_joined) != p_thread) ? 1u : 0u) && vf_last_joined == NULL && vf_frees == (__CPROVER_old(vf_frees) < 2 ? __CPROVER_old(vf_frees) + 1 : __CPROVER_old(vf_frees)))
__CPROVER_ensures(vf_frees_k == ((p_thread == vf_tk && __CPROVER_old(vf_frees_k) < 2) ? __CPROVER_old(vf_frees_k) + 1 : __CPROVER_old(vf_frees_k)));
ABTI_global *gp_ABTI_global; ABTD_XSTREAM_LOCAL ABTI_local *lp_ABTI_local;
#define ABTI_thread_get_ptr vf_get_thread
#include <thread.c>
#undef ABTI_thread_get_ptr
void h_thread_many_any(void)
{
    gp_ABTI_global = &glob; { int e; if (e) lp_ABTI_local = NULL; else { lp_ABTI_local = (ABTI_local *)&xs; xs.p_thread = &selft; } }
    vf_tk = &TK; vf_ts = &TS; vf_joins_k = vf_frees_k = vf_bad = vf_frees = 0; vf_calls = 0; vf_last_joined = NULL;
    int n; VF_ASSUME(n <= (1 << 20)); ABT_thread *list = malloc((n > 0 ? (size_t)n : 1) * sizeof(ABT_thread)); if (!list) return;
    { long k; VF_ASSUME(0 <= k && (n > 0 ? k < n : k == 0)); vf_k = k; } hk = list[vf_k];
    int fr; int r = fr ? ABT_thread_free_many(n, list) : ABT_thread_join_many(n, list);
    VF_ASSERT(r == ABT_SUCCESS && vf_bad == 0, "every release comes directly after the join of the same work unit");
    VF_ASSERT(vf_joins_k == ((n > 0 && hk != ABT_THREAD_NULL) ? 1u : 0u), "entry k (any k): joined exactly once iff it is not the NULL handle");
    if (fr) VF_ASSERT(vf_frees_k == vf_joins_k && (n <= 0 || list[vf_k] == ABT_THREAD_NULL), "free_many: released exactly once iff joined; its slot is reset to ABT_THREAD_NULL");
    else VF_ASSERT(vf_frees == 0, "join_many releases nothing");
    VF_ASSERT(n > 0 || (vf_calls == 0 && vf_frees == 0), "an empty (or negative-length) list does nothing");
    free(list);
    VF_REACH("many any"); VF_COVER(fr && n > 4 && vf_k == 2 && hk != ABT_THREAD_NULL, "long list, freed"); VF_COVER(!fr && n > 4 && hk == ABT_THREAD_NULL, "NULL entry skipped");
}
