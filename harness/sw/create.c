/* C01/C12/C16/C18: thread.c -- ythread_create and thread_revive: what is
 * installed in the descriptor, exactly-one push, and clean failure. */
#include "vf.h"
#include "abti.h"

/* ---- ghost + thin contracts of the callees ---- */
ABTI_ythread *vf_new;                 /* the descriptor handed out by the allocator */
int vf_alloc_fail, vf_assoc_fail, vf_kset_fail, vf_calloc_fail;
unsigned vf_allocs, vf_frees, vf_assocs, vf_ksets, vf_kfrees; const void *vf_freed, *vf_assoc_pool, *vf_assoc_thread;
void *vf_ktable; /* table created by ktable_set_unsafe */
const void *vf_sched_key_addr; /* = &g_thread_sched_key (set by the harness; statics are havocked by the instrumentation, so the key is identified by address) */
const void *vf_mig_key_addr; void *vf_mig_val; void (*vf_mig_cb)(ABT_thread, void *); void *vf_mig_arg; /* = &g_thread_mig_data_key; the migration record registered for the new unit (C13: the attribute's callback) */
void *vf_sched_val; /* value stored under the stackable-scheduler key (its destructor hands the scheduler's fate to the work unit) */
#define ALLOC_CONTRACT                                                                               \
    __CPROVER_assigns(*pp_ythread, vf_allocs)                                                        \
    __CPROVER_ensures(vf_allocs == __CPROVER_old(vf_allocs) + 1)                                     \
    __CPROVER_ensures(vf_alloc_fail ? (__CPROVER_return_value == ABT_ERR_MEM && *pp_ythread == __CPROVER_old(*pp_ythread)) \
                                    : (__CPROVER_return_value == ABT_SUCCESS && __CPROVER_pointer_equals(*pp_ythread, vf_new)))
static inline int ABTI_mem_alloc_ythread_default(ABTI_global *g, ABTI_local *l, ABTI_ythread **pp_ythread) ALLOC_CONTRACT;
static inline int ABTI_mem_alloc_ythread_mempool_desc_stack(ABTI_global *g, ABTI_local *l, size_t stacksize, ABTI_ythread **pp_ythread) ALLOC_CONTRACT;
static inline int ABTI_mem_alloc_ythread_malloc_desc_stack(ABTI_global *g, size_t stacksize, ABTI_ythread **pp_ythread) ALLOC_CONTRACT;
static inline int ABTI_mem_alloc_ythread_mempool_desc(ABTI_global *g, ABTI_local *l, size_t stacksize, void *p_stacktop, ABTI_ythread **pp_ythread) ALLOC_CONTRACT;
static inline void ABTI_mem_free_thread(ABTI_global *g, ABTI_local *l, ABTI_thread *p_thread)
__CPROVER_assigns(vf_frees, vf_freed) __CPROVER_ensures(vf_frees == __CPROVER_old(vf_frees) + 1 && vf_freed == p_thread);

#define ASSOC_CONTRACT                                                                               \
    __CPROVER_requires(__CPROVER_is_fresh(p_thread, sizeof(*p_thread)))                              \
    __CPROVER_assigns(p_thread->p_pool, p_thread->unit, vf_assocs, vf_assoc_pool, vf_assoc_thread)   \
    __CPROVER_ensures(vf_assocs == __CPROVER_old(vf_assocs) + 1 && vf_assoc_pool == p_pool && vf_assoc_thread == p_thread) \
    __CPROVER_ensures(vf_assoc_fail ? (__CPROVER_return_value != ABT_SUCCESS && p_thread->p_pool == __CPROVER_old(p_thread->p_pool) && p_thread->unit == __CPROVER_old(p_thread->unit)) \
                                    : (__CPROVER_return_value == ABT_SUCCESS && p_thread->p_pool == p_pool && p_thread->unit != ABT_UNIT_NULL))
static inline int ABTI_thread_init_pool(ABTI_global *g, ABTI_thread *p_thread, ABTI_pool *p_pool) ASSOC_CONTRACT;
static inline int ABTI_thread_set_associated_pool(ABTI_global *g, ABTI_thread *p_thread, ABTI_pool *p_pool) ASSOC_CONTRACT;

static inline int ABTI_ktable_set_unsafe(ABTI_global *g, ABTI_local *l, ABTI_ktable **pp_ktable, ABTI_key *p_key, void *value)
__CPROVER_assigns(*pp_ktable, vf_ksets, vf_sched_val, vf_mig_val, vf_mig_cb, vf_mig_arg)
__CPROVER_ensures(vf_ksets == __CPROVER_old(vf_ksets) + 1)
__CPROVER_ensures((!vf_kset_fail && p_key == vf_sched_key_addr) ? vf_sched_val == value : vf_sched_val == __CPROVER_old(vf_sched_val))
__CPROVER_ensures((!vf_kset_fail && p_key == vf_mig_key_addr) ? (vf_mig_val == value && vf_mig_cb == ((ABTI_thread_mig_data *)value)->f_migration_cb && vf_mig_arg == ((ABTI_thread_mig_data *)value)->p_migration_cb_arg) : (vf_mig_val == __CPROVER_old(vf_mig_val) && vf_mig_cb == __CPROVER_old(vf_mig_cb) && vf_mig_arg == __CPROVER_old(vf_mig_arg)))
__CPROVER_ensures(vf_kset_fail ? __CPROVER_return_value == ABT_ERR_MEM : (__CPROVER_return_value == ABT_SUCCESS && *pp_ktable == (ABTI_ktable *)vf_ktable && vf_ktable != NULL));
static inline int ABTU_calloc(size_t num, size_t size, void **p_ptr)
__CPROVER_assigns(*p_ptr)
__CPROVER_ensures(vf_calloc_fail ? (__CPROVER_return_value == ABT_ERR_MEM) : (__CPROVER_return_value == ABT_SUCCESS && __CPROVER_is_fresh(*p_ptr, num * size)));

#include <thread.c>

/* ABTI_ktable_free runs the destructor of every key that holds a non-NULL value (C16 ktable_free units); the one that
 * matters here is the REAL destructor of the stackable-scheduler key */
static unsigned n_sched_free; void ABTI_sched_free(ABTI_global *g, ABTI_local *l, ABTI_sched *s, ABT_bool force) { n_sched_free++; }
ABTI_global *gp_ABTI_global; ABTI_local *ABTI_local_get_local_uninlined(void) { return NULL; }
static ABTI_sched sch;
void ABTI_ktable_free(ABTI_global *g, ABTI_local *l, ABTI_ktable *t) { vf_kfrees++; if (vf_sched_val) { __CPROVER_assert(vf_sched_val == (void *)&sch, "the value under the scheduler key is the scheduler"); vf_sched_val = NULL; thread_key_destructor_stackable_sched(&sch); } }
static unsigned n_push; static const void *push_pool; static ABT_unit push_unit; static int push_ctx;
static void stub_push(ABT_pool p, ABT_unit u, ABT_pool_context c) { n_push++; push_pool = p; push_unit = u; push_ctx = (int)c; }
static ABTI_global glob; static ABTI_pool pool; static ABTI_ythread newy; static void work(void *a) {} static int the_arg;

void h_ythread_create(void)
{
    vf_new = &newy; pool.required_def.p_push = stub_push; n_push = 0; vf_allocs = 0; vf_frees = 0; vf_assocs = 0; vf_ksets = 0; vf_kfrees = 0;
    { int a, b, c, d; vf_alloc_fail = !!a; vf_assoc_fail = !!b; vf_kset_fail = !!c; vf_calloc_fail = !!d; }
    ABTI_thread_attr attr; int use_attr; ABTI_thread_attr *pa = use_attr ? &attr : NULL;
    VF_ASSUME(attr.migratable == ABT_TRUE || attr.migratable == ABT_FALSE);
    static char ustack[256]; { int us; attr.p_stack = us ? ustack : NULL; if (us) VF_ASSUME(attr.stacksize <= sizeof(ustack)); } /* a user stack is a valid block of the stated size (A9) */
    int op; VF_ASSUME(op == THREAD_POOL_OP_NONE || op == THREAD_POOL_OP_PUSH || op == THREAD_POOL_OP_INIT);
    ABTI_thread_type ty; VF_ASSUME((ty & ~(ABTI_THREAD_TYPE_YIELDABLE | ABTI_THREAD_TYPE_NAMED | ABTI_THREAD_TYPE_MAIN_SCHED | ABTI_THREAD_TYPE_PRIMARY)) == 0);
    { ABTI_sched ns; sch = ns; } vf_sched_key_addr = &g_thread_sched_key; VF_ASSUME(sch.automatic == ABT_TRUE || sch.automatic == ABT_FALSE); int use_sched; ABTI_sched *ps = use_sched ? &sch : NULL;
    sch.p_ythread = NULL; /* a scheduler handed to a new ULT is not in use yet (checked by the callers) */ ABTI_sched_used used0 = sch.used; n_sched_free = 0; vf_sched_val = NULL; gp_ABTI_global = &glob; vf_mig_key_addr = &g_thread_mig_data_key; vf_mig_val = NULL; vf_mig_cb = NULL; vf_mig_arg = NULL;
    ABTI_ythread *out = (ABTI_ythread *)0x77;
    newy.thread.type = ABTI_THREAD_TYPE_MEM_MEMPOOL_DESC; /* set by the allocator */
    int r = ythread_create(&glob, NULL, &pool, work, &the_arg, pa, ty, ps, (thread_pool_op_kind)op, &out);
    if (r == ABT_SUCCESS) {
        VF_ASSERT(out == &newy && newy.thread.f_thread == work && newy.thread.p_arg == &the_arg, "the unit will run the function and the argument it was created with");
        VF_ASSERT(newy.thread.state.val == ABT_THREAD_STATE_READY && newy.thread.request.val == 0 && newy.thread.p_last_xstream == NULL && newy.thread.p_parent == NULL, "READY, no pending request, never scheduled");
        VF_ASSERT(newy.thread.p_pool == &pool && (newy.thread.type & ty) == ty, "associated with the requested pool; requested kind bits set");
        VF_ASSERT(op == THREAD_POOL_OP_PUSH ? (n_push == 1 && push_pool == (void *)&pool && push_unit == newy.thread.unit && push_ctx == (int)ABT_POOL_CONTEXT_OP_THREAD_CREATE) : n_push == 0, "pushed exactly once iff asked to (PUSH), never for INIT/NONE");
        VF_ASSERT(vf_frees == 0 && vf_kfrees == 0 && !vf_alloc_fail && n_sched_free == 0, "success: nothing released");
        VF_ASSERT((ps && !(ty & (ABTI_THREAD_TYPE_PRIMARY | ABTI_THREAD_TYPE_MAIN_SCHED))) ? vf_sched_val == ps : vf_sched_val == NULL, "a stackable scheduler is registered under the scheduler key of its ULT (freed with it), others are not");
        /* C13: the migration callback given in the attribute belongs to the unit from its creation on, whether or not the unit is
         * migratable at that moment (ABT_thread_set_migratable may switch migration on later; the callback must then still be there) */
        if (pa && attr.f_cb) VF_ASSERT(vf_mig_val != NULL && vf_mig_cb == attr.f_cb && vf_mig_arg == attr.p_cb_arg, "the attribute's migration callback and its argument are registered with the new unit -- also for a unit created non-migratable");
        else VF_ASSERT(vf_mig_val == NULL, "no migration record without a callback in the attribute");
        VF_ASSERT(pa ? (!!(newy.thread.type & ABTI_THREAD_TYPE_MIGRATABLE) == (attr.migratable == ABT_TRUE)) : 1, "migratable exactly as the attribute says");
    } else {
        VF_ASSERT(n_push == 0 && out == (ABTI_ythread *)0x77, "failure: nothing pushed, output handle untouched");
        VF_ASSERT(vf_alloc_fail ? vf_frees == 0 : (vf_frees == 1 && vf_freed == &newy.thread), "failure: the descriptor/stack obtained in this call is released exactly once (never if the allocation itself failed)");
        VF_ASSERT(vf_kfrees <= 1, "a key table created in this call is released at most once");
        VF_ASSERT(n_sched_free == 0, "failure: the scheduler the work unit was to run still belongs to the caller -- it is NOT freed (a failed ABT_pool_add_sched leaves the caller's scheduler handle valid)");
        VF_ASSERT(sch.p_ythread == NULL && (sch.used == used0 || sch.used == ABTI_SCHED_NOT_USED), "... and is not bound to a ULT (callers reset the 'used' mark themselves)");
    }
    VF_ASSERT((r != ABT_SUCCESS) ==> (vf_alloc_fail || vf_assoc_fail || vf_kset_fail || vf_calloc_fail), "fails only if some allocation / association failed (no spurious failure)");
    VF_REACH("ythread_create returns");
    VF_COVER(r == ABT_SUCCESS && op == THREAD_POOL_OP_PUSH, "created and pushed"); VF_COVER(r == ABT_SUCCESS && pa && attr.f_cb && attr.migratable == ABT_FALSE, "callback on a non-migratable unit"); VF_COVER(r != ABT_SUCCESS && !vf_alloc_fail && vf_assoc_fail, "association failed"); VF_COVER(r != ABT_SUCCESS && vf_alloc_fail, "alloc failed"); VF_COVER(r != ABT_SUCCESS && use_sched && vf_assoc_fail && !vf_kset_fail && !vf_alloc_fail && !(ty & (ABTI_THREAD_TYPE_PRIMARY | ABTI_THREAD_TYPE_MAIN_SCHED)) && sch.automatic, "stackable automatic scheduler, association failed");
}

void h_thread_revive(void)
{
    pool.required_def.p_push = stub_push; n_push = 0; vf_assocs = 0; { int b; vf_assoc_fail = !!b; }
    int is_ult; ABTI_thread *t = &newy.thread; newy.thread.type = (is_ult ? ABTI_THREAD_TYPE_YIELDABLE : 0) | ABTI_THREAD_TYPE_NAMED;
    newy.thread.state.val = ABT_THREAD_STATE_TERMINATED; /* precondition checked by the API */
    void *kt0 = newy.thread.p_keytable.val; void (*f0)(void *) = newy.thread.f_thread; void *a0 = newy.thread.p_arg; uint32_t rq0 = newy.thread.request.val;
    newy.ctx.ctx.dummy = (void *)1; newy.ctx.p_link.val.val = (void *)&newy; /* a finished context with a stale joiner link */
    int op; VF_ASSUME(op == THREAD_POOL_OP_PUSH || op == THREAD_POOL_OP_INIT);
    int r = thread_revive(&glob, NULL, &pool, work, &the_arg, (thread_pool_op_kind)op, t);
    if (r == ABT_SUCCESS) {
        VF_ASSERT(newy.thread.f_thread == work && newy.thread.p_arg == &the_arg, "the revived unit runs the NEW function with the NEW argument");
        VF_ASSERT(newy.thread.state.val == ABT_THREAD_STATE_READY && newy.thread.request.val == 0, "READY with NO pending request left over from its previous life (a stale cancel would kill it)");
        VF_ASSERT(newy.thread.p_last_xstream == NULL && newy.thread.p_parent == NULL && newy.thread.p_pool == &pool, "never scheduled yet; associated with the requested pool");
        VF_ASSERT(!is_ult || (newy.ctx.ctx.dummy == NULL && newy.ctx.p_link.val.val == NULL), "ULT: fresh context (not started, no joiner link)");
        VF_ASSERT(newy.thread.p_keytable.val == kt0, "work-unit-local storage survives a revive (same unit)");
        VF_ASSERT(op == THREAD_POOL_OP_PUSH ? (n_push == 1 && push_pool == (void *)&pool && push_unit == newy.thread.unit && push_ctx == (int)ABT_POOL_CONTEXT_OP_THREAD_REVIVE) : n_push == 0, "pushed exactly once iff asked to");
    } else {
        VF_ASSERT(vf_assoc_fail && n_push == 0 && newy.thread.state.val == ABT_THREAD_STATE_TERMINATED && newy.thread.f_thread == f0 && newy.thread.p_arg == a0 && newy.thread.request.val == rq0, "failed revive: unit untouched, still TERMINATED, nothing pushed");
    }
    VF_REACH("thread_revive returns"); VF_COVER(r == ABT_SUCCESS && is_ult, "ULT revived"); VF_COVER(r != ABT_SUCCESS, "failed");
}
