/* C03/C12/C13: thread.c -- thread_join (every caller kind), thread_join_futexwait,
 * ABTI_thread_handle_request_cancel / _migrate, the joiner hand-shake
 * ABTI_ythread_atomic_get_joiner.  Shared atomics are read through rely
 * contracts: the target's state is changed by other streams at any time. */
#include "vf.h"
#include "abti.h"

/* ---- ghost ---- */
int vf_last_load_val; const void *vf_last_load_ptr; unsigned vf_state_loads;
unsigned vf_yields, vf_susp_joins; const void *vf_susp_join_target;
uint32_t vf_fetch_or_old; unsigned vf_fetch_ors; const void *vf_fetch_or_ptr; uint32_t vf_fetch_or_bits; unsigned vf_t_fetch_or;
unsigned vf_clock, vf_n_link, vf_t_link; const void *vf_link_target; const void *vf_link_value;
unsigned vf_futex_suspends, vf_t_futex_suspend; const void *vf_futex_obj;
#define JG vf_last_load_val, vf_last_load_ptr, vf_state_loads, vf_yields, vf_susp_joins, vf_susp_join_target, vf_fetch_or_old, vf_fetch_ors, vf_fetch_or_ptr, vf_fetch_or_bits, vf_t_fetch_or, vf_clock, vf_n_link, vf_t_link, vf_link_target, vf_link_value

/* acquire-load of a state word: any value (other streams run); recorded */
static inline int ABTD_atomic_acquire_load_int(const ABTD_atomic_int *ptr)
__CPROVER_assigns(vf_last_load_val, vf_last_load_ptr, vf_state_loads)
__CPROVER_ensures(vf_last_load_val == __CPROVER_return_value && vf_last_load_ptr == ptr && vf_state_loads == __CPROVER_old(vf_state_loads) + 1);

static inline uint32_t ABTD_atomic_fetch_or_uint32(ABTD_atomic_uint32 *ptr, uint32_t v)
__CPROVER_requires(__CPROVER_is_fresh(ptr, sizeof(*ptr)))
__CPROVER_assigns(ptr->val, vf_fetch_or_old, vf_fetch_ors, vf_fetch_or_ptr, vf_fetch_or_bits, vf_clock, vf_t_fetch_or)
__CPROVER_ensures(__CPROVER_return_value == vf_fetch_or_old && vf_fetch_ors == __CPROVER_old(vf_fetch_ors) + 1 && vf_fetch_or_ptr == ptr && vf_fetch_or_bits == v)
__CPROVER_ensures((ptr->val & v) == v && vf_clock == __CPROVER_old(vf_clock) + 1 && vf_t_fetch_or == vf_clock);

int vf_yielded; ABTI_xstream *vf_x0; ABTI_xstream *vf_resumed_on; /* the stream on which the caller continues after a yield / suspension */
static inline void ABTI_ythread_yield(ABTI_xstream **pp, ABTI_ythread *p_self, ABTI_ythread_yield_kind kind, ABT_sync_event_type t, void *s)
__CPROVER_requires(p_self->thread.type & ABTI_THREAD_TYPE_YIELDABLE)
__CPROVER_assigns(vf_yields, vf_yielded, *pp) __CPROVER_ensures(vf_yields == __CPROVER_old(vf_yields) + 1 && vf_yielded == 1)
__CPROVER_ensures(*pp == vf_resumed_on); /* the caller may be resumed on ANOTHER stream (migration, shared pool, work stealing) */

static inline void ABTI_ythread_suspend_join(ABTI_xstream **pp, ABTI_ythread *p_self, ABTI_ythread *p_target, ABT_sync_event_type t, void *s)
__CPROVER_requires(p_self->thread.type & ABTI_THREAD_TYPE_YIELDABLE) /* only a ULT can be suspended */
__CPROVER_assigns(vf_susp_joins, vf_susp_join_target, *pp)
__CPROVER_ensures(vf_susp_joins == __CPROVER_old(vf_susp_joins) + 1 && vf_susp_join_target == p_target)
__CPROVER_ensures(*pp == vf_resumed_on);

static inline void ABTD_atomic_release_store_ythread_context_ptr(ABTD_ythread_context_atomic_ptr *ptr, ABTD_ythread_context *p_ctx)
__CPROVER_requires(__CPROVER_is_fresh(ptr, sizeof(*ptr)))
__CPROVER_assigns(ptr->val.val, vf_clock, vf_n_link, vf_t_link, vf_link_target, vf_link_value)
__CPROVER_ensures(ptr->val.val == (void *)p_ctx && vf_clock == __CPROVER_old(vf_clock) + 1 && vf_n_link == __CPROVER_old(vf_n_link) + 1 && vf_t_link == vf_clock && vf_link_target == ptr && vf_link_value == p_ctx);

/* cancel path callees */
unsigned vf_resume_joiners, vf_terminates, vf_t_resume_joiner, vf_t_terminate; const void *vf_resume_joiner_of;
static inline void ABTI_ythread_resume_joiner(ABTI_xstream *p_local_xstream, ABTI_ythread *p_ythread)
__CPROVER_assigns(vf_resume_joiners, vf_t_resume_joiner, vf_resume_joiner_of, vf_clock)
__CPROVER_ensures(vf_resume_joiners == __CPROVER_old(vf_resume_joiners) + 1 && vf_resume_joiner_of == p_ythread && vf_clock == __CPROVER_old(vf_clock) + 1 && vf_t_resume_joiner == vf_clock);
static inline void ABTI_thread_terminate(ABTI_global *g, ABTI_xstream *x, ABTI_thread *p_thread)
__CPROVER_assigns(vf_terminates, vf_t_terminate, vf_clock)
__CPROVER_ensures(vf_terminates == __CPROVER_old(vf_terminates) + 1 && vf_clock == __CPROVER_old(vf_clock) + 1 && vf_t_terminate == vf_clock);

#include <thread.c>

void ABTD_futex_suspend(ABTD_futex_single *f) { vf_futex_suspends++; vf_clock++; vf_t_futex_suspend = vf_clock; vf_futex_obj = f; }

static ABTI_xstream xs; static ABTI_ythread self_y, tgt_y; static ABTI_thread self_task, tgt_task;

/* join returns ONLY after an acquire-load of the target's state returned
 * TERMINATED -- on every path, for every caller kind and target kind */
void h_thread_join(void)
{
    int caller; VF_ASSUME(0 <= caller && caller <= 2); /* 0 external thread, 1 tasklet, 2 ULT */
    int tgt_is_ult; ABTI_thread *tgt = tgt_is_ult ? &tgt_y.thread : &tgt_task;
    tgt_y.thread.type = ABTI_THREAD_TYPE_YIELDABLE | ABTI_THREAD_TYPE_NAMED; tgt_task.type = ABTI_THREAD_TYPE_NAMED;
    self_y.thread.type = ABTI_THREAD_TYPE_YIELDABLE; self_task.type = 0;
    ABTI_local *l = NULL;
    if (caller == 1) { xs.p_thread = &self_task; l = (ABTI_local *)&xs; } else if (caller == 2) { xs.p_thread = &self_y.thread; l = (ABTI_local *)&xs; }
    vf_last_load_ptr = NULL; vf_state_loads = 0; vf_susp_joins = 0; vf_yields = 0; vf_fetch_ors = 0; vf_n_link = 0; vf_futex_suspends = 0; vf_clock = 1;
    static ABTI_xstream xs2; xs2.p_thread = xs.p_thread; { int mv; vf_resumed_on = mv ? &xs2 : &xs; } vf_yielded = 0; vf_x0 = (ABTI_xstream *)l;
    thread_join(&l, tgt);
    VF_ASSERT((vf_yielded || vf_susp_joins > 0) ? l == (ABTI_local *)vf_resumed_on : (caller == 0 ? l == NULL : l == (ABTI_local *)&xs), "after a join that yielded or blocked the caller's local handle names the stream it runs on NOW (the callers of thread_join -- join_many, free, free_many -- go on using it)");
    VF_ASSERT(vf_last_load_ptr == &tgt->state && vf_last_load_val == ABT_THREAD_STATE_TERMINATED,
              "join returns only after an acquire-load of the TARGET's state returned TERMINATED (its last event, on every path)");
    VF_ASSERT(caller == 2 || (vf_susp_joins == 0 && vf_yields == 0), "an external thread or a tasklet never yields or suspends in join");
    VF_ASSERT(vf_susp_joins <= 1 && (vf_susp_joins == 1 ==> (caller == 2 && tgt_is_ult && vf_susp_join_target == &tgt_y && vf_fetch_ors == 1 && !(vf_fetch_or_old & ABTI_THREAD_REQ_JOIN))),
              "a ULT caller blocks on the target only if ITS fetch_or was the first to set the JOIN request");
    VF_ASSERT(vf_futex_suspends <= 1 && (vf_futex_suspends == 1 ==> (caller != 2 && tgt_is_ult && !(vf_fetch_or_old & ABTI_THREAD_REQ_JOIN) && vf_n_link == 1 && vf_link_target == &tgt_y.ctx.p_link && vf_t_fetch_or < vf_t_link && vf_t_link < vf_t_futex_suspend)),
              "a non-yieldable caller sleeps on its futex only after setting JOIN first and release-publishing its dummy context as the joiner link");
    VF_REACH("thread_join returns");
    VF_COVER(caller == 2 && vf_susp_joins == 1, "ULT blocked"); VF_COVER(caller == 2 && vf_yields > 0 && vf_susp_joins == 0, "ULT yield loop"); VF_COVER(caller == 0 && vf_futex_suspends == 1, "external slept");
    VF_COVER(caller == 1 && vf_state_loads > 1, "tasklet waited"); VF_COVER(vf_state_loads == 1, "already terminated");
}

/* cancel handling: a joiner of a cancelled ULT is released exactly once, BEFORE
 * the ULT is terminated -- whether or not the ULT has ever been scheduled */
void h_handle_request_cancel(void)
{
    int is_ult; ABTI_thread *t = is_ult ? &tgt_y.thread : &tgt_task;
    tgt_y.thread.type = ABTI_THREAD_TYPE_YIELDABLE; tgt_task.type = 0;
    int never_ran; ABTI_xstream *lx = never_ran ? NULL : &xs; /* p_last_xstream of a never-scheduled unit is NULL */
    vf_resume_joiners = 0; vf_terminates = 0; vf_clock = 1;
    ABTI_thread_handle_request_cancel(NULL, lx, t);
    VF_ASSERT(vf_terminates == 1, "the cancelled unit is terminated exactly once");
    VF_ASSERT(is_ult ? (vf_resume_joiners == 1 && vf_resume_joiner_of == &tgt_y && vf_t_resume_joiner < vf_t_terminate) : vf_resume_joiners == 0,
              "ULT: its joiner is released exactly once, before termination, even if the ULT never ran");
    VF_REACH("cancel handled"); VF_COVER(is_ult && never_ran, "never scheduled");
}
