/* C11/C06/C12: the API layer of thread.c over the switch primitives. */
#include "vf.h"
#include "abti.h"
#include "contracts/ythread_thin.h"
/* num_blocked bookkeeping of ABT_thread_yield_to, real fetch_add/sub */
#include <thread.c>

static ABTI_xstream xs; static ABTI_ythread cur, tar; static ABTI_thread task; static ABTI_pool poolC, poolT;
static int remove_ret, in_pool; static unsigned n_remove;
static int stub_remove(ABT_pool p, ABT_unit u) { n_remove++; return remove_ret; }
static ABT_bool stub_is_in_pool(ABT_unit u) { return in_pool ? ABT_TRUE : ABT_FALSE; }

static void setup(void)
{
    cur.thread.type = ABTI_THREAD_TYPE_YIELDABLE; cur.thread.p_pool = &poolC; cur.thread.state.val = ABT_THREAD_STATE_RUNNING;
    tar.thread.type = ABTI_THREAD_TYPE_YIELDABLE; tar.thread.p_pool = &poolT; task.type = 0;
    { int ms; if (ms) cur.thread.type |= ABTI_THREAD_TYPE_MAIN_SCHED; }
    poolT.deprecated_def.p_remove = stub_remove; poolT.deprecated_def.u_is_in_pool = stub_is_in_pool;
    vf_prim_calls = 0; vf_prim = VF_P_NONE; n_remove = 0;
    VF_ASSUME(poolC.num_blocked.val >= 0 && poolC.num_blocked.val < 1000);
    { int r; remove_ret = r ? ABT_ERR_POOL : ABT_SUCCESS; } { int i; in_pool = i; }
}
static void set_caller(int kind) /* 0 external thread, 1 tasklet, 2 ULT */
{
    if (kind == 0) lp_ABTI_local = NULL; else { lp_ABTI_local = (ABTI_local *)&xs; xs.p_thread = kind == 1 ? &task : &cur.thread; }
}

void h_thread_yield_to(void)
{
    setup(); int ck; VF_ASSUME(0 <= ck && ck <= 2); set_caller(ck);
    int st; tar.thread.state.val = st; int b0 = poolC.num_blocked.val;
    int r = ABT_thread_yield_to((ABT_thread)&tar.thread);
    if (ck != 2) { VF_ASSERT(r == ABT_SUCCESS && vf_prim_calls == 0 && poolC.num_blocked.val == b0 && n_remove == 0, "external thread / tasklet: no-op"); }
    else if (cur.thread.type & ABTI_THREAD_TYPE_MAIN_SCHED) { VF_ASSERT(r == ABT_ERR_INV_THREAD && vf_prim_calls == 0 && poolC.num_blocked.val == b0 && n_remove == 0, "main scheduler caller rejected, nothing changed"); }
    else if (!(in_pool && st == ABT_THREAD_STATE_READY)) { VF_ASSERT(r == ABT_SUCCESS && vf_prim_calls == 0 && poolC.num_blocked.val == b0 && n_remove == 0, "target not (in its pool and READY): no switch, nothing changed"); }
    else if (remove_ret != ABT_SUCCESS) { VF_ASSERT(r == remove_ret && vf_prim_calls == 0 && n_remove == 1 && poolC.num_blocked.val == b0, "target could not be removed from its pool: error, no switch, the blocked-count pre-increment is rolled back"); }
    else { VF_ASSERT(r == ABT_SUCCESS && vf_prim_calls == 1 && vf_prim == VF_P_THREAD_YIELD_TO && vf_prim_self == &cur && vf_prim_target == &tar && n_remove == 1, "target taken out of its pool exactly once, then entered by the directed switch");
           VF_ASSERT(poolC.num_blocked.val == b0 + 1 && tar.thread.p_last_xstream == &xs, "caller's pool pre-incremented (undone by the switch callback); target's stream recorded"); }
    VF_ASSERT(ABT_thread_yield_to(ABT_THREAD_NULL) == (ck == 2 ? ABT_ERR_INV_THREAD : ABT_SUCCESS), "NULL handle");
    VF_REACH("ABT_thread_yield_to"); VF_COVER(ck == 2 && vf_prim_calls == 1, "switched"); VF_COVER(ck == 2 && n_remove == 1 && r != ABT_SUCCESS, "remove failed");
}
void h_thread_resume(void)
{
    setup(); set_caller(0); int st; tar.thread.state.val = st;
    int r = ABT_thread_resume((ABT_thread)&tar.thread);
    VF_ASSERT(st == ABT_THREAD_STATE_BLOCKED ? (r == ABT_SUCCESS && vf_prim_calls == 1 && vf_prim == VF_P_RESUME_AND_PUSH && vf_prim_target == &tar) : (r == ABT_ERR_THREAD && vf_prim_calls == 0),
              "resume acts only on a ULT observed BLOCKED (so it runs exactly once per resume); otherwise error and nothing done");
    VF_ASSERT(ABT_thread_resume((ABT_thread)&task) == ABT_ERR_INV_THREAD && ABT_thread_resume(ABT_THREAD_NULL) == ABT_ERR_INV_THREAD, "tasklet / NULL handle rejected");
    VF_REACH("ABT_thread_resume"); VF_COVER(r == ABT_SUCCESS, "resumed");
}
void h_thread_yield(void)
{
    setup(); int ck; VF_ASSUME(0 <= ck && ck <= 2); set_caller(ck);
    int r = ABT_thread_yield();
    VF_ASSERT(r == ABT_SUCCESS && (ck == 2 ? (vf_prim_calls == 1 && vf_prim == VF_P_YIELD && vf_prim_self == &cur && vf_prim_kind == (int)ABTI_YTHREAD_YIELD_KIND_USER) : vf_prim_calls == 0), "ULT caller yields once; other callers: no-op");
    VF_REACH("ABT_thread_yield");
}
void h_thread_cancel_exit(void)
{
    setup(); set_caller(2);
    uint32_t rq0 = tar.thread.request.val; int prim; tar.thread.type |= prim ? ABTI_THREAD_TYPE_PRIMARY : 0;
    int r = ABT_thread_cancel((ABT_thread)&tar.thread);
    VF_ASSERT(prim ? (r == ABT_ERR_INV_THREAD && tar.thread.request.val == rq0) : (r == ABT_SUCCESS && tar.thread.request.val == (rq0 | ABTI_THREAD_REQ_CANCEL)), "cancel: primary ULT rejected; otherwise only the CANCEL bit is or-ed in");
    VF_REACH("cancel");
}
