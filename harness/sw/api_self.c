/* C11/C12: the ABT_self_* switch API of self.c: caller-kind and target checks,
 * exactly one primitive invoked with the documented arguments, error paths
 * invoke nothing. */
#include "vf.h"
#include "abti.h"
#include "contracts/ythread_thin.h"
#include <self.c>

static ABTI_xstream xs; static ABTI_ythread cur, tar; static ABTI_thread task;
static int ck; /* 0 external thread, 1 tasklet, 2 ULT */
static void setup(void)
{
    cur.thread.type = ABTI_THREAD_TYPE_YIELDABLE; tar.thread.type = ABTI_THREAD_TYPE_YIELDABLE; task.type = 0;
    { int a, b, c, d; if (a) cur.thread.type |= ABTI_THREAD_TYPE_MAIN_SCHED; if (b) cur.thread.type |= ABTI_THREAD_TYPE_PRIMARY; if (c) tar.thread.type |= ABTI_THREAD_TYPE_MAIN_SCHED; if (d) tar.thread.type |= ABTI_THREAD_TYPE_PRIMARY; }
    int k; VF_ASSUME(0 <= k && k <= 2); ck = k;
    if (ck == 0) lp_ABTI_local = NULL; else { lp_ABTI_local = (ABTI_local *)&xs; xs.p_thread = ck == 1 ? &task : &cur.thread; }
    vf_prim_calls = 0; vf_prim = VF_P_NONE;
    tar.thread.state.val = ABT_THREAD_STATE_BLOCKED; /* precondition of the resume_* family (undefined otherwise) */
}
#define CUR_MS (cur.thread.type & ABTI_THREAD_TYPE_MAIN_SCHED)
#define CUR_PR (cur.thread.type & ABTI_THREAD_TYPE_PRIMARY)
#define TAR_MS (tar.thread.type & ABTI_THREAD_TYPE_MAIN_SCHED)
#define TAR_PR (tar.thread.type & ABTI_THREAD_TYPE_PRIMARY)
#define NOT_ULT_REJECTED if (ck != 2) { VF_ASSERT(r == (ck == 0 ? ABT_ERR_INV_XSTREAM : ABT_ERR_INV_THREAD) && vf_prim_calls == 0, "external thread / tasklet caller rejected, nothing done"); }
#define ONE(P, T, K) VF_ASSERT(r == ABT_SUCCESS && vf_prim_calls == 1 && vf_prim == P && vf_prim_self == &cur && vf_prim_target == (T) && vf_prim_kind == (int)(K), "exactly one primitive, the documented one, on the caller and the named target")
#define NONE(E) VF_ASSERT(r == (E) && vf_prim_calls == 0, "rejected with the documented error, nothing done")

void h_self_yield(void) { setup(); int r = ABT_self_yield(); NOT_ULT_REJECTED else ONE(VF_P_YIELD, NULL, ABTI_YTHREAD_YIELD_KIND_USER); VF_REACH("self_yield"); }
void h_self_suspend(void) { setup(); int r = ABT_self_suspend(); NOT_ULT_REJECTED else ONE(VF_P_SUSPEND, NULL, 0); VF_REACH("self_suspend"); }
void h_self_yield_to(void) { setup(); int r = ABT_self_yield_to((ABT_thread)&tar.thread); NOT_ULT_REJECTED else if (CUR_MS || TAR_MS) NONE(ABT_ERR_INV_THREAD); else ONE(VF_P_YIELD_TO, &tar, ABTI_YTHREAD_YIELD_TO_KIND_USER);
    if (ck == 2) { vf_prim_calls = 0; r = ABT_self_yield_to((ABT_thread)&cur.thread); NONE(ABT_ERR_INV_THREAD); r = ABT_self_yield_to((ABT_thread)&task); NONE(ABT_ERR_INV_THREAD); r = ABT_self_yield_to(ABT_THREAD_NULL); NONE(ABT_ERR_INV_THREAD); }
    VF_REACH("self_yield_to"); }
void h_self_resume_yield_to(void) { setup(); int r = ABT_self_resume_yield_to((ABT_thread)&tar.thread); NOT_ULT_REJECTED else if (CUR_MS || TAR_MS) NONE(ABT_ERR_INV_THREAD); else ONE(VF_P_RESUME_YIELD_TO, &tar, ABTI_YTHREAD_RESUME_YIELD_TO_KIND_USER); VF_REACH("self_resume_yield_to"); }
void h_self_suspend_to(void) { setup(); int r = ABT_self_suspend_to((ABT_thread)&tar.thread); NOT_ULT_REJECTED else if (CUR_MS || TAR_MS) NONE(ABT_ERR_INV_THREAD); else ONE(VF_P_SUSPEND_TO, &tar, 0); VF_REACH("self_suspend_to"); }
void h_self_resume_suspend_to(void) { setup(); int r = ABT_self_resume_suspend_to((ABT_thread)&tar.thread); NOT_ULT_REJECTED else if (CUR_MS || TAR_MS) NONE(ABT_ERR_INV_THREAD); else ONE(VF_P_RESUME_SUSPEND_TO, &tar, 0); VF_REACH("self_resume_suspend_to"); }
void h_self_exit(void) { setup(); int r = ABT_self_exit(); NOT_ULT_REJECTED else if (CUR_PR) NONE(ABT_ERR_INV_THREAD); else ONE(VF_P_EXIT, NULL, 0); VF_REACH("self_exit"); }
void h_self_exit_to(void) { setup(); int r = ABT_self_exit_to((ABT_thread)&tar.thread); NOT_ULT_REJECTED else if (CUR_MS || TAR_MS || TAR_PR) NONE(ABT_ERR_INV_THREAD); else ONE(VF_P_EXIT_TO, &tar, 0); VF_REACH("self_exit_to"); }
void h_self_resume_exit_to(void) { setup(); int r = ABT_self_resume_exit_to((ABT_thread)&tar.thread); NOT_ULT_REJECTED else if (CUR_MS || CUR_PR || TAR_MS) NONE(ABT_ERR_INV_THREAD); else ONE(VF_P_RESUME_EXIT_TO, &tar, 0); VF_REACH("self_resume_exit_to"); }
