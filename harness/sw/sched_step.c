/* C01/C12/C13/C03: one scheduling step and its helpers:
 * ABTI_ythread_schedule, ABTI_thread_handle_request, ABTI_thread_terminate,
 * ABTD_ythread_func_wrapper, ABTI_ythread_atomic_get_joiner. */
#include "vf.h"
unsigned vf_link_loads; int vf_waited; /* ghost used by the loop contract inserted into abti_ythread.h */
#include "abti.h"
#include "contracts/ythread_thin.h"

/* ---- ghost + thin contracts ---- */
int vf_req_op; unsigned vf_hr_calls; int vf_hr_allow; const void *vf_hr_thread;
unsigned vf_run_child_calls; const void *vf_run_child_self, *vf_run_child_child;
unsigned vf_term_calls; const void *vf_term_thread; unsigned vf_clock, vf_t_term, vf_t_fcall, vf_t_running;
unsigned vf_add_calls; const void *vf_add_thread; int vf_add_ctx;
static unsigned n_fcalls; static void *f_arg_seen; static int state_at_fcall; static const void *xs_thread_at_fcall;

#ifdef VF_UNIT_SCHEDULE
static inline int ABTI_thread_handle_request(ABTI_thread *p_thread, ABT_bool allow_termination)
__CPROVER_assigns(vf_hr_calls, vf_hr_allow, vf_hr_thread)
__CPROVER_ensures(__CPROVER_return_value == vf_req_op && vf_hr_calls == __CPROVER_old(vf_hr_calls) + 1 && vf_hr_allow == (int)allow_termination && vf_hr_thread == p_thread);
static inline void ABTI_ythread_run_child(ABTI_xstream **pp, ABTI_ythread *p_self, ABTI_ythread *p_child)
__CPROVER_assigns(vf_run_child_calls, vf_run_child_self, vf_run_child_child)
__CPROVER_ensures(vf_run_child_calls == __CPROVER_old(vf_run_child_calls) + 1 && vf_run_child_self == p_self && vf_run_child_child == p_child);
static inline void ABTI_thread_terminate(ABTI_global *g, ABTI_xstream *x, ABTI_thread *p_thread)
__CPROVER_assigns(vf_term_calls, vf_term_thread, vf_clock, vf_t_term)
__CPROVER_ensures(vf_term_calls == __CPROVER_old(vf_term_calls) + 1 && vf_term_thread == p_thread && vf_clock == __CPROVER_old(vf_clock) + 1 && vf_t_term == vf_clock);
static inline void ABTI_pool_add_thread(ABTI_thread *p_thread, ABT_pool_context context)
__CPROVER_assigns(vf_add_calls, vf_add_thread, vf_add_ctx)
__CPROVER_ensures(vf_add_calls == __CPROVER_old(vf_add_calls) + 1 && vf_add_thread == p_thread && vf_add_ctx == (int)context);
#endif

ABTI_global *gp_ABTI_global; static ABTI_global glob;
static ABTI_xstream xs; static ABTI_ythread sched_y, ult; static ABTI_thread task; static int the_arg;
static void work(void *a) { n_fcalls++; f_arg_seen = a; vf_clock++; vf_t_fcall = vf_clock; state_at_fcall = task.state.val; xs_thread_at_fcall = xs.p_thread; }

#ifdef VF_UNIT_SCHEDULE
void h_schedule(void)
{
    int is_ult; ABTI_thread *u = is_ult ? &ult.thread : &task;
    ult.thread.type = ABTI_THREAD_TYPE_YIELDABLE; task.type = 0; sched_y.thread.type = ABTI_THREAD_TYPE_YIELDABLE;
    u->f_thread = work; u->p_arg = &the_arg; u->state.val = ABT_THREAD_STATE_READY;
    xs.p_thread = &sched_y.thread; ABTI_xstream *p_x = &xs;
    VF_ASSUME(vf_req_op == ABTI_THREAD_HANDLE_REQUEST_NONE || vf_req_op == ABTI_THREAD_HANDLE_REQUEST_CANCELLED || vf_req_op == ABTI_THREAD_HANDLE_REQUEST_MIGRATED);
    vf_hr_calls = 0; vf_run_child_calls = 0; vf_term_calls = 0; vf_add_calls = 0; n_fcalls = 0; vf_clock = 1;
    ABTI_ythread_schedule(&glob, &p_x, u);
    VF_ASSERT(vf_hr_calls == 1 && vf_hr_thread == u && vf_hr_allow == ABT_TRUE, "pending requests of the popped unit are handled exactly once, termination allowed");
    if (vf_req_op == ABTI_THREAD_HANDLE_REQUEST_NONE && !is_ult) {
        VF_ASSERT(n_fcalls == 1 && f_arg_seen == &the_arg, "tasklet: ITS function is invoked exactly once with ITS argument");
        VF_ASSERT(state_at_fcall == ABT_THREAD_STATE_RUNNING && xs_thread_at_fcall == &task && task.p_last_xstream == &xs && task.p_parent == &sched_y.thread, "... in state RUNNING, registered as the stream's current unit");
        VF_ASSERT(vf_term_calls == 1 && vf_term_thread == &task && vf_t_fcall < vf_t_term && xs.p_thread == &sched_y.thread && vf_run_child_calls == 0 && vf_add_calls == 0, "then terminated exactly once; the scheduler is the current unit again; not pushed anywhere");
    } else if (vf_req_op == ABTI_THREAD_HANDLE_REQUEST_NONE) {
        VF_ASSERT(vf_run_child_calls == 1 && vf_run_child_self == &sched_y && vf_run_child_child == &ult && n_fcalls == 0 && vf_term_calls == 0 && vf_add_calls == 0, "ULT: entered by exactly one context switch from the scheduler; its function is not called on the scheduler's stack");
    } else if (vf_req_op == ABTI_THREAD_HANDLE_REQUEST_CANCELLED) {
        VF_ASSERT(n_fcalls == 0 && vf_run_child_calls == 0 && vf_add_calls == 0 && vf_term_calls == 0, "cancelled unit: not run, not pushed (request handling terminated it)");
    } else {
        VF_ASSERT(vf_add_calls == 1 && vf_add_thread == u && vf_add_ctx == (int)ABT_POOL_CONTEXT_OP_THREAD_MIGRATE && n_fcalls == 0 && vf_run_child_calls == 0, "migrated unit: pushed exactly once (to its new pool) and NOT run in this step");
    }
    VF_REACH("schedule"); VF_COVER(!is_ult && n_fcalls == 1, "tasklet ran"); VF_COVER(vf_add_calls == 1, "migrated");
}
#endif

#ifdef VF_UNIT_REQUEST
static unsigned n_cancel, n_migrate; static int mig_ret;
void ABTI_thread_handle_request_cancel(ABTI_global *g, ABTI_xstream *x, ABTI_thread *t) { n_cancel++; }
int ABTI_thread_handle_request_migrate(ABTI_global *g, ABTI_local *l, ABTI_thread *t) { n_migrate++; return mig_ret; }
void h_handle_request(void)
{
    gp_ABTI_global = &glob; uint32_t rq; task.request.val = rq; ABT_bool allow; VF_ASSUME(allow == ABT_TRUE || allow == ABT_FALSE);
    { int m; mig_ret = m ? ABT_ERR_MEM : ABT_SUCCESS; } n_cancel = 0; n_migrate = 0;
    int op = ABTI_thread_handle_request(&task, allow);
    if (allow && (rq & ABTI_THREAD_REQ_CANCEL)) VF_ASSERT(op == ABTI_THREAD_HANDLE_REQUEST_CANCELLED && n_cancel == 1 && n_migrate == 0, "cancel request honoured (once) at a scheduling point where termination is allowed");
    else if (rq & ABTI_THREAD_REQ_MIGRATE) VF_ASSERT(n_cancel == 0 && n_migrate == 1 && op == (mig_ret == ABT_SUCCESS ? ABTI_THREAD_HANDLE_REQUEST_MIGRATED : ABTI_THREAD_HANDLE_REQUEST_NONE), "migration request served exactly once; MIGRATED iff it succeeded");
    else VF_ASSERT(op == ABTI_THREAD_HANDLE_REQUEST_NONE && n_cancel == 0 && n_migrate == 0, "no request: no effect");
    VF_ASSERT(!(rq & ABTI_THREAD_REQ_CANCEL) || allow || n_cancel == 0, "a suspending unit (termination not allowed) is not terminated");
    VF_REACH("handle_request");
}
#endif

#ifdef VF_UNIT_TERMINATE
static unsigned n_free; static int state_at_free;
void ABTI_thread_free(ABTI_global *g, ABTI_local *l, ABTI_thread *t) { n_free++; state_at_free = t->state.val; }
void h_terminate(void)
{
    int named; task.type = named ? ABTI_THREAD_TYPE_NAMED : 0; task.state.val = ABT_THREAD_STATE_RUNNING; n_free = 0;
    ABTI_thread_terminate(&glob, &xs, &task);
    VF_ASSERT(task.state.val == ABT_THREAD_STATE_TERMINATED, "state TERMINATED");
    VF_ASSERT(named ? n_free == 0 : (n_free == 1 && state_at_free == ABT_THREAD_STATE_TERMINATED), "unnamed unit freed automatically exactly once (after TERMINATED); a named one stays until it is freed by its owner");
    VF_REACH("terminate"); VF_COVER(named, "named"); VF_COVER(!named, "unnamed");
}
#endif

#ifdef VF_UNIT_WRAPPER
#include "arch/abtd_ythread.c"
void h_func_wrapper(void)
{
    ult.thread.type = ABTI_THREAD_TYPE_YIELDABLE; ult.thread.f_thread = work; ult.thread.p_arg = &the_arg; ult.thread.p_last_xstream = &xs; n_fcalls = 0; vf_prim_calls = 0; vf_clock = 1;
    ABTD_ythread_func_wrapper(&ult.ctx);
    VF_ASSERT(n_fcalls == 1 && f_arg_seen == &the_arg, "a started ULT invokes ITS function exactly once with ITS argument");
    VF_ASSERT(vf_prim_calls == 1 && vf_prim == VF_P_EXIT && vf_prim_self == &ult, "and then exits (terminates) exactly once");
    VF_REACH("func_wrapper");
}
#endif

#ifdef VF_UNIT_JOINER
/* rely: the joiner performs fetch_or(JOIN) at most once and then publishes a
 * non-NULL link exactly once; both are read here as arbitrary values consistent
 * with that protocol */
static ABTI_ythread joiner_y; static int link_set_at_first_load; uint32_t vf_old_req;
static inline ABTD_ythread_context *ABTD_atomic_acquire_load_ythread_context_ptr(const ABTD_ythread_context_atomic_ptr *ptr)
__CPROVER_assigns(vf_link_loads, vf_waited)
__CPROVER_ensures(vf_link_loads == 1) /* sticky: a load has happened */
__CPROVER_ensures(vf_waited == (__CPROVER_old(vf_link_loads) ? 1 : __CPROVER_old(vf_waited)))
__CPROVER_ensures(__CPROVER_return_value == NULL || __CPROVER_pointer_equals(__CPROVER_return_value, &joiner_y.ctx))
/* once the joiner's JOIN bit was seen by our fetch_or, the link shows up eventually; before that any answer */
__CPROVER_ensures((__CPROVER_old(vf_link_loads) == 0 && link_set_at_first_load) ==> __CPROVER_return_value != NULL)
/* the link is only published after the joiner's own fetch_or(JOIN) */
__CPROVER_ensures((__CPROVER_old(vf_link_loads) == 0 && !link_set_at_first_load) ==> __CPROVER_return_value == NULL);
static inline uint32_t ABTD_atomic_fetch_or_uint32(ABTD_atomic_uint32 *ptr, uint32_t v)
__CPROVER_assigns(ptr->val) __CPROVER_ensures(__CPROVER_return_value == vf_old_req && ptr->val == (vf_old_req | v));
void h_get_joiner(void)
{
    { int l; link_set_at_first_load = l; } vf_link_loads = 0; vf_waited = 0;
    /* a link visible at the first load implies the joiner had set JOIN before */
    VF_ASSUME(link_set_at_first_load ==> (vf_old_req & ABTI_THREAD_REQ_JOIN));
    ABTI_ythread *j = ABTI_ythread_atomic_get_joiner(&ult);
    if (link_set_at_first_load) VF_ASSERT(j == &joiner_y, "a published link: its owner is the joiner");
    else if (!(vf_old_req & ABTI_THREAD_REQ_JOIN)) VF_ASSERT(j == NULL && (ult.thread.request.val & ABTI_THREAD_REQ_JOIN), "no joiner iff THIS call's fetch_or was the first to set JOIN (a later joiner will see the bit and not block)");
    else VF_ASSERT(j == &joiner_y, "JOIN already set by the joiner: wait for its link, then return its owner (never NULL: the joiner is about to block)");
    VF_REACH("get_joiner"); VF_COVER(j == NULL, "none"); VF_COVER(j != NULL && vf_waited, "waited for the link");
}
#endif
