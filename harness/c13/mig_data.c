/* C13 / C18: thread.c ABTI_thread_get_mig_data -- the REAL body behind the
 * contract the migration units assume ("the existing entry or a new one; may
 * fail").  The work unit's migration data lives in its key table under the
 * internal key g_thread_mig_data_key and is created on first use.  The key
 * table (units of C16) is replaced by recording stubs with the table's
 * contract: get returns what was last set for that key, set may fail.
 * CBMC's calloc fails nondeterministically; --memory-leak-check. */
#include "vf.h"
#include "abti.h"
static void *tab_val; static int set_fail; static unsigned n_get, n_set; static const void *k_get, *k_set, *slot_get, *slot_set; static void *set_val; static int set_zeroed;
static void *vf_ktable_get(ABTD_atomic_ptr *slot, ABTI_key *k) { n_get++; k_get = k; slot_get = slot; return tab_val; }
static int vf_ktable_set(ABTI_global *g, ABTI_local *l, ABTD_atomic_ptr *slot, ABTI_key *k, void *v)
{
    n_set++; k_set = k; slot_set = slot; set_val = v;
    if (v) { ABTI_thread_mig_data *m = (ABTI_thread_mig_data *)v; set_zeroed = (m->f_migration_cb == NULL && m->p_migration_cb_arg == NULL && m->p_migration_pool.val == NULL); }
    if (set_fail) return ABT_ERR_MEM; tab_val = v; return ABT_SUCCESS;
}
#define ABTI_ktable_get vf_ktable_get
#define ABTI_ktable_set vf_ktable_set
#include <thread.c>
#undef ABTI_ktable_get
#undef ABTI_ktable_set
static ABTI_global glob; ABTI_global *gp_ABTI_global;
void h_get_mig_data(void)
{
    static ABTI_thread th; static ABTI_thread_mig_data existing; int has; tab_val = has ? &existing : NULL; { int f; set_fail = !!f; } n_get = n_set = 0; set_zeroed = 0;
    ABTI_thread_mig_data *out = (ABTI_thread_mig_data *)0x40; ABTI_local *l;
    int r = ABTI_thread_get_mig_data(&glob, l, &th, &out);
    VF_ASSERT(n_get == 1 && k_get == &g_thread_mig_data_key && slot_get == &th.p_keytable, "looks up THIS unit's table under the migration-data key");
    if (has) { VF_ASSERT(r == ABT_SUCCESS && out == &existing && n_set == 0, "existing data is returned as is (the callback registered earlier survives); nothing is allocated"); VF_REACH("existing"); return; }
    if (r == ABT_SUCCESS) {
        VF_ASSERT(n_set == 1 && k_set == &g_thread_mig_data_key && slot_set == &th.p_keytable && set_val == out && out != NULL && tab_val == out && set_zeroed, "a new, zero-initialised record (no callback, no target pool) is registered in the unit's table exactly once and returned");
        free(out); /* owned by the table: released by the key's destructor (thread_key_destructor_migration) */
        VF_REACH("created");
    } else {
        VF_ASSERT(r == ABT_ERR_MEM && out == (ABTI_thread_mig_data *)0x40 && tab_val == NULL, "failure: ABT_ERR_MEM, the output is untouched, the table holds no half-made record");
        VF_REACH("failed"); VF_COVER(n_set == 1, "registration failed (record released: leak check)"); VF_COVER(n_set == 0, "allocation failed");
    }
}
/* the key's destructor releases exactly the record */
void h_mig_data_destructor(void)
{
    ABTI_thread_mig_data *m = malloc(sizeof *m); if (!m) return;
    VF_ASSERT(g_thread_mig_data_key.f_destructor == thread_key_destructor_migration, "the migration-data key carries its destructor");
    thread_key_destructor_migration(m); /* leak check + double-free check */
    VF_REACH("destructor");
}
/* the public switches of migration: ABT_thread_set_callback (stored in the
 * unit's migration data, which is created on first use), ABT_thread_set_migratable
 * / ABT_thread_is_migratable (one type bit; the primary ULT and main schedulers
 * never become migratable) */
static void the_cb(ABT_thread t, void *a) { }
void h_api_mig_switches(void)
{
    static ABTI_thread th; static ABTI_thread_mig_data existing; gp_ABTI_global = &glob; lp_ABTI_local = NULL;
    int has; tab_val = has ? &existing : NULL; { int f; set_fail = !!f; } n_get = n_set = 0; { ABTI_thread nd; th = nd; }
    int which; VF_ASSUME(0 <= which && which <= 2); int nullh; ABT_thread h = nullh ? ABT_THREAD_NULL : (ABT_thread)&th; ABTI_thread_type ty0 = th.type; int cbarg;
    if (which == 0) {
        void (*cb0)(ABT_thread, void *) = existing.f_migration_cb; void *arg0 = existing.p_migration_cb_arg;
        int r = ABT_thread_set_callback(h, the_cb, &cbarg);
        if (nullh) VF_ASSERT(r == ABT_ERR_INV_THREAD && n_get == 0 && n_set == 0, "NULL handle refused, nothing allocated");
        else if (r == ABT_SUCCESS) { ABTI_thread_mig_data *m = (ABTI_thread_mig_data *)tab_val; VF_ASSERT(m != NULL && m->f_migration_cb == the_cb && m->p_migration_cb_arg == &cbarg && (!has || m == &existing), "the callback and its argument are stored in THIS unit's migration data (the existing record if there is one)"); if (!has) free(m); }
        else VF_ASSERT(r == ABT_ERR_MEM && !has && tab_val == NULL && existing.f_migration_cb == cb0 && existing.p_migration_cb_arg == arg0, "the record cannot be created: error, nothing registered");
        VF_ASSERT(th.type == ty0, "the unit's type is not touched");
    } else if (which == 1) {
        int on; int r = ABT_thread_set_migratable(h, on ? ABT_TRUE : ABT_FALSE);
        if (nullh) VF_ASSERT(r == ABT_ERR_INV_THREAD, "NULL handle refused");
        else if (ty0 & (ABTI_THREAD_TYPE_PRIMARY | ABTI_THREAD_TYPE_MAIN_SCHED)) VF_ASSERT(r == ABT_SUCCESS && th.type == ty0, "the primary ULT and main schedulers: accepted (1.x API) but never changed");
        else VF_ASSERT(r == ABT_SUCCESS && th.type == (on ? (ty0 | ABTI_THREAD_TYPE_MIGRATABLE) : (ty0 & ~ABTI_THREAD_TYPE_MIGRATABLE)), "exactly the MIGRATABLE bit is set / cleared");
        VF_ASSERT(n_get == 0 && n_set == 0, "no allocation");
    } else {
        ABT_bool out = 7; int r = ABT_thread_is_migratable(h, &out);
        if (nullh) VF_ASSERT(r == ABT_ERR_INV_THREAD, "NULL handle refused"); else VF_ASSERT(r == ABT_SUCCESS && out == ((ty0 & ABTI_THREAD_TYPE_MIGRATABLE) ? ABT_TRUE : ABT_FALSE) && th.type == ty0, "reports the bit, changes nothing");
    }
    VF_REACH("mig switches"); VF_COVER(which == 0 && !nullh && !has && tab_val != NULL, "callback on a fresh record");
}
