/* C13: thread.c -- migration request protocol, rejection rules, target choice
 * of ABT_thread_migrate, and the request handler. */
#include "vf.h"
#include "abti.h"
#define vf_clock vf_lock_clock_unused
#include "env/spinlock.h"
#undef vf_clock
unsigned vf_clock, vf_t_store_pool, vf_t_set_req, vf_t_assoc, vf_t_cb, vf_t_clear;
unsigned vf_assocs, vf_cb_calls, vf_migreqs; const void *vf_assoc_pool, *vf_cb_thread, *vf_cb_arg, *vf_migreq_pool, *vf_migreq_thread;
int vf_assoc_fail, vf_getmig_fail, vf_migreq_fail;
ABTI_thread_mig_data *vf_mig;

#ifdef VF_UNIT_API
/* the request primitive, verified in unit migrate_to_pool_internal */
static int thread_migrate_to_pool(ABTI_global *g, ABTI_local *l, ABTI_thread *p_thread, ABTI_pool *p_pool)
__CPROVER_assigns(vf_migreqs, vf_migreq_pool, vf_migreq_thread)
__CPROVER_ensures(vf_migreqs == __CPROVER_old(vf_migreqs) + 1 && vf_migreq_pool == p_pool && vf_migreq_thread == p_thread)
__CPROVER_ensures(__CPROVER_return_value == (vf_migreq_fail ? ABT_ERR_MEM : ABT_SUCCESS));
#else
static inline int ABTI_thread_set_associated_pool(ABTI_global *g, ABTI_thread *p_thread, ABTI_pool *p_pool)
__CPROVER_requires(__CPROVER_is_fresh(p_thread, sizeof(*p_thread)))
__CPROVER_assigns(p_thread->p_pool, p_thread->unit, vf_assocs, vf_assoc_pool, vf_clock, vf_t_assoc)
__CPROVER_ensures(vf_assocs == __CPROVER_old(vf_assocs) + 1 && vf_assoc_pool == p_pool && vf_clock == __CPROVER_old(vf_clock) + 1 && vf_t_assoc == vf_clock)
__CPROVER_ensures(vf_assoc_fail ? (__CPROVER_return_value != ABT_SUCCESS && p_thread->p_pool == __CPROVER_old(p_thread->p_pool) && p_thread->unit == __CPROVER_old(p_thread->unit))
                                : (__CPROVER_return_value == ABT_SUCCESS && p_thread->p_pool == p_pool));
static inline void ABTD_atomic_relaxed_store_ptr(ABTD_atomic_ptr *ptr, void *val)
__CPROVER_requires(__CPROVER_is_fresh(ptr, sizeof(*ptr)))
__CPROVER_assigns(ptr->val, vf_clock, vf_t_store_pool) __CPROVER_ensures(ptr->val == val && vf_clock == __CPROVER_old(vf_clock) + 1 && vf_t_store_pool == vf_clock);
static inline uint32_t ABTD_atomic_fetch_or_uint32(ABTD_atomic_uint32 *ptr, uint32_t v)
__CPROVER_requires(__CPROVER_is_fresh(ptr, sizeof(*ptr)))
__CPROVER_assigns(ptr->val, vf_clock, vf_t_set_req) __CPROVER_ensures(ptr->val == (__CPROVER_old(ptr->val) | v) && vf_clock == __CPROVER_old(vf_clock) + 1 && vf_t_set_req == vf_clock);
static inline uint32_t ABTD_atomic_fetch_and_uint32(ABTD_atomic_uint32 *ptr, uint32_t v)
__CPROVER_requires(__CPROVER_is_fresh(ptr, sizeof(*ptr)))
__CPROVER_assigns(ptr->val, vf_clock, vf_t_clear) __CPROVER_ensures(ptr->val == (__CPROVER_old(ptr->val) & v) && vf_clock == __CPROVER_old(vf_clock) + 1 && vf_t_clear == vf_clock);
#endif
/* migration data of the unit: the existing entry or a new one; may fail (allocation) */
int ABTI_thread_get_mig_data(ABTI_global *g, ABTI_local *l, ABTI_thread *t, ABTI_thread_mig_data **pp)
__CPROVER_assigns(*pp)
__CPROVER_ensures(vf_getmig_fail ? __CPROVER_return_value == ABT_ERR_MEM : (__CPROVER_return_value == ABT_SUCCESS && __CPROVER_pointer_equals(*pp, vf_mig)));
#include <thread.c>

static ABTI_global glob; ABTI_global *gp_ABTI_global; static ABTI_thread th; static ABTI_pool cur_pool, new_pool; static ABTI_thread_mig_data md;
static void mig_cb(ABT_thread t, void *arg) { vf_cb_calls++; vf_clock++; vf_t_cb = vf_clock; vf_cb_thread = t; vf_cb_arg = arg; }

#ifdef VF_UNIT_INTERNAL
void h_migrate_to_pool_internal(void)
{
    vf_mig = &md; { int f; vf_getmig_fail = !!f; } th.p_pool = &cur_pool; uint32_t rq0 = th.request.val; void *mp0 = md.p_migration_pool.val; vf_clock = 1;
    int r = thread_migrate_to_pool(&glob, NULL, &th, &new_pool);
    if (vf_getmig_fail) VF_ASSERT(r == ABT_ERR_MEM && th.request.val == rq0 && md.p_migration_pool.val == mp0, "migration data cannot be obtained: error, NO request is set, nothing changed");
    else { VF_ASSERT(r == ABT_SUCCESS && md.p_migration_pool.val == (void *)&new_pool && th.request.val == (rq0 | ABTI_THREAD_REQ_MIGRATE), "target pool recorded and the MIGRATE request raised");
           VF_ASSERT(vf_t_store_pool < vf_t_set_req, "the target pool is stored BEFORE the request becomes visible (the handler reads it after seeing the request)");
           VF_ASSERT(th.p_pool == &cur_pool, "the association itself is not changed by a request"); }
    VF_REACH("thread_migrate_to_pool");
}
void h_handle_request_migrate(void)
{
    vf_mig = &md; { int f, g2; vf_getmig_fail = !!f; vf_assoc_fail = !!g2; } th.p_pool = &cur_pool; md.p_migration_pool.val = &new_pool; int has_cb; md.f_migration_cb = has_cb ? mig_cb : NULL; int cbarg; md.p_migration_cb_arg = &cbarg;
    th.request.val |= ABTI_THREAD_REQ_MIGRATE; uint32_t rq0 = th.request.val; ABT_unit u0 = th.unit; vf_cb_calls = 0; vf_assocs = 0; vf_clock = 1;
    int r = ABTI_thread_handle_request_migrate(&glob, NULL, &th);
    if (r == ABT_SUCCESS) {
        VF_ASSERT(th.p_pool == &new_pool && vf_assocs == 1 && vf_assoc_pool == &new_pool, "the unit is now associated with the REQUESTED pool (its next scheduling goes through it)");
        VF_ASSERT(has_cb ? (vf_cb_calls == 1 && vf_cb_thread == (void *)&th && vf_cb_arg == &cbarg && vf_t_assoc < vf_t_cb) : vf_cb_calls == 0, "migration callback exactly once per performed migration, after the migration took effect");
        VF_ASSERT(!(th.request.val & ABTI_THREAD_REQ_MIGRATE) && (th.request.val | ABTI_THREAD_REQ_MIGRATE) == rq0, "only the MIGRATE request is cleared");
    } else {
        VF_ASSERT(th.p_pool == &cur_pool && th.unit == u0 && vf_cb_calls == 0 && th.request.val == rq0, "failed migration: association, unit and request unchanged, callback NOT called");
    }
    VF_ASSERT((r != ABT_SUCCESS) == (vf_getmig_fail || vf_assoc_fail), "fails iff a callee failed");
    VF_REACH("handle_request_migrate"); VF_COVER(r == ABT_SUCCESS && has_cb, "with callback"); VF_COVER(r != ABT_SUCCESS && vf_assoc_fail && !vf_getmig_fail, "association failed");
}
/* Rely/guarantee: while the handler runs, the unit is still a legitimate target of migration requests -- another stream,
 * an external thread, or the user's migration callback itself (it receives the unit's handle) may call
 * ABT_thread_migrate_to_pool(unit, third pool), which stores the pool and raises MIGRATE (unit migrate_to_pool_internal)
 * and returns ABT_SUCCESS.  The callback is where user code runs for an arbitrary time, so the environment step is placed
 * there.  Guarantee demanded by C13 ("for all interleavings of migration requests ... repeated, overwritten"): an
 * accepted request is not erased by the handler of an EARLIER request -- when the handler returns, the later request has
 * either been performed (the unit is associated with the third pool) or is still pending (MIGRATE raised, its pool
 * recorded), so that the unit's next scheduling serves it. */
static ABTI_pool third_pool; static int env_req, env_req_done;
static void mig_cb_env(ABT_thread t, void *arg) { mig_cb(t, arg); if (env_req) { md.p_migration_pool.val = &third_pool; th.request.val |= ABTI_THREAD_REQ_MIGRATE; env_req_done = 1; } }
void h_handle_request_migrate_rg(void)
{
    vf_mig = &md; vf_getmig_fail = 0; vf_assoc_fail = 0; th.p_pool = &cur_pool; md.p_migration_pool.val = &new_pool; md.f_migration_cb = mig_cb_env; int cbarg; md.p_migration_cb_arg = &cbarg;
    th.request.val |= ABTI_THREAD_REQ_MIGRATE; vf_cb_calls = 0; vf_assocs = 0; vf_clock = 1; { int e; env_req = !!e; } env_req_done = 0;
    int r = ABTI_thread_handle_request_migrate(&glob, NULL, &th);
    VF_ASSERT(r == ABT_SUCCESS && vf_cb_calls == 1, "the first request is performed, callback once");
    if (env_req_done) VF_ASSERT(th.p_pool == &third_pool || ((th.request.val & ABTI_THREAD_REQ_MIGRATE) && md.p_migration_pool.val == (void *)&third_pool), "a migration request accepted while the handler of an earlier request runs is NOT erased: it has been performed or is still pending when the handler returns");
    else VF_ASSERT(th.p_pool == &new_pool && !(th.request.val & ABTI_THREAD_REQ_MIGRATE), "no further request: migrated, nothing pending");
    VF_REACH("handle_request_migrate rg"); VF_COVER(env_req_done, "a request arrived during the callback");
}
#endif

#ifdef VF_UNIT_API
static ABTI_xstream x1, x2, x3, last_xs; static ABTI_sched s1, s2, s3; static ABT_pool pl1[2], pl2[2], pl3[2]; static ABTI_pool pa, pb, pc, pd;
int ABTI_sched_get_migration_pool(ABTI_sched *p_sched, ABTI_pool *src, ABTI_pool **pp) { VF_ASSERT(p_sched->num_pools >= 1, "has a pool"); *pp = (ABTI_pool *)p_sched->pools[0]; return ABT_SUCCESS; }
static void common(void)
{
    gp_ABTI_global = &glob; lp_ABTI_local = NULL; vf_migreqs = 0; vf_lock_held = 0; { int f; vf_migreq_fail = !!f; }
    int mig, ms; th.type = (mig ? ABTI_THREAD_TYPE_MIGRATABLE : 0) | (ms ? ABTI_THREAD_TYPE_MAIN_SCHED : 0); th.p_pool = &pa; th.request.val = 0; th.p_last_xstream = &last_xs;
}
void h_migrate_to_pool(void)
{
    common(); int same; ABTI_pool *tgt = same ? &pa : &pb;
    int r = ABT_thread_migrate_to_pool((ABT_thread)&th, (ABT_pool)tgt);
    if (!(th.type & ABTI_THREAD_TYPE_MIGRATABLE) || (th.type & ABTI_THREAD_TYPE_MAIN_SCHED)) VF_ASSERT(r == ABT_ERR_INV_THREAD && vf_migreqs == 0, "non-migratable unit / main-scheduler ULT rejected, no request");
    else if (same) VF_ASSERT(r == ABT_ERR_MIGRATION_TARGET && vf_migreqs == 0, "request naming the unit's current pool rejected, no request");
    else VF_ASSERT(vf_migreqs == 1 && vf_migreq_pool == &pb && vf_migreq_thread == &th && r == (vf_migreq_fail ? ABT_ERR_MEM : ABT_SUCCESS), "otherwise exactly one request for the named pool");
    VF_ASSERT(ABT_thread_migrate_to_pool(ABT_THREAD_NULL, (ABT_pool)&pb) == ABT_ERR_INV_THREAD && ABT_thread_migrate_to_pool((ABT_thread)&th, ABT_POOL_NULL) == ABT_ERR_INV_POOL, "NULL handles");
    VF_REACH("migrate_to_pool");
}
static void two_pool_sched(ABTI_sched *s, ABT_pool *arr, ABTI_pool *a, ABTI_pool *b, int n) { arr[0] = (ABT_pool)a; arr[1] = (ABT_pool)b; s->pools = arr; s->num_pools = n; }
void h_migrate_to_xstream_sched(void)
{
    common(); int n; VF_ASSUME(1 <= n && n <= 2); int shares; two_pool_sched(&s1, pl1, &pb, shares ? &pa : &pc, n); x1.p_main_sched = &s1; int viasched;
    int r = viasched ? ABT_thread_migrate_to_sched((ABT_thread)&th, (ABT_sched)&s1) : ABT_thread_migrate_to_xstream((ABT_thread)&th, (ABT_xstream)&x1);
    int contains = shares && n == 2;
    if (!(th.type & ABTI_THREAD_TYPE_MIGRATABLE) || (th.type & ABTI_THREAD_TYPE_MAIN_SCHED)) VF_ASSERT(r == ABT_ERR_INV_THREAD && vf_migreqs == 0, "rejected, no request");
    else if (contains) VF_ASSERT(r == ABT_ERR_MIGRATION_TARGET && vf_migreqs == 0, "a scheduler/stream one of whose pools is the unit's current pool is rejected, no request");
    else VF_ASSERT(vf_migreqs == 1 && vf_migreq_pool == &pb && r == (vf_migreq_fail ? ABT_ERR_MEM : ABT_SUCCESS), "one request, for the pool chosen by the scheduler's migration-pool rule");
    VF_REACH("migrate_to_xstream/sched"); VF_COVER(contains, "contains current pool");
}
/* ABT_thread_migrate: "picks some other running execution stream when one exists" */
void h_thread_migrate(void)
{
    common(); vf_migreq_fail = 0;
    ABTI_xstream *xs[3] = { &x1, &x2, &x3 }; ABTI_sched *ss[3] = { &s1, &s2, &s3 }; ABT_pool *pls[3] = { pl1, pl2, pl3 }; ABTI_pool *own[3] = { &pb, &pc, &pd };
    int n; VF_ASSUME(1 <= n && n <= 3); int eligible_exists = 0, first_eligible = -1;
    for (int i = 0; i < 3; i++) {
        int running, shares, is_last; xs[i]->state.val = running ? ABT_XSTREAM_STATE_RUNNING : ABT_XSTREAM_STATE_TERMINATED;
        two_pool_sched(ss[i], pls[i], own[i], shares ? &pa : own[i], 2); xs[i]->p_main_sched = ss[i]; xs[i]->p_next = (i + 1 < n) ? xs[i + 1] : NULL;
        if (is_last && i == 0) th.p_last_xstream = xs[0];
        int elig = i < n && running && xs[i] != th.p_last_xstream && !shares;
        if (elig && !eligible_exists) { eligible_exists = 1; first_eligible = i; }
    }
    glob.p_xstream_head = &x1; glob.num_xstreams = n; vf_lock_held = 0; unsigned acq0 = vf_acquires, rel0 = vf_releases;
    int r = ABT_thread_migrate((ABT_thread)&th);
    VF_ASSERT(vf_lock_held == 0 && vf_acquires - acq0 == vf_releases - rel0, "the stream-list lock is released on EVERY return path (a failed snapshot allocation included): a failed call must not wedge stream creation / finalisation");
    if (!(th.type & ABTI_THREAD_TYPE_MIGRATABLE) || (th.type & ABTI_THREAD_TYPE_MAIN_SCHED)) { VF_ASSERT(r == ABT_ERR_INV_THREAD && vf_migreqs == 0, "rejected, no request"); }
    else if (r == ABT_ERR_MEM) { VF_ASSERT(vf_migreqs == 0, "allocation of the stream snapshot failed: nothing requested"); }
    else if (eligible_exists) {
        VF_ASSERT(r == ABT_SUCCESS && vf_migreqs == 1, "another RUNNING stream that is not the unit's last stream and does not serve its pool exists => SUCCESS with exactly one request");
        VF_ASSERT(vf_migreq_pool == own[0] || vf_migreq_pool == own[1] || vf_migreq_pool == own[2], "... for a pool of such a stream");
        VF_ASSERT(vf_migreq_pool != &pa, "never the unit's current pool");
    } else VF_ASSERT(r == ABT_ERR_MIGRATION_NA && vf_migreqs == 0, "ABT_ERR_MIGRATION_NA only if no such stream exists; nothing requested");
    VF_REACH("thread_migrate"); VF_COVER(eligible_exists && r == ABT_SUCCESS && n == 3 && first_eligible == 2, "third stream chosen"); VF_COVER(!eligible_exists && r == ABT_ERR_MIGRATION_NA, "none");
}
#endif
