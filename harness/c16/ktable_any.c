/* C16: abti_key.h ABTI_ktable_get -- the lock-free look-up of a key in a work
 * unit's table, on a bucket chain of ANY length (summary node S stands for every
 * interior element: the loop contract lists its fields among the loop's assigns
 * targets, so the iteration examined sees an arbitrary element -- which also
 * covers elements appended or overwritten concurrently by other work units,
 * since nodes are never unlinked or freed while the table lives).
 * Decided without a bound: the walk is memory safe; a non-NULL result is the
 * value of an element of this bucket whose key id equals the key's id; NULL /
 * LOCKED tables have no values; nothing is written. */
#include "vf.h"
struct ABTI_ktelem; struct ABTI_ktelem *vf_first, *vf_sum;
#include "abti.h"
static struct { ABTI_ktable t; ABTD_atomic_ptr more[3]; } T; static ABTI_ktelem F, S; static ABTI_key key; static ABTD_atomic_ptr slot;
void h_ktable_get_any(void)
{
    T.t.size = 1; /* one bucket: every key collides (the slot arithmetic for larger tables is unit ktable_idx; indexing the one-element flexible array beyond 0 is outside CBMC's object model) */ vf_first = &F; vf_sum = &S;
    uint32_t idx = key.id & (T.t.size - 1);
    { int e; T.t.p_elems[idx].val = e ? NULL : (void *)&F; } { int m; F.p_next.val = m ? (void *)&S : NULL; } { int m; S.p_next.val = m ? (void *)&S : NULL; }
    int which; VF_ASSUME(0 <= which && which <= 2); slot.val = which == 0 ? NULL : which == 1 ? (void *)ABTI_KTABLE_LOCKED : (void *)&T.t;
    void *fv0 = F.value; uint32_t fk0 = F.key_id;
    void *v = ABTI_ktable_get(&slot, &key);
    if (which != 2) VF_ASSERT(v == NULL, "a work unit without a table (or whose table is being created) has no value for any key");
    else if (v != NULL) VF_ASSERT((T.t.p_elems[idx].val != NULL && fk0 == key.id && v == fv0) || (S.key_id == key.id && v == S.value), "a value returned is the value of an element of the key's bucket whose key id is the key's id");
    VF_ASSERT(F.value == fv0 && F.key_id == fk0 && slot.val == (which == 0 ? NULL : which == 1 ? (void *)ABTI_KTABLE_LOCKED : (void *)&T.t), "a look-up writes nothing");
    VF_REACH("ktable_get any"); VF_COVER(which == 2 && v != NULL && fk0 != key.id, "found deep in the chain"); VF_COVER(which == 2 && v == NULL && T.t.p_elems[idx].val != NULL, "walked to the end"); VF_COVER(which == 1, "table under creation");
}
