/* C16 / C15 / C18: abti_key.h -- memory layout of a key table: the table, the
 * elements carved from its spare room, from further descriptor blocks or from
 * malloc never overlap each other, the block header or the provenance flag
 * word, and ABTI_ktable_free returns every block exactly once.  External-thread
 * path (descriptor blocks from malloc), real ABTI_mem_alloc_desc/free_desc. */
#include "vf.h"
#include "abti.h"
ABTI_global *gp_ABTI_global; static ABTI_global glob;
#include <local.c>
#include <key.c>
int nondet_int(void);
#define NEL 1
void h_ktable_mem(void)
{
    gp_ABTI_global = &glob; lp_ABTI_local = NULL; glob.key_table_size = 1u << VF_LG;
    ABTI_ktable *kt = (ABTI_ktable *)16;
    int r = ABTI_ktable_create(&glob, NULL, &kt);
    if (r != ABT_SUCCESS) { VF_ASSERT(kt == (ABTI_ktable *)16, "failure: output untouched"); VF_REACH("create failed"); return; }
    VF_ASSERT(kt->size == (int)glob.key_table_size, "table of the configured size");
    for (int i = 0; i < 4; i++) if (i < kt->size) VF_ASSERT(kt->p_elems[i].val == NULL, "all slots empty");
    char *reg[NEL]; size_t sz[NEL]; int n = 0;
    for (int k = 0; k < NEL; k++) {
        size_t s = VF_ELSZ;
        void *m = (void *)32; int r2 = ABTI_ktable_alloc_elem(NULL, kt, s, &m);
        if (r2 != ABT_SUCCESS) { VF_ASSERT(m == (void *)32, "failed element allocation: output untouched, table still usable"); break; }
        VF_ASSERT(((uintptr_t)__CPROVER_POINTER_OFFSET(m) & (ABTU_MAX_ALIGNMENT - 1)) == 0, "element memory keeps the maximum alignment (block bases are cache-line aligned)");
        reg[n] = (char *)m; sz[n] = s; n++;
        ((char *)m)[0] = 0x40 + k; ((char *)m)[s - 1] = 0x40 + k; /* first and last byte of the region: both ends must lie inside the block, off the header / flag word */
    }
    for (int k = 0; k < NEL; k++) if (k < n) VF_ASSERT(reg[k][0] == 0x40 + k && reg[k][sz[k] - 1] == 0x40 + k, "no element region was overwritten by a later one");
    if (offsetof(ABTI_ktable, p_elems) + sizeof(ABTD_atomic_ptr) * glob.key_table_size <= ABTI_KTABLE_DESC_SIZE) VF_ASSERT(*(uint32_t *)((char *)kt - sizeof(ABTI_ktable_mem_header) + ABTI_MEM_POOL_DESC_SIZE) == 1 && ((ABTI_ktable_mem_header *)((char *)kt - sizeof(ABTI_ktable_mem_header)))->is_from_mempool == ABT_TRUE, "the provenance flag word and the header of the table's block were not overwritten by element memory");
    VF_ASSERT(kt->size == (int)glob.key_table_size, "the table header survived"); for (int i = 0; i < 4; i++) if (i < kt->size) VF_ASSERT(kt->p_elems[i].val == NULL, "the slots survived");
    ABTI_ktable_free(&glob, NULL, kt); /* CBMC: every free() gets a live block base; with --memory-leak-check nothing is left */
    VF_REACH("ktable_mem"); VF_COVER(n == 1, "element allocated");
#if VF_ELSZ > 16
    VF_COVER(n == 0, "element allocation failed");
#endif

}
