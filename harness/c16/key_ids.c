/* C16: key.c -- the id space of keys.  Elements of a key table are matched by
 * key id only, so a user key must never get the id of one of the runtime's own
 * keys (the stackable-scheduler key and the migration-data key live in the same
 * tables): user ids start at ABTI_KEY_ID_END_ and only grow.  This unit is run
 * WITHOUT contract instrumentation so that the static initialiser of the id
 * counter is what CBMC sees. */
#include "vf.h"
#include "abti.h"
ABTI_global *gp_ABTI_global; static ABTI_global glob;
#include <key.c>
void h_key_ids(void)
{
    gp_ABTI_global = &glob;
    VF_ASSERT(ABTI_KEY_ID_STACKABLE_SCHED < ABTI_KEY_ID_END_ && ABTI_KEY_ID_MIGRATION < ABTI_KEY_ID_END_ && ABTI_KEY_ID_STACKABLE_SCHED != ABTI_KEY_ID_MIGRATION, "the runtime's own keys have distinct ids below ABTI_KEY_ID_END_");
    VF_ASSERT(g_key_id.val >= ABTI_KEY_ID_END_, "the id counter of user keys starts at or above ABTI_KEY_ID_END_");
    ABT_key k1 = ABT_KEY_NULL, k2 = ABT_KEY_NULL;
    if (ABT_key_create(NULL, &k1) == ABT_SUCCESS && ABT_key_create(NULL, &k2) == ABT_SUCCESS) {
        uint32_t i1 = ABTI_key_get_ptr(k1)->id, i2 = ABTI_key_get_ptr(k2)->id;
        VF_ASSERT(i1 >= ABTI_KEY_ID_END_ && i2 >= ABTI_KEY_ID_END_ && i1 != i2, "the first user keys of a process get ids distinct from each other and from every reserved id");
        VF_COVER(1, "two keys created");
    }
    VF_REACH("key ids");
}
