/* C16: abti_key.h / key.c -- the per-work-unit key table.
 * Tables of size 1 make every key collide (the interesting case); the slot
 * arithmetic is checked separately for every power-of-two size. */
#include "vf.h"
#include "abti.h"
#ifdef VF_UNIT_SET
/* ghost */
ABTD_atomic_ptr *vf_tail_link;    /* the link at the end of the chain (harness knows it) */
uint32_t vf_other_key; void *vf_other_val; int vf_env_added; ABTI_ktelem *vf_env_elem;
int vf_lock_held; unsigned vf_acq, vf_rel; int vf_alloc_fail; ABTI_ktelem *vf_new_elem; unsigned vf_allocs;
/* While we wait for the table lock another work unit (the table of a unit can
 * be written by others: ABT_thread_set_specific) appends an element for
 * another key at the tail of the same chain. */
static inline void ABTD_spinlock_acquire(ABTD_spinlock *p_lock)
__CPROVER_requires(vf_lock_held == 0)
__CPROVER_assigns(vf_lock_held, vf_acq, vf_tail_link->val, vf_env_added, vf_env_elem)
__CPROVER_ensures(vf_lock_held == 1 && vf_acq == __CPROVER_old(vf_acq) + 1)
__CPROVER_ensures(vf_env_added == 0 ? vf_tail_link->val == __CPROVER_old(vf_tail_link->val)
    : (__CPROVER_is_fresh(vf_tail_link->val, sizeof(ABTI_ktelem)) && __CPROVER_pointer_equals(vf_env_elem, vf_tail_link->val) &&
       ((ABTI_ktelem *)vf_tail_link->val)->key_id == vf_other_key && ((ABTI_ktelem *)vf_tail_link->val)->value == vf_other_val &&
       ((ABTI_ktelem *)vf_tail_link->val)->p_next.val == NULL));
static inline void ABTD_spinlock_release(ABTD_spinlock *p_lock)
__CPROVER_requires(vf_lock_held == 1)
__CPROVER_assigns(vf_lock_held, vf_rel) __CPROVER_ensures(vf_lock_held == 0 && vf_rel == __CPROVER_old(vf_rel) + 1);
static inline int ABTI_ktable_alloc_elem(ABTI_local *p_local, ABTI_ktable *p_ktable, size_t size, void **pp_mem)
__CPROVER_assigns(*pp_mem, vf_allocs)
__CPROVER_ensures(vf_allocs == __CPROVER_old(vf_allocs) + 1)
__CPROVER_ensures(vf_alloc_fail ? __CPROVER_return_value == ABT_ERR_MEM : (__CPROVER_return_value == ABT_SUCCESS && __CPROVER_is_fresh(*pp_mem, size) && __CPROVER_pointer_equals(vf_new_elem, *pp_mem)));

static ABTI_ktable tbl; static ABTI_ktelem e0, e1; static ABTI_key key;
static void destr(void *v) {}
static void *walk(uint32_t id, int *found)
{
    ABTI_ktelem *p = (ABTI_ktelem *)tbl.p_elems[0].val; *found = 0;
    for (int i = 0; i < 5; i++) { if (!p) return NULL; if (p->key_id == id) { *found = 1; return p->value; } p = (ABTI_ktelem *)p->p_next.val; }
    return NULL;
}
void h_ktable_set_impl(void)
{
    int k; VF_ASSUME(0 <= k && k <= 2);
    tbl.size = 1; tbl.p_elems[0].val = NULL; vf_tail_link = &tbl.p_elems[0];
    VF_ASSUME(e0.key_id != e1.key_id && vf_other_key != e0.key_id && vf_other_key != e1.key_id);
    if (k >= 1) { tbl.p_elems[0].val = &e0; e0.p_next.val = NULL; vf_tail_link = &e0.p_next; }
    if (k >= 2) { e0.p_next.val = &e1; e1.p_next.val = NULL; vf_tail_link = &e1.p_next; }
    void *v0 = e0.value, *v1 = e1.value;
    VF_ASSUME(key.id != vf_other_key); key.f_destructor = destr;
    { int a, b; vf_alloc_fail = !!a; vf_env_added = !!b; } vf_lock_held = 0; vf_acq = 0; vf_rel = 0; vf_allocs = 0;
    int valtag; void *val = &valtag; ABT_bool safe = ABT_TRUE;
    int r = ABTI_ktable_set_impl(NULL, &tbl, &key, val, safe);
    int existed = (k >= 1 && key.id == e0.key_id) || (k >= 2 && key.id == e1.key_id);
    VF_ASSERT(vf_lock_held == 0 && vf_acq == vf_rel, "table lock released on every path");
    int f; void *g = walk(key.id, &f);
    if (r == ABT_SUCCESS) {
        VF_ASSERT(f && g == val, "get returns the last value set for that key");
        VF_ASSERT(existed ? vf_allocs == 0 : (vf_allocs == 1 && vf_new_elem->f_destructor == destr && vf_new_elem->key_id == key.id), "an element is allocated only for a new key and carries the key's destructor");
    } else {
        VF_ASSERT(r == ABT_ERR_MEM && !existed && !f, "allocation failure: the key stays unset, nothing else changes");
    }
    /* values never leak between keys: every other key keeps its element and value */
    if (k >= 1 && key.id != e0.key_id) { g = walk(e0.key_id, &f); VF_ASSERT(f && g == v0, "another key's value is untouched"); }
    if (k >= 2 && key.id != e1.key_id) { g = walk(e1.key_id, &f); VF_ASSERT(f && g == v1, "another key's value is untouched"); }
    if (vf_env_added && vf_acq > 0) { g = walk(vf_other_key, &f); VF_ASSERT(f && g == vf_other_val, "an element appended concurrently by another work unit is not lost"); }
    VF_REACH("set_impl"); VF_COVER(r == ABT_SUCCESS && !existed && vf_env_added && k == 2, "append behind a concurrent append"); VF_COVER(existed && r == ABT_SUCCESS, "overwrite"); VF_COVER(r != ABT_SUCCESS, "alloc failure");
}
#endif

#ifdef VF_UNIT_GETFREE
#include <key.c>
static unsigned n_d; static void *d_arg[4];
static void destr(void *v) { d_arg[n_d & 3] = v; n_d++; }
void ABTI_mem_free_desc_stub(void) {}
static ABTI_ktable tbl; static ABTI_ktelem e[3];
void h_ktable_get_free(void)
{
    int k; VF_ASSUME(0 <= k && k <= 3); tbl.size = 1; tbl.p_elems[0].val = k ? &e[0] : NULL; tbl.p_used_mem = NULL; n_d = 0;
    int want = 0; void *vals[3];
    for (int i = 0; i < 3; i++) { int hd; uint32_t kid; void *vv; e[i].key_id = kid; e[i].value = vv; /* statics are zero without DFCC: make them symbolic */ e[i].f_destructor = hd ? destr : NULL; e[i].p_next.val = (i + 1 < k) ? &e[i + 1] : NULL; vals[i] = e[i].value; for (int j = 0; j < i; j++) VF_ASSUME(e[i].key_id != e[j].key_id); if (i < k && hd && e[i].value) want++; }
    ABTI_key key; ABTD_atomic_ptr slot; slot.val = &tbl;
    void *g = ABTI_ktable_get(&slot, &key);
    void *expect = NULL; for (int i = 0; i < 3; i++) if (i < k && e[i].key_id == key.id) expect = e[i].value;
    VF_ASSERT(g == expect, "get returns the value stored for that key, NULL if none");
    slot.val = NULL; VF_ASSERT(ABTI_ktable_get(&slot, &key) == NULL, "a unit without a table has no values");
    slot.val = ABTI_KTABLE_LOCKED; VF_ASSERT(ABTI_ktable_get(&slot, &key) == NULL, "a table being created has no values yet");
    ABTI_ktable_free(NULL, NULL, &tbl);
    VF_ASSERT(n_d == (unsigned)want, "at free: one destructor call per element that has a destructor and a non-NULL value, no other calls");
    for (int i = 0; i < 3; i++) if (i < k && e[i].f_destructor && e[i].value) { int seen = 0; for (int j = 0; j < 4; j++) if ((unsigned)j < n_d && d_arg[j] == vals[i]) seen++; VF_ASSERT(seen >= 1, "each such value is passed to its destructor"); }
    VF_REACH("get/free"); VF_COVER(k == 3 && want == 3, "three destructors"); VF_COVER(k == 3 && want == 1, "only one");
}
void h_ktable_idx(void)
{
    ABTI_key key; int e2; VF_ASSUME(0 <= e2 && e2 <= 30); int size = 1 << e2;
    VF_ASSERT(ABTI_ktable_get_idx(&key, size) < (uint32_t)size, "slot index inside the table for every key id and every power-of-two size up to 2^30");
    VF_REACH("idx");
}
#endif
