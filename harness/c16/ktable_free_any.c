/* C16: key.c ABTI_ktable_free on a table of any size (1..4 slots here, ghost slot index) whose chains have ANY length:
 * the element under observation T sits at ANY position of slot vf_k:  slot[vf_k] -> [S1]* -> T -> [S2]* , every other
 * slot -> [S2]*  (S1 / S2: one object each for the elements before / after T; their values differ from T's).
 * Decided without a bound on the chains: T's destructor is called EXACTLY ONCE with T's value iff T has a destructor and
 * a non-NULL value -- wherever T stands, whatever the other elements are (an element without destructor or with a NULL
 * value in front of T does not end the walk: seeded change C16-m9) -- and never otherwise. */
#include "vf.h"
struct ABTI_ktelem; struct ABTI_ktable; struct ABTI_ktelem *vf_S1, *vf_S2, *vf_T; struct ABTI_ktable *vf_tab; int vf_k, vf_t_called, vf_want, vf_bad; void *vf_tval;
#include "abti.h"
#include <key.c>
static ABTI_ktelem S1, S2, T; static char TV;
static void destr(void *v) { if (v == vf_tval) { if (vf_t_called) vf_bad = 1; vf_t_called = 1; } }
void h_ktable_free_any(void)
{
    vf_S1 = &S1; vf_S2 = &S2; vf_T = &T; ABTI_ktable *tb = (ABTI_ktable *)malloc(sizeof(ABTI_ktable) + 3 * sizeof(ABTD_atomic_ptr)); VF_ASSUME(tb != NULL); /* trailing-array idiom of the real table */ vf_tab = tb; vf_t_called = 0; vf_bad = 0;
    int sz; VF_ASSUME(1 <= sz && sz <= 4); tb->size = sz; { int k; VF_ASSUME(0 <= k && k < sz); vf_k = k; } tb->p_used_mem = NULL;
    { int hv, hd; T.value = hv ? (void *)&TV : NULL; T.f_destructor = hd ? destr : NULL; } vf_tval = T.value; vf_want = (T.f_destructor && T.value) ? 1 : 0;
    { void *v1, *v2; int d1, d2; VF_ASSUME(v1 != (void *)&TV && v2 != (void *)&TV); S1.value = v1; S2.value = v2; S1.f_destructor = d1 ? destr : NULL; S2.f_destructor = d2 ? destr : NULL; }
    { int a, b, c; S1.p_next.val = a ? (void *)&S1 : (void *)&T; T.p_next.val = b ? (void *)&S2 : NULL; S2.p_next.val = c ? (void *)&S2 : NULL; }
    for (int i = 0; i < 4; i++) { int h; tb->p_elems[i].val = (i == vf_k) ? (h ? (void *)&S1 : (void *)&T) : (h ? (void *)&S2 : NULL); }
    ABTI_ktable_free(NULL, NULL, tb);
    VF_ASSERT(!vf_bad && vf_t_called == vf_want, "at free the destructor of an element runs exactly once with its value iff it has a destructor and a non-NULL value -- at any slot, at any position of a chain of any length");
    VF_REACH("ktable_free any"); VF_COVER(vf_want == 1 && tb->p_elems[vf_k].val == (void *)&S1, "behind other elements"); VF_COVER(vf_want == 0, "nothing to destroy");
}
