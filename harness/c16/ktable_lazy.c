/* C16/C18: ABTI_ktable_set -- lazy creation of a unit's key table through the
 * slot protocol NULL -> LOCKED -> table.  Rely: the slot holds NULL, LOCKED or a
 * valid table; only the holder of LOCKED writes it.  The CAS and the loads
 * return arbitrary values consistent with that. */
#include "vf.h"
int vf_i_locked; int vf_waited; /* ghost used by the inserted loop contracts */
struct ABTI_ktable; struct ABTI_ktable *vf_tbl; unsigned vf_creates, vf_stores; void *vf_last_store;
#include "abti.h"
int vf_create_fail; unsigned vf_sets; const void *vf_set_table; int vf_set_fail;
ABTD_atomic_ptr *vf_slot;
static inline int ABTD_atomic_bool_cas_weak_ptr(ABTD_atomic_ptr *ptr, void *oldv, void *newv)
__CPROVER_requires(vf_i_locked == 0 && oldv == NULL && newv == ABTI_KTABLE_LOCKED)
__CPROVER_assigns(vf_i_locked) __CPROVER_ensures((__CPROVER_return_value == 0 || __CPROVER_return_value == 1) && vf_i_locked == __CPROVER_return_value);
static inline void *ABTD_atomic_acquire_load_ptr(const ABTD_atomic_ptr *ptr)
__CPROVER_assigns()
/* NULL, LOCKED, or the table another work unit published */
__CPROVER_ensures(__CPROVER_return_value == NULL || __CPROVER_return_value == ABTI_KTABLE_LOCKED || __CPROVER_pointer_equals(__CPROVER_return_value, vf_tbl));
static inline void ABTD_atomic_release_store_ptr(ABTD_atomic_ptr *ptr, void *val)
__CPROVER_requires(vf_i_locked == 1) /* only the holder of LOCKED writes the slot */
__CPROVER_assigns(vf_stores, vf_last_store, vf_i_locked)
__CPROVER_ensures(vf_stores == __CPROVER_old(vf_stores) + 1 && vf_last_store == val && vf_i_locked == 0);
static inline int ABTI_ktable_create(ABTI_global *g, ABTI_local *l, ABTI_ktable **pp)
__CPROVER_requires(vf_i_locked == 1) /* a table is created only by the winner of the CAS */
__CPROVER_assigns(*pp, vf_creates)
__CPROVER_ensures(vf_creates == __CPROVER_old(vf_creates) + 1)
__CPROVER_ensures(vf_create_fail ? __CPROVER_return_value == ABT_ERR_MEM : (__CPROVER_return_value == ABT_SUCCESS && __CPROVER_pointer_equals(*pp, vf_tbl)));
static inline int ABTI_ktable_set_impl(ABTI_local *l, ABTI_ktable *p_ktable, ABTI_key *p_key, void *value, ABT_bool is_safe)
__CPROVER_requires(vf_i_locked == 0)
__CPROVER_assigns(vf_sets, vf_set_table) __CPROVER_ensures(vf_sets == __CPROVER_old(vf_sets) + 1 && vf_set_table == p_ktable && __CPROVER_return_value == (vf_set_fail ? ABT_ERR_MEM : ABT_SUCCESS));
static inline void ABTD_atomic_pause(void) __CPROVER_assigns() __CPROVER_ensures(1);

static ABTI_ktable table; static ABTD_atomic_ptr slot; static ABTI_key key; static ABTI_global glob;
void h_ktable_set(void)
{
    vf_tbl = &table; vf_slot = &slot; { int a, b; vf_create_fail = !!a; vf_set_fail = !!b; } vf_i_locked = 0; vf_creates = 0; vf_stores = 0; vf_sets = 0;
    int v; int r = ABTI_ktable_set(&glob, NULL, &slot, &key, &v);
    VF_ASSERT(vf_i_locked == 0, "the slot is never left LOCKED: whoever took it published a table or restored NULL");
    VF_ASSERT(vf_creates <= 1, "at most one table is created by a call");
    if (vf_creates == 1 && vf_create_fail) VF_ASSERT(r == ABT_ERR_MEM && vf_stores == 1 && vf_last_store == NULL && vf_sets == 0, "table allocation failed: error, the slot is restored to NULL (a retry or another unit can proceed), nothing set");
    else if (vf_creates == 1) VF_ASSERT(vf_stores == 1 && vf_last_store == (void *)&table && vf_sets == 1 && vf_set_table == &table, "the winner publishes its table with a release store and then sets the value in it");
    else VF_ASSERT(vf_stores == 0 && vf_sets == 1 && vf_set_table == &table, "a loser (or a unit that already has a table) creates nothing and sets the value in the published table");
    VF_ASSERT((r != ABT_SUCCESS) == ((vf_creates == 1 && vf_create_fail) || (vf_sets == 1 && vf_set_fail)), "fails iff an allocation failed");
    VF_REACH("ktable_set"); VF_COVER(vf_creates == 1 && !vf_create_fail, "created"); VF_COVER(vf_creates == 1 && vf_create_fail, "create failed"); VF_COVER(vf_creates == 0 && vf_waited, "waited for another creator");
}
