/* C16: abti_key.h ABTI_ktable_set_impl -- storing a value under a key in a work
 * unit's table whose bucket chain has ANY length (summary node S: the two loop
 * contracts list its fields among the loops' assigns targets, so the iteration
 * examined sees an arbitrary element; this also covers elements appended by
 * other work units at any time: chains are append-only, an existing link never
 * changes, nodes are never freed while the table lives).
 * Between the unlocked walk and the walk under the table lock other work units
 * may have appended: the lock-acquire contract havocs every NULL link of the
 * chain to "NULL or one more element".
 * Decided without a bound:
 *  - the key is found at an element: exactly that element's value is replaced,
 *    nothing is allocated or published, the lock (if taken) is released first;
 *  - the key is not in the chain: ONE element is allocated, fully initialised
 *    (destructor, key id, value, NULL link) BEFORE it is release-published into
 *    a link that is NULL at that moment, under the table lock -- an append
 *    never overwrites a link, so no element (and no value with a destructor to
 *    run) is ever lost from a chain;
 *  - allocation failure: ABT_ERR_MEM, nothing published, lock released;
 *  - key ids and destructors of existing elements are never written.
 * Single-bucket table (every key collides; slot arithmetic: unit ktable_idx). */
#include "vf.h"
struct ABTI_ktelem; struct ABTI_ktelem *vf_first, *vf_sum, *vf_new; void **vf_slotp;
unsigned vf_n_pub, vf_n_alloc, vf_bad; int vf_alloc_fail, vf_pub_locked; void *vf_slot0, *vf_fnext0; unsigned vf_key_id; void *vf_value; void (*vf_destr)(void *);
#include "abti.h"
#define VF_LOCK_HAVOC *vf_slotp, vf_first->p_next.val, vf_sum->p_next.val
#define VF_LOCK_POST ((vf_slot0 != NULL ? *vf_slotp == vf_slot0 : (*vf_slotp == NULL || *vf_slotp == (void *)vf_sum)) && (vf_fnext0 != NULL ? vf_first->p_next.val == vf_fnext0 : (vf_first->p_next.val == NULL || vf_first->p_next.val == (void *)vf_sum)) && (vf_sum->p_next.val == NULL || vf_sum->p_next.val == (void *)vf_sum))
#include "env/spinlock.h"
static struct { ABTI_ktable t; ABTD_atomic_ptr more[3]; } T; static ABTI_ktelem F, S, NEW; static ABTI_key key;
ABTU_ret_err static inline int ABTI_ktable_alloc_elem(ABTI_local *p_local, ABTI_ktable *p_ktable, size_t size, void **pp_mem)
__CPROVER_requires(vf_lock_held == 1 || vf_pub_locked == 0) /* the table's spare room is handed out under the table lock (or by the only owner: unsafe variant) */
__CPROVER_assigns(*pp_mem, vf_n_alloc)
__CPROVER_ensures(vf_n_alloc == __CPROVER_old(vf_n_alloc) + 1)
__CPROVER_ensures(__CPROVER_return_value == (vf_alloc_fail ? ABT_ERR_MEM : ABT_SUCCESS))
__CPROVER_ensures(!vf_alloc_fail ==> __CPROVER_pointer_equals(*pp_mem, vf_new));
static inline void ABTD_atomic_release_store_ptr(ABTD_atomic_ptr *ptr, void *val)
__CPROVER_requires(ptr == (ABTD_atomic_ptr *)vf_slotp || ptr == &vf_first->p_next || ptr == &vf_sum->p_next) /* a link of THIS chain */
__CPROVER_requires(ptr->val == NULL)                                             /* that is free: nothing is overwritten */
__CPROVER_requires(val == (void *)vf_new && vf_new->key_id == vf_key_id && vf_new->value == vf_value && vf_new->f_destructor == vf_destr && vf_new->p_next.val == NULL) /* fully initialised before it becomes reachable */
__CPROVER_requires(vf_pub_locked == 0 || vf_lock_held == 1)                       /* under the table lock (safe variant) */
__CPROVER_assigns(ptr->val, vf_n_pub) __CPROVER_ensures(ptr->val == val && vf_n_pub == __CPROVER_old(vf_n_pub) + 1);

void h_ktable_set_any(void)
{
    T.t.size = 1; vf_first = &F; vf_sum = &S; vf_new = &NEW; vf_slotp = &T.t.p_elems[0].val; vf_n_pub = vf_n_alloc = vf_bad = 0; vf_lock_held = 0; VF_ASSUME(vf_acquires < 100 && vf_releases < 100 && vf_clock < 100);
    { ABTI_ktelem a, b, c; F = a; S = b; NEW = c; } { int f; vf_alloc_fail = !!f; } { int s; vf_pub_locked = !!s; }
    { int e, m, m2; T.t.p_elems[0].val = e ? NULL : (void *)&F; F.p_next.val = m ? (void *)&S : NULL; S.p_next.val = m2 ? (void *)&S : NULL; } vf_slot0 = T.t.p_elems[0].val; vf_fnext0 = F.p_next.val;
    vf_key_id = key.id; { void *v; vf_value = v; } vf_destr = key.f_destructor;
    uint32_t fk0 = F.key_id; void *fv0 = F.value; void (*fd0)(void *) = F.f_destructor; unsigned a0 = vf_acquires, r0 = vf_releases;
    int in_chain = vf_slot0 != NULL;
    int r = ABTI_ktable_set_impl(NULL, &T.t, &key, vf_value, vf_pub_locked ? ABT_TRUE : ABT_FALSE);
    VF_ASSERT(vf_lock_held == 0 && vf_acquires - a0 == vf_releases - r0 && vf_acquires - a0 <= (vf_pub_locked ? 1u : 0u), "the table lock is taken at most once (never by the unsafe variant) and released on every path");
    VF_ASSERT(F.key_id == fk0 && F.f_destructor == fd0 && T.t.size == 1, "key id and destructor of an existing element, and the table geometry, are never written");
    VF_ASSERT(vf_n_pub <= 1 && vf_n_alloc <= 1 && vf_n_pub <= vf_n_alloc, "at most one element is allocated and published");
    if (r != ABT_SUCCESS) { VF_ASSERT(r == ABT_ERR_MEM && vf_alloc_fail && vf_n_alloc == 1 && vf_n_pub == 0 && (!in_chain || F.value == fv0), "allocation failure: ABT_ERR_MEM, nothing published, nothing overwritten"); VF_REACH("alloc failed"); return; }
    if (vf_n_pub == 1) { VF_ASSERT(!vf_alloc_fail && NEW.key_id == key.id && NEW.value == vf_value && NEW.f_destructor == key.f_destructor && (!in_chain || fk0 != key.id) && (!in_chain || F.value == fv0), "appended: a new, fully initialised element for this key; the first element (another key) untouched"); VF_REACH("appended"); }
    else { VF_ASSERT(vf_n_alloc == 0 && ((in_chain && fk0 == key.id && F.value == vf_value) || (S.key_id == key.id && S.value == vf_value)), "found: the value of an element with this key id is replaced, nothing allocated"); VF_ASSERT(!in_chain || fk0 == key.id || F.value == fv0, "an element of another key keeps its value"); VF_REACH("replaced"); }
    VF_COVER(vf_n_pub == 1 && vf_pub_locked && in_chain && vf_fnext0 != NULL, "appended behind a long chain under the lock"); VF_COVER(vf_n_pub == 0 && r == ABT_SUCCESS && in_chain && fk0 != key.id, "found deep in the chain");
}
