/* C16/C13: thread.c -- the runtime's own two keys (stackable scheduler, migration
 * data) that share every work unit's key table with the user's keys: distinct
 * reserved ids, each with its own destructor.  Run without contract
 * instrumentation: the static initialisers are what CBMC sees. */
#include "vf.h"
#include "abti.h"
#include <thread.c>
ABTI_global *gp_ABTI_global;
void h_thread_keys(void)
{
    VF_ASSERT(g_thread_sched_key.id == ABTI_KEY_ID_STACKABLE_SCHED && g_thread_mig_data_key.id == ABTI_KEY_ID_MIGRATION && g_thread_sched_key.id != g_thread_mig_data_key.id, "the two internal keys use their two distinct reserved ids");
    VF_ASSERT(g_thread_sched_key.f_destructor == thread_key_destructor_stackable_sched && g_thread_mig_data_key.f_destructor == thread_key_destructor_migration, "each is released by its own destructor (scheduler hand-back / migration record free)");
    VF_ASSERT(g_thread_sched_key.id < ABTI_KEY_ID_END_ && g_thread_mig_data_key.id < ABTI_KEY_ID_END_, "both below the first user id");
    VF_REACH("thread keys");
}
