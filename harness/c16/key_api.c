/* C16: the API layer -- ABT_key_create/free/set/get (key.c),
 * ABT_self_set/get_specific (self.c), ABT_thread_set/get_specific (thread.c):
 * every call operates on the key table of the RIGHT work unit (the caller's,
 * resp. the named one) with the given key; keys get pairwise distinct ids.
 * ABTI_ktable_set / ABTI_ktable_get by recording contract (their own units:
 * ktable_set_lazy, ktable_set_impl_B, ktable_get_free_B). */
#include "vf.h"
#include "abti.h"
static ABTI_global glob; static ABTI_xstream xs; static ABTI_thread self_t, other_t; static ABTI_key k1;
#define VF_SLOT(pp) ((pp) == &self_t.p_keytable ? 1 : (pp) == &other_t.p_keytable ? 2 : 9)
int vf_set_n, vf_set_slot, vf_get_n, vf_get_slot, vf_set_fail; const ABTI_key *vf_set_key_is_k1; int vf_set_k1, vf_get_k1; uintptr_t vf_set_val; void *vf_get_ret;
static inline int ABTI_ktable_set(ABTI_global *p_global, ABTI_local *p_local, ABTD_atomic_ptr *pp_ktable, ABTI_key *p_key, void *value)
__CPROVER_assigns(vf_set_n, vf_set_slot, vf_set_k1, vf_set_val)
__CPROVER_ensures(vf_set_n == __CPROVER_old(vf_set_n) + 1 && vf_set_slot == VF_SLOT(pp_ktable) && vf_set_k1 == (p_key == &k1) && vf_set_val == (uintptr_t)value)
__CPROVER_ensures(__CPROVER_return_value == (vf_set_fail ? ABT_ERR_MEM : ABT_SUCCESS));
/* the public key API must go through the locking variant: another work unit may store a value for THIS unit at the same time
 * (ABT_thread_set_specific), so a table created or extended without the per-unit creation lock / table lock loses one of the stores */
static inline int ABTI_ktable_set_unsafe(ABTI_global *p_global, ABTI_local *p_local, ABTI_ktable **pp_ktable, ABTI_key *p_key, void *value)
__CPROVER_requires(0 && "the unsafe (unlocked) key-table store is not used by ABT_key_set / ABT_self_set_specific / ABT_thread_set_specific")
__CPROVER_assigns() __CPROVER_ensures(__CPROVER_return_value == ABT_SUCCESS);
static inline void *ABTI_ktable_get(ABTD_atomic_ptr *pp_ktable, ABTI_key *p_key)
__CPROVER_assigns(vf_get_n, vf_get_slot, vf_get_k1)
__CPROVER_ensures(vf_get_n == __CPROVER_old(vf_get_n) + 1 && vf_get_slot == VF_SLOT(pp_ktable) && vf_get_k1 == (p_key == &k1))
__CPROVER_ensures(__CPROVER_return_value == vf_get_ret);
ABTI_global *gp_ABTI_global; ABTD_XSTREAM_LOCAL ABTI_local *lp_ABTI_local;
#if defined(VF_KEY)
#include <key.c>
#elif defined(VF_SELF)
#include <self.c>
#else
#include <thread.c>
#endif
static void setup(void) { gp_ABTI_global = &glob; lp_ABTI_local = (ABTI_local *)&xs; xs.p_thread = &self_t; vf_set_n = vf_get_n = 0; }
void h_key_api(void)
{
    setup(); int v; void *out = (void *)8; int r;
#if defined(VF_KEY)
    r = ABT_key_set((ABT_key)&k1, &v);
    VF_ASSERT(vf_set_n == 1 && vf_set_slot == 1 && vf_set_k1 && vf_set_val == (uintptr_t)&v && r == (vf_set_fail ? ABT_ERR_MEM : ABT_SUCCESS), "ABT_key_set: the CALLER's table, this key, this value; failure reported");
    r = ABT_key_get((ABT_key)&k1, &out);
    VF_ASSERT(r == ABT_SUCCESS && vf_get_n == 1 && vf_get_slot == 1 && vf_get_k1 && out == vf_get_ret, "ABT_key_get: the caller's table, this key; returns what the table holds");
    VF_ASSERT(ABT_key_set(ABT_KEY_NULL, &v) == ABT_ERR_INV_KEY && ABT_key_get(ABT_KEY_NULL, &out) == ABT_ERR_INV_KEY && vf_set_n == 1 && vf_get_n == 1, "NULL key rejected without touching any table");
    lp_ABTI_local = NULL; VF_ASSERT(ABT_key_set((ABT_key)&k1, &v) == ABT_ERR_INV_XSTREAM && ABT_key_get((ABT_key)&k1, &out) == ABT_ERR_INV_XSTREAM && vf_set_n == 1 && vf_get_n == 1, "external threads have no work-unit storage");
    /* keys: distinct ids */
    uint32_t id0 = g_key_id.val; VF_ASSUME(id0 < 0xfffffff0u); ABT_key a = ABT_KEY_NULL, b = ABT_KEY_NULL; static void (*dtor)(void *);
    int ra = ABT_key_create(dtor, &a); int rb = ABT_key_create(NULL, &b);
    if (ra == ABT_SUCCESS && rb == ABT_SUCCESS) { VF_ASSERT(((ABTI_key *)a)->id == id0 && ((ABTI_key *)b)->id == id0 + 1 && g_key_id.val == id0 + 2 && ((ABTI_key *)a)->f_destructor == dtor && ((ABTI_key *)b)->f_destructor == NULL, "keys get consecutive (hence pairwise distinct) ids and keep their destructor"); }
    if (ra != ABT_SUCCESS) VF_ASSERT(a == ABT_KEY_NULL, "failed creation: handle untouched");
    if (ra == ABT_SUCCESS) { VF_ASSERT(ABT_key_free(&a) == ABT_SUCCESS && a == ABT_KEY_NULL, "free nulls the handle"); } if (rb == ABT_SUCCESS) ABT_key_free(&b);
    VF_COVER(ra == ABT_SUCCESS && rb == ABT_SUCCESS, "two keys");
#elif defined(VF_SELF)
    r = ABT_self_set_specific((ABT_key)&k1, &v);
    VF_ASSERT(vf_set_n == 1 && vf_set_slot == 1 && vf_set_k1 && vf_set_val == (uintptr_t)&v && r == (vf_set_fail ? ABT_ERR_MEM : ABT_SUCCESS), "ABT_self_set_specific: the caller's table");
    r = ABT_self_get_specific((ABT_key)&k1, &out);
    VF_ASSERT(r == ABT_SUCCESS && vf_get_n == 1 && vf_get_slot == 1 && vf_get_k1 && out == vf_get_ret, "ABT_self_get_specific: the caller's table");
    VF_ASSERT(ABT_self_set_specific(ABT_KEY_NULL, &v) == ABT_ERR_INV_KEY && ABT_self_get_specific(ABT_KEY_NULL, &out) == ABT_ERR_INV_KEY && vf_set_n == 1 && vf_get_n == 1, "NULL key rejected");
#else
    r = ABT_thread_set_specific((ABT_thread)&other_t, (ABT_key)&k1, &v);
    VF_ASSERT(vf_set_n == 1 && vf_set_slot == 2 && vf_set_k1 && vf_set_val == (uintptr_t)&v && r == (vf_set_fail ? ABT_ERR_MEM : ABT_SUCCESS), "ABT_thread_set_specific: the NAMED unit's table, not the caller's");
    r = ABT_thread_get_specific((ABT_thread)&other_t, (ABT_key)&k1, &out);
    VF_ASSERT(r == ABT_SUCCESS && vf_get_n == 1 && vf_get_slot == 2 && vf_get_k1 && out == vf_get_ret, "ABT_thread_get_specific: the named unit's table");
    VF_ASSERT(ABT_thread_set_specific(ABT_THREAD_NULL, (ABT_key)&k1, &v) == ABT_ERR_INV_THREAD && ABT_thread_set_specific((ABT_thread)&other_t, ABT_KEY_NULL, &v) == ABT_ERR_INV_KEY && ABT_thread_get_specific(ABT_THREAD_NULL, (ABT_key)&k1, &out) == ABT_ERR_INV_THREAD && vf_set_n == 1 && vf_get_n == 1, "NULL handles rejected without touching any table");
    lp_ABTI_local = NULL; VF_ASSERT(ABT_thread_set_specific((ABT_thread)&other_t, (ABT_key)&k1, &v) == (vf_set_fail ? ABT_ERR_MEM : ABT_SUCCESS) && vf_set_n == 2 && vf_set_slot == 2, "an external thread may set a value on a named unit");
#endif
    VF_REACH("key_api");
}
