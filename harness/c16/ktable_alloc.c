/* C16/C18: abti_key.h ABTI_ktable_alloc_elem -- one element-allocation step on a
 * key table in ANY state (spare room of any size, any chain of used blocks):
 * the three provenances (spare room of the current block, a fresh descriptor
 * block, a malloc'ed block), and the failure rule: a failed allocation leaves
 * the table's bookkeeping exactly as it was (otherwise later elements are
 * carved out of memory the table does not own).  Allocators redirected to
 * stubs handing out one static block (A5). */
#include "vf.h"
#include "abti.h"
static char blk[1024] __attribute__((aligned(64))); static int fail; static unsigned n_desc, n_malloc; static size_t malloc_size;
static int vf_alloc_desc(ABTI_local *l, void **pp) { n_desc++; if (fail) return ABT_ERR_MEM; *pp = blk; return ABT_SUCCESS; }
static int vf_malloc(size_t size, void **pp) { n_malloc++; malloc_size = size; if (fail) return ABT_ERR_MEM; __CPROVER_assume(size <= sizeof(blk)); *pp = blk; return ABT_SUCCESS; }
#undef ABTI_KEY_H_INCLUDED
#define ABTI_ktable_mem_header vf2_ktable_mem_header /* the one type the header defines: same text, second name */
#define ABTI_key_get_ptr vf2_key_get_ptr
#define ABTI_key_get_handle vf2_key_get_handle
#define ABTI_ktable_is_valid vf2_ktable_is_valid
#define ABTI_ktable_create vf2_ktable_create
#define ABTI_ktable_alloc_elem vf2_ktable_alloc_elem
#define ABTI_ktable_get_idx vf2_ktable_get_idx
#define ABTI_ktable_set_impl vf2_ktable_set_impl
#define ABTI_ktable_set vf2_ktable_set
#define ABTI_ktable_set_unsafe vf2_ktable_set_unsafe
#define ABTI_ktable_get vf2_ktable_get
#define ABTI_mem_alloc_desc vf_alloc_desc
#define ABTU_malloc vf_malloc
#include "abti_key.h" /* the real /repo/src/include/abti_key.h, second inclusion with the allocators redirected */
void h_ktable_alloc_elem(void)
{
    static ABTI_ktable kt; { ABTI_ktable n; kt = n; } static char spare[512] __attribute__((aligned(64)));
    size_t size, extra; VF_ASSUME((size & (ABTU_MAX_ALIGNMENT - 1)) == 0 && size >= ABTU_MAX_ALIGNMENT && size <= 768 && extra <= 512 && (extra & (ABTU_MAX_ALIGNMENT - 1)) == 0);
    kt.p_extra_mem = spare + (512 - extra); kt.extra_mem_size = extra; void *used0 = kt.p_used_mem, *em0 = kt.p_extra_mem;
    { int f; fail = !!f; } n_desc = n_malloc = 0; void *m = (void *)32;
    int r = vf2_ktable_alloc_elem(NULL, &kt, size, &m);
    if (r != ABT_SUCCESS) {
        VF_ASSERT(fail && r == ABT_ERR_MEM && m == (void *)32, "failure only when an allocator failed; output untouched");
        VF_ASSERT(kt.p_extra_mem == em0 && kt.extra_mem_size == extra && kt.p_used_mem == used0, "a failed element allocation leaves the table's spare-room pointer, spare-room size and block chain exactly as they were");
        VF_REACH("alloc_elem failed"); return;
    }
    if (size <= extra) {
        VF_ASSERT(m == em0 && kt.p_extra_mem == (char *)em0 + size && kt.extra_mem_size == extra - size && kt.p_used_mem == used0 && n_desc == 0 && n_malloc == 0, "fits the spare room: carved from its start, the room shrinks by exactly the size, no block is allocated");
        VF_ASSERT((char *)m + size <= spare + 512, "the element lies inside the spare room");
    } else if (size <= ABTI_KTABLE_DESC_SIZE) {
        ABTI_ktable_mem_header *h = (ABTI_ktable_mem_header *)blk;
        VF_ASSERT(n_desc == 1 && n_malloc == 0 && kt.p_used_mem == (void *)blk && h->p_next == (ABTI_ktable_mem_header *)used0 && h->is_from_mempool == ABT_TRUE, "a fresh descriptor block, chained in front of the used blocks and marked as pool memory");
        VF_ASSERT(m == (void *)(blk + sizeof(ABTI_ktable_mem_header)) && kt.p_extra_mem == (char *)m + size && kt.extra_mem_size == ABTI_KTABLE_DESC_SIZE - size, "element right behind the block header; the rest of the block becomes the new spare room");
        VF_ASSERT((char *)kt.p_extra_mem + kt.extra_mem_size <= blk + sizeof(ABTI_ktable_mem_header) + ABTI_KTABLE_DESC_SIZE && sizeof(ABTI_ktable_mem_header) + ABTI_KTABLE_DESC_SIZE <= ABTI_MEM_POOL_DESC_SIZE, "the spare room ends inside the usable part of the descriptor block (before its provenance flag word)");
    } else {
        ABTI_ktable_mem_header *h = (ABTI_ktable_mem_header *)blk;
        VF_ASSERT(n_malloc == 1 && n_desc == 0 && malloc_size == size + sizeof(ABTI_ktable_mem_header) && kt.p_used_mem == (void *)blk && h->p_next == (ABTI_ktable_mem_header *)used0 && h->is_from_mempool == ABT_FALSE, "too big for a descriptor block: a malloc'ed block of header + size, chained and marked as malloc memory");
        VF_ASSERT(m == (void *)(blk + sizeof(ABTI_ktable_mem_header)) && kt.p_extra_mem == em0 && kt.extra_mem_size == extra, "the spare room of the current block is kept");
    }
    VF_REACH("alloc_elem"); VF_COVER(size <= extra, "spare room"); VF_COVER(size > extra && size <= ABTI_KTABLE_DESC_SIZE, "descriptor block"); VF_COVER(size > ABTI_KTABLE_DESC_SIZE, "malloc");
}
