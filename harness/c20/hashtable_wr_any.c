/* C20: util/hashtable.c ABTU_hashtable_set / ABTU_hashtable_delete on a bucket
 * chain of ANY length.  For a key k every chain has the form
 *
 *     HEAD -> [S]* -> T -> far...
 *
 * HEAD : the in-table slot (non-empty: data != NULL);
 * S    : ONE object standing for every chained element before T -- its key is
 *        not k, its successor is "again such an element", T, or the end; the
 *        loop contracts do not list S's key / data among their assigns targets;
 * T    : the first chained element whose key is k (absent: k is not chained).
 * So "k is in the map" is (HEAD.key == k || T exists), for chains of any length,
 * and the units decide the map semantics the bounded hashtable_*_B units state
 * for chains up to 4:
 *  set    : present -> exactly that element's value replaced, nothing allocated,
 *           no link or key written, overwritten = 1; absent -> ONE element
 *           allocated, initialised (key, data pointer into itself, value, NULL
 *           link) and hung behind the LAST element, overwritten = 0; allocation
 *           failure -> ABT_ERR_MEM, nothing written; empty slot filled in place;
 *  delete : chained T -> its predecessor's link takes T's successor, T freed
 *           once, nothing else written, deleted = 1; absent -> nothing written.
 * Value size fixed at 8 bytes (memcpy of symbolic length is out of reach; the
 * layout for every size is unit hashtable_get_element). */
#include "vf.h"
struct ABTU_hashtable_element; struct ABTU_hashtable_element *vf_head, *vf_sum, *vf_T; int vf_pre;
#include "abti.h"
static int vf_calloc_fail; static unsigned vf_n_calloc, vf_n_free; static void *vf_freed;
static struct { ABTU_hashtable_element e; uint64_t d; char pad[32]; } HEAD, S, T, NEWE;
static int vf_calloc(size_t num, size_t size, void **pp) { vf_n_calloc++; VF_ASSERT(num == 1 && size == 64, "one element of the slot size"); if (vf_calloc_fail) return ABT_ERR_MEM; NEWE.e.key = 0; NEWE.e.p_next = NULL; NEWE.e.data = NULL; NEWE.d = 0; *pp = &NEWE; return ABT_SUCCESS; }
static void vf_free(void *p) { vf_n_free++; vf_freed = p; }
#define ABTU_calloc vf_calloc
#define ABTU_free vf_free
#include "util/hashtable.c"
#undef ABTU_calloc
#undef ABTU_free
static ABTU_hashtable ht; static ABTU_hashtable_element *far; static int has_T;
static inline ABTU_hashtable_element *get_element(const ABTU_hashtable *p_hashtable, size_t entry_index)
__CPROVER_requires(entry_index < p_hashtable->num_entries)
__CPROVER_assigns()
__CPROVER_ensures(__CPROVER_return_value == vf_head);
static void build(int key)
{
    size_t ne; VF_ASSUME(ne >= 1 && ne <= ((size_t)1 << 32)); ht.num_entries = ne; ht.data_size = sizeof(uint64_t);
    vf_head = &HEAD.e; vf_sum = &S.e; vf_n_calloc = vf_n_free = 0; vf_freed = NULL; { int f; vf_calloc_fail = !!f; }
    { int p, t; vf_pre = !!p; has_T = !!t; } vf_T = has_T ? &T.e : NULL;
    { ABTU_hashtable_element *f; VF_ASSUME(f != &HEAD.e && f != &S.e && f != &T.e && f != &NEWE.e); far = f; }
    { int hk, sk; uint64_t hd, sd, td; HEAD.e.key = hk; S.e.key = sk; T.e.key = key; HEAD.d = hd; S.d = sd; T.d = td; } VF_ASSUME(S.e.key != key);
    HEAD.e.data = (char *)&HEAD.d; S.e.data = (char *)&S.d; T.e.data = (char *)&T.d;
    { int n; S.e.p_next = n ? &S.e : vf_T; } HEAD.e.p_next = vf_pre ? &S.e : vf_T; T.e.p_next = far;
}
void h_hashtable_set_any(void)
{
    int key; build(key); { int e; if (e) { HEAD.e.data = NULL; HEAD.e.p_next = NULL; } } int empty = HEAD.e.data == NULL;
    uint64_t val; int ow = 7; int hk0 = HEAD.e.key, sk0 = S.e.key; uint64_t hd0 = HEAD.d, sd0 = S.d, td0 = T.d; ABTU_hashtable_element *hn0 = HEAD.e.p_next, *sn0 = S.e.p_next;
    int r = ABTU_hashtable_set(&ht, key, &val, &ow);
    VF_ASSERT(ht.num_entries >= 1 && ht.data_size == 8 && vf_n_free == 0, "the table geometry is not written, nothing is freed");
    if (empty) { VF_ASSERT(r == ABT_SUCCESS && ow == 0 && HEAD.e.key == key && HEAD.e.data == (char *)&HEAD.d && HEAD.d == val && HEAD.e.p_next == NULL && vf_n_calloc == 0, "empty slot: filled in place"); VF_REACH("empty slot"); return; }
    int present = hk0 == key || (has_T);
    if (present) {
        VF_ASSERT(r == ABT_SUCCESS && ow == 1 && vf_n_calloc == 0, "key present: success, reported as overwritten, nothing allocated");
        VF_ASSERT(hk0 == key ? (HEAD.d == val && T.d == td0) : (T.d == val && HEAD.d == hd0), "exactly the FIRST element with this key gets the new value");
        VF_ASSERT(S.d == sd0 && HEAD.e.key == hk0 && S.e.key == sk0 && T.e.key == key && HEAD.e.p_next == hn0 && S.e.p_next == sn0 && T.e.p_next == far && HEAD.e.data == (char *)&HEAD.d && S.e.data == (char *)&S.d && T.e.data == (char *)&T.d, "elements of other keys keep their values; no key, link or data pointer is written");
        VF_REACH("overwritten"); VF_COVER(hk0 != key && vf_pre, "found deep in the chain");
    } else if (vf_calloc_fail) {
        VF_ASSERT(r == ABT_ERR_MEM && vf_n_calloc == 1 && ow == 7 && HEAD.d == hd0 && S.d == sd0 && HEAD.e.p_next == hn0 && S.e.p_next == sn0 && HEAD.e.key == hk0 && S.e.key == sk0, "allocation failure: ABT_ERR_MEM, map and output unchanged");
        VF_REACH("alloc failed");
    } else {
        VF_ASSERT(r == ABT_SUCCESS && ow == 0 && vf_n_calloc == 1, "key absent: one element allocated, reported as new");
        VF_ASSERT(NEWE.e.key == key && NEWE.e.data == (char *)&NEWE.e + sizeof(ABTU_hashtable_element) && NEWE.d == val && NEWE.e.p_next == NULL, "the new element carries the key and the value and ends the chain");
        VF_ASSERT(vf_pre ? (S.e.p_next == &NEWE.e && HEAD.e.p_next == hn0) : HEAD.e.p_next == &NEWE.e, "it is hung behind the LAST element: no element is cut off");
        VF_ASSERT(HEAD.d == hd0 && S.d == sd0 && HEAD.e.key == hk0 && S.e.key == sk0, "the other entries of the map are unchanged");
        VF_REACH("appended"); VF_COVER(vf_pre, "behind a long chain");
    }
}
void h_hashtable_delete_any(void)
{
    int key; build(key); VF_ASSUME(HEAD.e.key != key); /* deleting the slot's own key is loop-free: units hashtable_delete_B */
    int del = 7; int hk0 = HEAD.e.key, sk0 = S.e.key; uint64_t hd0 = HEAD.d, sd0 = S.d; ABTU_hashtable_element *hn0 = HEAD.e.p_next, *sn0 = S.e.p_next;
    ABTU_hashtable_delete(&ht, key, &del);
    VF_ASSERT(HEAD.d == hd0 && S.d == sd0 && HEAD.e.key == hk0 && S.e.key == sk0 && HEAD.e.data == (char *)&HEAD.d && S.e.data == (char *)&S.d && vf_n_calloc == 0, "entries of other keys are unchanged");
    if (has_T) {
        VF_ASSERT(del == 1 && vf_n_free == 1 && vf_freed == (void *)&T.e, "key chained: exactly its element is freed, once, reported as deleted");
        VF_ASSERT(vf_pre ? (HEAD.e.p_next == hn0 && (sn0 == &T.e ? S.e.p_next == far : S.e.p_next == sn0)) : HEAD.e.p_next == far, "its predecessor's link takes its successor: the rest of the chain stays reachable, nothing else is unlinked");
        VF_REACH("deleted"); VF_COVER(vf_pre && sn0 == &T.e, "deep in the chain");
    } else {
        VF_ASSERT(del != 1 && vf_n_free == 0 && HEAD.e.p_next == hn0 && S.e.p_next == sn0, "key absent: nothing freed, nothing unlinked, not reported as deleted (the flag is left unwritten when the slot has no chain: both callers pass NULL, DESIGN 9.4)");
        VF_REACH("absent");
    }
}
