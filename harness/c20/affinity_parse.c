/* C20: arch/abtd_affinity_parser.c -- the two grammar loops (parse_es_id_list,
 * parse_list) for strings of ANY length: the read position never leaves the
 * NUL-terminated string, every call of the token consumers and of the list
 * builders is made within their preconditions (the call-site facts the units
 * consume_* / id_list_add / list_add assume: index inside the string,
 * 1 <= num < MAX_NUM_ELEMS), a result is handed out only on success.
 * Callees by contract (token consumers: the contracts enforced in
 * harness/c20/affinity_parser.c; builders: their call-site preconditions);
 * loop contracts on the two `while (1)` loops. */
#include "vf.h"
const char *vf_str0; size_t vf_len;
int vf_n_idadd, vf_n_listadd; /* sticky flags: some id_list_add / list_add call was made (counters would wrap inside loop contracts) */

#include "arch/abtd_affinity_parser.c"

#define STR_REQUIRES                                                           \
    __CPROVER_requires(vf_len < 0x7fffffff)                                    \
    __CPROVER_requires(__CPROVER_pointer_equals(vf_str0, str))                 \
    __CPROVER_requires(*p_index <= vf_len)
static int consume_int(const char *str, uint32_t *p_index, int *p_val)
STR_REQUIRES
__CPROVER_assigns(*p_index, *p_val)
__CPROVER_ensures(__CPROVER_return_value == 0 || __CPROVER_return_value == 1)
__CPROVER_ensures(__CPROVER_return_value == 1 ==> (*p_index <= vf_len && *p_index > __CPROVER_old(*p_index)))
__CPROVER_ensures(__CPROVER_return_value == 0 ==> (*p_index == __CPROVER_old(*p_index) && *p_val == __CPROVER_old(*p_val)));
static int consume_pint(const char *str, uint32_t *p_index, int *p_val)
STR_REQUIRES
__CPROVER_assigns(*p_index, *p_val)
__CPROVER_ensures(__CPROVER_return_value == 0 || __CPROVER_return_value == 1)
__CPROVER_ensures(__CPROVER_return_value == 1 ==> (*p_index <= vf_len && *p_index > __CPROVER_old(*p_index) && *p_val > 0))
__CPROVER_ensures(__CPROVER_return_value == 0 ==> (*p_index == __CPROVER_old(*p_index) && *p_val == __CPROVER_old(*p_val)));
static int consume_symbol(const char *str, uint32_t *p_index, char symbol)
STR_REQUIRES
__CPROVER_assigns(*p_index)
__CPROVER_ensures(__CPROVER_return_value == 0 || __CPROVER_return_value == 1)
__CPROVER_ensures(__CPROVER_return_value == 1 ==> (*p_index > __CPROVER_old(*p_index) && *p_index <= vf_len + 1 && (symbol != 0 ==> *p_index <= vf_len)))
__CPROVER_ensures(__CPROVER_return_value == 0 ==> *p_index == __CPROVER_old(*p_index));

/* builders: what their own units need from the call site */
static int id_list_create(alloc_list *p_alloc_list, ABTD_affinity_id_list **pp_id_list)
__CPROVER_assigns(*pp_id_list)
__CPROVER_ensures(__CPROVER_return_value == ABT_SUCCESS || __CPROVER_return_value == ABT_ERR_MEM)
__CPROVER_ensures(__CPROVER_return_value == ABT_SUCCESS ==> __CPROVER_is_fresh(*pp_id_list, sizeof(ABTD_affinity_id_list)));
static int id_list_add(alloc_list *p_alloc_list, ABTD_affinity_id_list *p_id_list, int id, uint32_t num, int stride)
__CPROVER_requires(1 <= num && num < MAX_NUM_ELEMS) /* the element-count arithmetic of id_list_add is proved under this call-site fact */
__CPROVER_assigns(vf_n_idadd)
__CPROVER_ensures(vf_n_idadd == 1)
__CPROVER_ensures(__CPROVER_return_value == ABT_SUCCESS || __CPROVER_return_value == ABT_ERR_MEM || __CPROVER_return_value == ABT_ERR_OTHER);
static int list_create(alloc_list *p_alloc_list, ABTD_affinity_list **pp_affinity_list)
__CPROVER_assigns(*pp_affinity_list)
__CPROVER_ensures(__CPROVER_return_value == ABT_SUCCESS || __CPROVER_return_value == ABT_ERR_MEM)
__CPROVER_ensures(__CPROVER_return_value == ABT_SUCCESS ==> __CPROVER_is_fresh(*pp_affinity_list, sizeof(ABTD_affinity_list)));
static int list_add(alloc_list *p_alloc_list, ABTD_affinity_list *p_list, ABTD_affinity_id_list *p_base, uint32_t num, int stride)
__CPROVER_requires(1 <= num && num < MAX_NUM_ELEMS && p_base != NULL)
__CPROVER_assigns(vf_n_listadd)
__CPROVER_ensures(vf_n_listadd == 1)
__CPROVER_ensures(__CPROVER_return_value == ABT_SUCCESS || __CPROVER_return_value == ABT_ERR_MEM || __CPROVER_return_value == ABT_ERR_OTHER);

unsigned vf_freeall; const void *vf_freeall_arg;
static void list_free_all(void *p_head)
__CPROVER_assigns(vf_freeall, vf_freeall_arg)
__CPROVER_ensures(vf_freeall == __CPROVER_old(vf_freeall) + 1 && vf_freeall_arg == p_head);

static int parse_es_id_list(alloc_list *p_alloc_list, const char *affinity_str, uint32_t *p_index, ABTD_affinity_id_list **pp_affinity_id_list)
__CPROVER_requires(vf_len < 0x7fffffff && __CPROVER_is_fresh(affinity_str, vf_len + 1) && affinity_str[vf_len] == 0 && __CPROVER_pointer_equals(vf_str0, affinity_str))
__CPROVER_requires(__CPROVER_is_fresh(p_index, sizeof(uint32_t)) && *p_index <= vf_len)
__CPROVER_requires(__CPROVER_is_fresh(pp_affinity_id_list, sizeof(void *)) && __CPROVER_is_fresh(p_alloc_list, sizeof(alloc_list)))
__CPROVER_assigns(*p_index, *pp_affinity_id_list, vf_n_idadd)
__CPROVER_ensures(__CPROVER_return_value == ABT_SUCCESS ==> (*p_index <= vf_len && *pp_affinity_id_list != NULL && vf_n_idadd == 1))
__CPROVER_ensures(__CPROVER_return_value != ABT_SUCCESS ==> *pp_affinity_id_list == __CPROVER_old(*pp_affinity_id_list))
__CPROVER_ensures(*p_index <= vf_len);
void h_parse_es_id_list(void)
{
    alloc_list *al; const char *s; uint32_t *pi; ABTD_affinity_id_list **pp;
    int r = parse_es_id_list(al, s, pi, pp);
    VF_REACH("parse_es_id_list returns"); VF_COVER(r == ABT_SUCCESS, "accepted"); VF_COVER(r != ABT_SUCCESS, "rejected");
}
static int parse_list(alloc_list *p_alloc_list, const char *affinity_str, ABTD_affinity_list **pp_affinity_list)
__CPROVER_requires(vf_len < 0x7fffffff && (affinity_str == NULL || (__CPROVER_is_fresh(affinity_str, vf_len + 1) && affinity_str[vf_len] == 0 && __CPROVER_pointer_equals(vf_str0, affinity_str))))
__CPROVER_requires(__CPROVER_is_fresh(pp_affinity_list, sizeof(void *)) && __CPROVER_is_fresh(p_alloc_list, sizeof(alloc_list)))
__CPROVER_assigns(*pp_affinity_list, vf_n_listadd, vf_n_idadd)
__CPROVER_ensures(__CPROVER_return_value == ABT_SUCCESS ==> (__CPROVER_is_fresh(*pp_affinity_list, sizeof(ABTD_affinity_list)) && vf_n_listadd == 1 && affinity_str != NULL))
__CPROVER_ensures(__CPROVER_return_value != ABT_SUCCESS ==> *pp_affinity_list == __CPROVER_old(*pp_affinity_list));
void h_parse_list(void)
{
    alloc_list *al; const char *s; ABTD_affinity_list **pp;
    int r = parse_list(al, s, pp);
    VF_REACH("parse_list returns"); VF_COVER(r == ABT_SUCCESS, "accepted"); VF_COVER(r != ABT_SUCCESS && s != NULL, "rejected"); VF_COVER(s == NULL, "NULL string");
}

/* ABTD_affinity_list_create: a rejected string releases everything the parser allocated and leaves the output alone;
 * an accepted one hands out the list together with the allocation list that ABTD_affinity_list_free will release */
void h_affinity_list_create(void)
{
    static char buf[8]; const char *s; ABTD_affinity_list *out = (ABTD_affinity_list *)0x55; vf_freeall = 0;
    { int isnull; VF_ASSUME(vf_len < 8); buf[vf_len] = 0; s = isnull ? NULL : buf; vf_str0 = buf; } /* any string (the parser itself is by contract here) */
    int r = ABTD_affinity_list_create(s, &out);
    if (r != ABT_SUCCESS) VF_ASSERT(vf_freeall == 1 && out == (ABTD_affinity_list *)0x55, "rejected: every block the parser allocated is released (once), the output is untouched");
    else { VF_ASSERT(vf_freeall == 0 && out != NULL && out != (ABTD_affinity_list *)0x55, "accepted: nothing released, the list is handed out"); ABTD_affinity_list_free(out); VF_ASSERT(vf_freeall == 1 && vf_freeall_arg == out->p_mem_head, "ABTD_affinity_list_free releases the saved allocation list, once"); ABTD_affinity_list_free(NULL); VF_ASSERT(vf_freeall == 1, "NULL list: nothing"); }
    VF_REACH("affinity_list_create"); VF_COVER(r == ABT_SUCCESS, "accepted"); VF_COVER(r != ABT_SUCCESS, "rejected");
}
