/* C20: the four typed wrappers of util/atoi.c, atoi_impl taken by contract.
 * Loop-free: the proof covers the full domain of (sign, magnitude, overflow
 * flag, error code) that atoi_impl's contract admits. */
#include "vf.h"
const char *vf_str0;
size_t vf_len;
#include "util/atoi.c"
#include "atoi_impl.h"

/* ghost record of what atoi_impl handed back */
int vf_ai_ret;
uint64_t vf_ai_val;
ABT_bool vf_ai_signed, vf_ai_ovf;

static int atoi_impl(const char *str, ABT_bool *p_is_signed, uint64_t *p_val,
                     ABT_bool *p_overflow)
    /* clang-format off */
ATOI_IMPL_REQUIRES
__CPROVER_assigns(*p_is_signed, *p_val, *p_overflow)
__CPROVER_assigns(vf_ai_ret, vf_ai_val, vf_ai_signed, vf_ai_ovf)
ATOI_IMPL_ENSURES
__CPROVER_ensures(vf_ai_ret == __CPROVER_return_value)
__CPROVER_ensures(__CPROVER_return_value == ABT_SUCCESS ==>
                  (vf_ai_val == *p_val && vf_ai_signed == *p_is_signed &&
                   vf_ai_ovf == *p_overflow))
    /* clang-format on */
    ;

#include "atoi_wrappers.h"

int ABTU_atoi(const char *str, int *p_val, ABT_bool *p_overflow)
    /* clang-format off */
WRAP_REQUIRES(int)
__CPROVER_ensures((__CPROVER_return_value == ABT_SUCCESS && vf_ai_signed && vf_ai_val > 2147483648ull) ==>
    (*p_val == INT_MIN && (p_overflow == NULL || *p_overflow == ABT_TRUE)))
__CPROVER_ensures((__CPROVER_return_value == ABT_SUCCESS && vf_ai_signed && vf_ai_val <= 2147483648ull) ==>
    ((int64_t)*p_val == -(int64_t)vf_ai_val && (p_overflow == NULL || *p_overflow == vf_ai_ovf)))
__CPROVER_ensures((__CPROVER_return_value == ABT_SUCCESS && !vf_ai_signed && vf_ai_val > 2147483647ull) ==>
    (*p_val == INT_MAX && (p_overflow == NULL || *p_overflow == ABT_TRUE)))
__CPROVER_ensures((__CPROVER_return_value == ABT_SUCCESS && !vf_ai_signed && vf_ai_val <= 2147483647ull) ==>
    ((int64_t)*p_val == (int64_t)vf_ai_val && (p_overflow == NULL || *p_overflow == vf_ai_ovf)))
/* an impl overflow can never be masked */
__CPROVER_ensures((__CPROVER_return_value == ABT_SUCCESS && vf_ai_ovf && p_overflow != NULL) ==> *p_overflow == ABT_TRUE)
    /* clang-format on */
    ;

int ABTU_atoui32(const char *str, uint32_t *p_val, ABT_bool *p_overflow)
    /* clang-format off */
WRAP_REQUIRES(uint32_t)
__CPROVER_ensures((__CPROVER_return_value == ABT_SUCCESS && vf_ai_signed) ==>
    (*p_val == 0 && (p_overflow == NULL || *p_overflow == ((vf_ai_val != 0 || vf_ai_ovf) ? ABT_TRUE : ABT_FALSE))))
__CPROVER_ensures((__CPROVER_return_value == ABT_SUCCESS && !vf_ai_signed && vf_ai_val > 4294967295ull) ==>
    (*p_val == UINT32_MAX && (p_overflow == NULL || *p_overflow == ABT_TRUE)))
__CPROVER_ensures((__CPROVER_return_value == ABT_SUCCESS && !vf_ai_signed && vf_ai_val <= 4294967295ull) ==>
    ((uint64_t)*p_val == vf_ai_val && (p_overflow == NULL || *p_overflow == vf_ai_ovf)))
__CPROVER_ensures((__CPROVER_return_value == ABT_SUCCESS && vf_ai_ovf && p_overflow != NULL) ==> *p_overflow == ABT_TRUE)
    /* clang-format on */
    ;

int ABTU_atoui64(const char *str, uint64_t *p_val, ABT_bool *p_overflow)
    /* clang-format off */
WRAP_REQUIRES(uint64_t)
__CPROVER_ensures((__CPROVER_return_value == ABT_SUCCESS && vf_ai_signed) ==>
    (*p_val == 0 && (p_overflow == NULL || *p_overflow == ((vf_ai_val != 0 || vf_ai_ovf) ? ABT_TRUE : ABT_FALSE))))
__CPROVER_ensures((__CPROVER_return_value == ABT_SUCCESS && !vf_ai_signed) ==>
    (*p_val == vf_ai_val && (p_overflow == NULL || *p_overflow == vf_ai_ovf)))
    /* clang-format on */
    ;

int ABTU_atosz(const char *str, size_t *p_val, ABT_bool *p_overflow)
    /* clang-format off */
WRAP_REQUIRES(size_t)
__CPROVER_ensures((__CPROVER_return_value == ABT_SUCCESS && vf_ai_signed) ==>
    (*p_val == 0 && (p_overflow == NULL || *p_overflow == ((vf_ai_val != 0 || vf_ai_ovf) ? ABT_TRUE : ABT_FALSE))))
__CPROVER_ensures((__CPROVER_return_value == ABT_SUCCESS && !vf_ai_signed) ==>
    (*p_val == vf_ai_val && (p_overflow == NULL || *p_overflow == vf_ai_ovf)))
    /* clang-format on */
    ;

#define H(NAME, T)                                                             \
    void h_##NAME(void)                                                        \
    {                                                                          \
        const char *str;                                                       \
        T *p_v;                                                                \
        ABT_bool *p_o;                                                         \
        int r = NAME(str, p_v, p_o);                                           \
        VF_REACH(#NAME " returns");                                            \
        VF_COVER(r == ABT_SUCCESS && vf_ai_ovf, "success with overflow");      \
        VF_COVER(r == ABT_SUCCESS && vf_ai_signed && vf_ai_val > 5, "neg");    \
        VF_COVER(r == ABT_SUCCESS && !vf_ai_signed && vf_ai_val > 5 && !vf_ai_ovf, "pos");         \
        VF_COVER(r != ABT_SUCCESS, "failure");                                 \
    }
H(ABTU_atoi, int)
H(ABTU_atoui32, uint32_t)
H(ABTU_atoui64, uint64_t)
H(ABTU_atosz, size_t)
