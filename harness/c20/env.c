/* C20: arch/abtd_env.c -- clamping of numeric settings, power-of-two and
 * cache-line rounding.  getenv and the string parsers are taken by contract
 * (the parsers' contracts are the ones enforced in atoi_wrappers.c). */
#include "vf.h"
const char *vf_str0;
size_t vf_len;
/* ghost: what the environment / the parser handed back */
int vf_env_set;      /* the variable is set */
#include "arch/abtd_env.c"
int vf_ai_ret;
uint64_t vf_ai_val;
ABT_bool vf_ai_signed, vf_ai_ovf;
#include "atoi_wrappers.h"

static const char *get_abt_env(const char *env_suffix)
    /* clang-format off */
__CPROVER_assigns(vf_env_set)
__CPROVER_ensures(vf_len < 1000000)
__CPROVER_ensures((__CPROVER_return_value == NULL && vf_env_set == 0) ||
                  (vf_env_set == 1 && __CPROVER_is_fresh(__CPROVER_return_value, vf_len + 1) &&
                   __CPROVER_return_value[vf_len] == 0))
    /* clang-format on */
    ;

/* ghost: value produced by the parser on success, one per type */
int vf_parsed_int;
uint32_t vf_parsed_u32;
uint64_t vf_parsed_u64;
size_t vf_parsed_sz;
#define PARSER(NAME, T, G)                                                     \
    int NAME(const char *str, T *p_val, ABT_bool *p_overflow)                  \
    WRAP_REQUIRES(T)                                                           \
    __CPROVER_assigns(G)                                                       \
    __CPROVER_ensures(__CPROVER_return_value == ABT_SUCCESS ||                 \
                      __CPROVER_return_value == ABT_ERR_INV_ARG)               \
    __CPROVER_ensures(__CPROVER_return_value == ABT_SUCCESS ==> G == *p_val);
PARSER(ABTU_atoi, int, vf_parsed_int)
PARSER(ABTU_atoui32, uint32_t, vf_parsed_u32)
PARSER(ABTU_atoui64, uint64_t, vf_parsed_u64)
PARSER(ABTU_atosz, size_t, vf_parsed_sz)

/* libc functions without a body: nondeterministic results (A5) */
int getpagesize(void)
{
    int r;
    __CPROVER_assume(r > 0);
    return r;
}
long sysconf(int name)
{
    long r;
    return r;
}

ABT_bool ABTD_env_get_stack_guard_mprotect(ABT_bool *is_strict)
    /* clang-format off */
__CPROVER_requires(is_strict == NULL || __CPROVER_is_fresh(is_strict, sizeof(ABT_bool)))
__CPROVER_assigns(is_strict != NULL : *is_strict)
__CPROVER_ensures(__CPROVER_return_value == ABT_TRUE || __CPROVER_return_value == ABT_FALSE)
    /* clang-format on */
    ;
/* proved in unit env_pagesize */
size_t ABTD_env_get_sys_pagesize(void)
    /* clang-format off */
__CPROVER_assigns(vf_env_set, vf_parsed_sz, vf_ai_ret, vf_ai_val, vf_ai_signed, vf_ai_ovf) /* ghost only */
__CPROVER_ensures(__CPROVER_return_value >= 64 &&
                  (__CPROVER_return_value & (__CPROVER_return_value - 1)) == 0)
    /* clang-format on */
    ;

/* clamp(x) into [lo, hi] as the documentation of every numeric setting says */
#define CLAMPED(T, x, lo, hi) ((T)(x) < (T)(lo) ? (T)(lo) : ((T)(x) > (T)(hi) ? (T)(hi) : (T)(x)))
#define LOADER(NAME, T, G)                                                     \
    static T NAME(const char *env_suffix, T default_val, T min_val, T max_val) \
    __CPROVER_requires(min_val <= max_val)                                     \
    __CPROVER_assigns(vf_env_set, G, vf_ai_ret, vf_ai_val, vf_ai_signed, vf_ai_ovf) \
    /* always inside the documented range */                                   \
    __CPROVER_ensures(min_val <= __CPROVER_return_value &&                     \
                      __CPROVER_return_value <= max_val)                       \
    /* unset or unparsable: the default, clamped */                            \
    __CPROVER_ensures((vf_env_set == 0 || vf_ai_ret != ABT_SUCCESS) ==>        \
        __CPROVER_return_value == CLAMPED(T, default_val, min_val, max_val))   \
    /* parsable: the parsed value, clamped */                                  \
    __CPROVER_ensures((vf_env_set == 1 && vf_ai_ret == ABT_SUCCESS) ==>        \
        __CPROVER_return_value == CLAMPED(T, G, min_val, max_val));
LOADER(load_env_int, int, vf_parsed_int)
LOADER(load_env_uint32, uint32_t, vf_parsed_u32)
LOADER(load_env_uint64, uint64_t, vf_parsed_u64)
LOADER(load_env_size, size_t, vf_parsed_sz)

#define HL(NAME, T)                                                            \
    void h_##NAME(void)                                                        \
    {                                                                          \
        const char *sfx; T d, lo, hi;                                          \
        T r = NAME(sfx, d, lo, hi);                                            \
        VF_REACH(#NAME " returns");                                            \
        VF_COVER(vf_env_set == 0, "unset");                                    \
        VF_COVER(vf_env_set == 1 && vf_ai_ret != ABT_SUCCESS, "unparsable");   \
        VF_COVER(vf_env_set == 1 && vf_ai_ret == ABT_SUCCESS && r == lo && lo < hi, "clamped up"); \
        VF_COVER(vf_env_set == 1 && vf_ai_ret == ABT_SUCCESS && r == hi && lo < hi, "clamped down"); \
    }
HL(load_env_int, int)
HL(load_env_uint32, uint32_t)
HL(load_env_uint64, uint64_t)
HL(load_env_size, size_t)

/* power-of-two rounding: loops bounded by the operand width, fully unwound
 * (unwinding assertions on): complete for the whole admitted domain.  Callers
 * pass at most ABTD_ENV_UINT32_MAX / roundup(ABTD_ENV_SIZE_MAX, 64). */
void h_roundup_pow2_uint32(void)
{
    uint32_t v;
    VF_ASSUME(v <= ((uint32_t)1 << 31));
    uint32_t r = roundup_pow2_uint32(v);
    VF_ASSERT(v == 0 ? r == 0 : (r >= v && (r & (r - 1)) == 0 && (r >> 1) < v), "smallest power of two >= val");
    VF_REACH("roundup_pow2_uint32");
    VF_COVER(v > 100000 && r != v, "rounding happened");
}
void h_roundup_pow2_size(void)
{
    size_t v;
    VF_ASSUME(v <= ((size_t)1 << 63));
    size_t r = roundup_pow2_size(v);
    VF_ASSERT(v == 0 ? r == 0 : (r >= v && (r & (r - 1)) == 0 && (r >> 1) < v), "smallest power of two >= val");
    VF_REACH("roundup_pow2_size");
    VF_COVER(v > 100000 && r != v, "rounding happened");
}

/* documented range / rounding of the individual settings, loaders by contract */
void h_env_getters(void)
{
    uint32_t k = ABTD_env_key_table_size();
    VF_ASSERT(k >= 1 && (k & (k - 1)) == 0 && k <= ((uint32_t)1 << 31), "key table size: power of two in [1, 2^31]");
    uint32_t f = ABTD_env_get_sched_event_freq();
    VF_ASSERT(f >= 1 && f <= ABTD_ENV_UINT32_MAX, "event freq in [1, max]");
    uint64_t ns = ABTD_env_get_sched_sleep_nsec();
    VF_ASSERT(ns <= ABTD_ENV_UINT64_MAX, "sleep nsec <= max");
    VF_REACH("getters");
}
void h_env_stacksize(void)
{
    size_t s = ABTD_env_get_thread_stacksize();
    VF_ASSERT(s >= 512 && s % ABT_CONFIG_STATIC_CACHELINE_SIZE == 0 && s <= ((size_t)1 << 63), "thread stack size: >= 512, multiple of the cache line, no wrap");
    size_t s2 = ABTD_env_get_sched_stacksize();
    VF_ASSERT(s2 >= 512 && s2 % ABT_CONFIG_STATIC_CACHELINE_SIZE == 0 && s2 <= ((size_t)1 << 63), "sched stack size: >= 512, multiple of the cache line, no wrap");
    VF_REACH("stack sizes");
}
void h_env_pagesize(void) /* enforces the contract of ABTD_env_get_sys_pagesize */
{
    size_t p = ABTD_env_get_sys_pagesize();
    VF_REACH("page size");
}
void h_env_max_xstreams(void)
{
    int n = ABTD_env_get_max_xstreams();
    VF_ASSERT(n >= 1 && n <= ABTD_ENV_INT_MAX, "max xstreams in [1, INT_MAX/2]");
    VF_REACH("max xstreams");
}
