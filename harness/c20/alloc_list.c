/* C20: arch/abtd_affinity_parser.c -- the allocation list that lets the parser
 * release everything on a parse error (and that ABTD_affinity_list_free walks):
 * list_calloc / list_realloc / list_free_all on the REAL code; the allocator
 * calls inside this file are redirected to logging stubs (macro redirection:
 * ABTU_calloc / ABTU_realloc / ABTU_free -> vf_*), which hand out fresh
 * blocks, move a block on realloc (as the aligned-allocation build always does:
 * malloc + memcpy + free) and remember which block is dead.
 * Invariant L: NULL-terminated doubly linked list from p_head to p_tail holding
 * every live block exactly once; no link refers to a dead block.  The window is
 * (predecessor, block, successor); blocks further away are not touched (frame:
 * the stubs and the code only see these three). */
#include "vf.h"
#include "abti.h"
typedef struct { void *p_prev, *p_next; int payload[8]; } vf_blk; /* header + payload; the padded header size of this configuration must be 16 (assumed below: another value leaves the unit vacuous = UNDECIDED) */
static vf_blk blk_prev, blk_cur, blk_next, blk_new; static int dead_cur, fail, n_alloc, n_free; static void *freed[4];
static int vf_calloc(size_t num, size_t size, void **pp) { n_alloc++; if (fail) return ABT_ERR_MEM; memset(&blk_new, 0, sizeof(blk_new)); *pp = &blk_new; return ABT_SUCCESS; }
static int vf_realloc(size_t old_size, size_t new_size, void **pp)
{
    n_alloc++; if (fail) return ABT_ERR_MEM;
    __CPROVER_assert(*pp == (void *)&blk_cur && !dead_cur, "realloc is given the live block (its header), once");
    blk_new = blk_cur; /* contents are copied */ dead_cur = 1; *pp = &blk_new; return ABT_SUCCESS;
}
static void vf_free(void *p) { if (n_free < 4) freed[n_free] = p; n_free++; }
#define ABTU_calloc vf_calloc
#define ABTU_realloc vf_realloc
#define ABTU_free vf_free
#include "arch/abtd_affinity_parser.c"
#undef ABTU_calloc
#undef ABTU_realloc
#undef ABTU_free

static void setup(void) { { vf_blk a, b, c; blk_prev = a; blk_cur = b; blk_next = c; } dead_cur = 0; n_alloc = n_free = 0; { int f; fail = !!f; } }
void h_list_realloc(void)
{
    setup(); VF_ASSUME(ALLOC_HEADER_SIZE == offsetof(vf_blk, payload));
    alloc_list al; int has_prev, has_next; void *far_prev, *far_next; /* links that lead further away: untouched */
    VF_ASSUME(far_prev != (void *)&blk_cur && far_prev != (void *)&blk_new && far_next != (void *)&blk_cur && far_next != (void *)&blk_new); /* L: the nodes of the list are distinct live blocks */
    blk_cur.p_prev = has_prev ? &blk_prev : NULL; blk_cur.p_next = has_next ? &blk_next : NULL;
    blk_prev.p_next = &blk_cur; blk_prev.p_prev = far_prev; blk_next.p_prev = &blk_cur; blk_next.p_next = far_next;
    al.p_head = has_prev ? (alloc_header *)(far_prev ? far_prev : (void *)&blk_prev) : (alloc_header *)&blk_cur;
    al.p_tail = has_next ? (alloc_header *)(far_next ? far_next : (void *)&blk_next) : (alloc_header *)&blk_cur;
    alloc_header *h0 = al.p_head, *t0 = al.p_tail;
    void *ptr = blk_cur.payload; size_t os, ns; VF_ASSUME(os >= 4 && os <= 16 && ns >= os && ns <= 32);
    int r = list_realloc(&al, os, ns, &ptr);
    if (r != ABT_SUCCESS) {
        VF_ASSERT(fail && ptr == (void *)blk_cur.payload && al.p_head == h0 && al.p_tail == t0 && !dead_cur && blk_prev.p_next == &blk_cur && blk_next.p_prev == &blk_cur, "failed realloc: block, list and caller's pointer unchanged");
        VF_REACH("realloc failed"); return;
    }
    VF_ASSERT(ptr == (void *)blk_new.payload && dead_cur && n_alloc == 1, "the caller's pointer now names the payload of the moved block");
    VF_ASSERT(blk_new.p_prev == (has_prev ? (void *)&blk_prev : NULL) && blk_new.p_next == (has_next ? (void *)&blk_next : NULL), "the moved block keeps its place in the list");
    VF_ASSERT(has_prev ? (blk_prev.p_next == (void *)&blk_new && al.p_head == h0) : al.p_head == (alloc_header *)&blk_new, "the predecessor (or the list head) refers to the moved block");
    VF_ASSERT(has_next ? (blk_next.p_prev == (void *)&blk_new && al.p_tail == t0) : al.p_tail == (alloc_header *)&blk_new, "the successor (or the list TAIL) refers to the moved block -- the next allocation is appended behind it, not behind a dead block");
    VF_ASSERT(al.p_head != (alloc_header *)&blk_cur && al.p_tail != (alloc_header *)&blk_cur && (!has_prev || blk_prev.p_next != (void *)&blk_cur) && (!has_next || blk_next.p_prev != (void *)&blk_cur), "no link refers to the dead block any more (nothing is written to or lost behind freed memory)");
    VF_ASSERT(blk_prev.p_prev == far_prev && blk_next.p_next == far_next, "blocks further away are untouched");
    VF_REACH("list_realloc"); VF_COVER(!has_prev && !has_next, "only block"); VF_COVER(has_prev && !has_next, "tail block"); VF_COVER(!has_prev && has_next, "head block"); VF_COVER(has_prev && has_next, "middle block");
}
void h_list_calloc(void)
{
    setup(); VF_ASSUME(ALLOC_HEADER_SIZE == offsetof(vf_blk, payload)); alloc_list al; int empty; void *far_head;
    if (empty) { al.p_head = NULL; al.p_tail = NULL; } else { al.p_tail = (alloc_header *)&blk_cur; blk_cur.p_next = NULL; al.p_head = (alloc_header *)far_head; VF_ASSUME(far_head != NULL); }
    alloc_header *h0 = al.p_head; void *ptr = (void *)0x55; size_t sz; VF_ASSUME(sz <= 32);
    int r = list_calloc(&al, sz, &ptr);
    if (r != ABT_SUCCESS) { VF_ASSERT(fail && ptr == (void *)0x55 && al.p_head == h0 && (empty ? al.p_tail == NULL : (al.p_tail == (alloc_header *)&blk_cur && blk_cur.p_next == NULL)), "failed allocation: list and output untouched"); VF_REACH("calloc failed"); return; }
    VF_ASSERT(ptr == (void *)blk_new.payload && n_alloc == 1, "payload behind the header is handed out");
    VF_ASSERT(al.p_tail == (alloc_header *)&blk_new && blk_new.p_next == NULL && blk_new.p_prev == (empty ? NULL : (void *)&blk_cur), "the new block is the tail of the list");
    VF_ASSERT(empty ? al.p_head == (alloc_header *)&blk_new : (al.p_head == h0 && blk_cur.p_next == (void *)&blk_new), "... reachable from the head: linked behind the old tail, or the head of an empty list");
    VF_REACH("list_calloc"); VF_COVER(empty, "first block"); VF_COVER(!empty, "appended");
}
void h_list_free_all_B(void)
{
    setup(); int n; VF_ASSUME(0 <= n && n <= 3);
    blk_prev.p_next = n >= 2 ? &blk_cur : NULL; blk_cur.p_next = n >= 3 ? &blk_next : NULL; blk_next.p_next = NULL;
    list_free_all(n >= 1 ? &blk_prev : NULL);
    VF_ASSERT(n_free == n && (n < 1 || freed[0] == &blk_prev) && (n < 2 || freed[1] == &blk_cur) && (n < 3 || freed[2] == &blk_next), "every block of the list is released exactly once (the link is read before the block is released)");
    VF_REACH("list_free_all"); VF_COVER(n == 3, "three blocks"); VF_COVER(n == 0, "empty");
}
