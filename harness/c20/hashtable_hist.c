/* C20 (bounded): util/hashtable.c as an exact map under every history of
 * VF_H operations over VF_K distinct symbolic keys (negative and colliding
 * keys included), compared with an array reference; then freed with the leak
 * check on.  Real allocator model of CBMC (allocation may fail). */
#include "vf.h"
#include "util/hashtable.c"

#ifndef VF_H
#define VF_H 5
#endif
#ifndef VF_K
#define VF_K 4
#endif
#ifndef VF_NE
#define VF_NE 1
#endif

void h_ht_history(void)
{
    ABTU_hashtable *ht;
    int r = ABTU_hashtable_create(VF_NE, sizeof(uint64_t), &ht);
    if (r != ABT_SUCCESS)
        return;
    int key[VF_K];
    uint64_t ref_val[VF_K];
    int ref_in[VF_K];
    for (int a = 0; a < VF_K; a++) {
        ref_in[a] = 0;
        for (int b = 0; b < a; b++)
            VF_ASSUME(key[a] != key[b]);
    }
    for (int t = 0; t < VF_H; t++) {
        int op, a;
        uint64_t v;
        VF_ASSUME(0 <= a && a < VF_K);
        if (op == 0) { /* set */
            int ow = 7;
            r = ABTU_hashtable_set(ht, key[a], &v, &ow);
            if (r == ABT_SUCCESS) {
                VF_ASSERT(ow == ref_in[a], "set: *overwritten == key was present");
                ref_in[a] = 1;
                ref_val[a] = v;
            } else {
                VF_ASSERT(r == ABT_ERR_MEM, "set fails only with ABT_ERR_MEM");
                VF_ASSERT(ow == 7, "failed set leaves *overwritten alone");
            }
        } else if (op == 1) { /* delete */
            int del = 7;
            ABTU_hashtable_delete(ht, key[a], &del);
            VF_ASSERT(del == ref_in[a], "delete: *deleted == key was present");
            ref_in[a] = 0;
        } else { /* get */
            int found = 7;
            uint64_t got = 0x5555;
            ABTU_hashtable_get(ht, key[a], &got, &found);
            VF_ASSERT(found == ref_in[a], "get: *found == key present");
            VF_ASSERT(found ? got == ref_val[a] : got == 0x5555, "get: value is the last one set / untouched");
        }
    }
    /* whole-map comparison: every key, not only the touched one */
    int n_in = 0;
    for (int a = 0; a < VF_K; a++) {
        int found = 7;
        uint64_t got = 0x5555;
        ABTU_hashtable_get(ht, key[a], &got, &found);
        VF_ASSERT(found == ref_in[a], "final: presence of every key as in the reference map");
        VF_ASSERT(!found || got == ref_val[a], "final: value of every key as in the reference map");
        n_in += ref_in[a];
    }
    VF_COVER(n_in == VF_K, "all keys present at the end");
    VF_COVER(n_in == 1 && VF_H >= 4, "deletes happened");
    ABTU_hashtable_free(ht);
    VF_REACH("end of history");
}

/* index computation, full int domain, loop-free: the entry index used by
 * get/set/delete is < num_entries and equal keys give equal indices (checked
 * through get_element's bounds in the callers' pointer checks) */
void h_ht_index(void)
{
    int key;
    size_t num_entries;
    VF_ASSUME(num_entries >= 1 && num_entries <= ((size_t)1 << 32));
    const ssize_t entry_index_tmp = ((ssize_t)key) % ((ssize_t)num_entries);
    const size_t entry_index = entry_index_tmp < 0 ? (ssize_t)(entry_index_tmp + num_entries) : (ssize_t)entry_index_tmp;
    VF_ASSERT(entry_index < num_entries, "index in range for every int key incl. negative");
    VF_REACH("index");
}
