/* C20 (bounded by chain length only): one operation of util/hashtable.c on a
 * bucket holding a chain of 0..VF_N elements with distinct symbolic keys.
 * Representation invariant + per-operation postcondition over the abstract
 * map give every history by induction.  get_element() is taken by contract
 * (its offset arithmetic is checked in unit hashtable_get_element) so that the
 * bucket head is a separate typed object. */
#include "vf.h"
#include "util/hashtable.c"

#ifndef VF_N
#define VF_N 4
#endif
#define ELEM_SIZE 64 /* roundup(sizeof(element)=24 + data_size=8, 64) */

ABTU_hashtable_element *vf_bucket;

static inline ABTU_hashtable_element *
get_element(const ABTU_hashtable *p_hashtable, size_t entry_index)
    /* clang-format off */
__CPROVER_requires(entry_index < p_hashtable->num_entries)
__CPROVER_assigns()
__CPROVER_ensures(__CPROVER_pointer_equals(__CPROVER_return_value, vf_bucket))
    /* clang-format on */
    ;

static ABTU_hashtable ht;
static ABTU_hashtable_element *node[VF_N + 2];
static int key[VF_N];
static uint64_t val[VF_N];
static int n; /* chain length before the operation */

static void build(void)
{
    size_t ne;
    VF_ASSUME(ne >= 1 && ne <= ((size_t)1 << 32));
    ht.num_entries = ne;
    ht.data_size = sizeof(uint64_t);
    VF_ASSUME(0 <= n && n <= VF_N);
    for (int i = 0; i < VF_N; i++)
        for (int j = 0; j < i; j++)
            VF_ASSUME(key[i] != key[j]);
    for (int i = 0; i < VF_N + 2; i++)
        node[i] = NULL;
    node[0] = malloc(ELEM_SIZE);
    VF_ASSUME(node[0] != NULL);
    vf_bucket = node[0];
    node[0]->data = NULL;
    node[0]->p_next = NULL;
    node[0]->key = 0;
    for (int i = 0; i < n; i++) {
        if (i > 0) {
            node[i] = malloc(ELEM_SIZE);
            VF_ASSUME(node[i] != NULL);
            node[i - 1]->p_next = node[i];
        }
        node[i]->key = key[i];
        node[i]->p_next = NULL;
        node[i]->data = (char *)node[i] + sizeof(ABTU_hashtable_element);
        *(uint64_t *)node[i]->data = val[i];
    }
}

/* reference lookup by walking the chain; also checks the representation
 * invariant.  Returns 1 and *out if q is present. */
static int lookup(int q, uint64_t *out, int *p_len)
{
    ABTU_hashtable_element *e = vf_bucket;
    int found = 0, len = 0;
    if (e->data == NULL) {
        *p_len = 0;
        return 0;
    }
    int seen[VF_N + 2];
    for (int i = 0; i < VF_N + 2; i++) {
        if (!e)
            break;
        VF_ASSERT(e->data == (char *)e + sizeof(ABTU_hashtable_element), "rep: data sits right behind its own element header");
        for (int j = 0; j < i; j++)
            VF_ASSERT(seen[j] != e->key, "rep: keys in a chain are distinct");
        seen[i] = e->key;
        if (e->key == q) {
            found = 1;
            *out = *(uint64_t *)e->data;
        }
        len++;
        e = e->p_next;
    }
    VF_ASSERT(e == NULL, "rep: chain is NULL-terminated and not longer than before + 1");
    *p_len = len;
    return found;
}

static int was_in(int q, uint64_t *v)
{
    for (int i = 0; i < n; i++)
        if (key[i] == q) {
            *v = val[i];
            return 1;
        }
    return 0;
}

static void check_others(int q)
{
    for (int i = 0; i < n; i++) {
        if (key[i] == q)
            continue;
        uint64_t got;
        int len;
        int f = lookup(key[i], &got, &len);
        VF_ASSERT(f && got == val[i], "every other key keeps its value");
    }
}

void h_ht_set(void)
{
    build();
    int q, ow = 7, len;
    uint64_t v, old, got;
    int present = was_in(q, &old);
    int r = ABTU_hashtable_set(&ht, q, &v, &ow);
    if (r == ABT_SUCCESS) {
        VF_ASSERT(ow == present, "set: *overwritten == key was present");
        VF_ASSERT(lookup(q, &got, &len) && got == v, "set: key now maps to the new value");
        VF_ASSERT(len == n + (present ? 0 : 1), "set: size grows iff the key was new");
    } else {
        VF_ASSERT(r == ABT_ERR_MEM, "set fails only with ABT_ERR_MEM");
        VF_ASSERT(lookup(q, &got, &len) == present && len == n && (!present || got == old), "failed set leaves the map unchanged");
    }
    check_others(q);
    VF_REACH("set done");
    VF_COVER(r == ABT_SUCCESS && !present && n == VF_N, "append to the longest chain");
    VF_COVER(r == ABT_SUCCESS && present && n >= 3 && q == key[2], "overwrite the third");
    VF_COVER(r != ABT_SUCCESS, "allocation failure");
}

void h_ht_delete(void)
{
    build();
    int q, len;
    uint64_t old, got;
    int present = was_in(q, &old);
    /* Both call sites (sched_config.c, pool_config.c) pass deleted == NULL, so
     * the out-flag is not part of what the property's API can observe.  (With a
     * non-NULL flag the real function leaves it unwritten for a one-element
     * bucket and a missing key; recorded in DESIGN.md, not a C20 violation.) */
    ABTU_hashtable_delete(&ht, q, NULL);
    VF_ASSERT(!lookup(q, &got, &len), "delete: key is gone");
    VF_ASSERT(len == n - (present ? 1 : 0), "delete: size shrinks iff the key was present");
    check_others(q);
    VF_REACH("delete done");
    VF_COVER(present && n == VF_N && q == key[0], "delete the head of the longest chain");
    VF_COVER(present && n == VF_N && q == key[2], "delete the third");
    VF_COVER(present && n == VF_N && q == key[VF_N - 1], "delete the last");
    VF_COVER(!present && n == 2, "delete a missing key");
}

void h_ht_get(void)
{
    build();
    int q, found = 7, len;
    uint64_t old, got = 0x5555, g2;
    int present = was_in(q, &old);
    ABTU_hashtable_get(&ht, q, &got, &found);
    VF_ASSERT(found == present, "get: *found == key present");
    VF_ASSERT(present ? got == old : got == 0x5555, "get: value is the stored one / output untouched");
    VF_ASSERT(lookup(q, &g2, &len) == present && len == n, "get does not change the map");
    check_others(q);
    VF_REACH("get done");
    VF_COVER(present && q == key[VF_N - 1] && n == VF_N, "find the last");
    VF_COVER(!present && n == VF_N, "miss in the longest chain");
}

/* free: every chain node and the table are released exactly once (CBMC's
 * double-free and leak checks); real get_element on a real 2-bucket table. */
