/* C20: pool/pool_config.c -- typed round trip of ABT_pool_config_set/get */
#include "vf.h"
#include "pool/pool_config.c"
#define CFG_ELEM pool_config_element
#define CFG_OBJ ABTI_pool_config
#define CFG_HANDLE ABT_pool_config
#define CFG_TYPE ABT_pool_config_type
#define CFG_INT ABT_POOL_CONFIG_INT
#define CFG_DOUBLE ABT_POOL_CONFIG_DOUBLE
#define CFG_PTR ABT_POOL_CONFIG_PTR
#define CFG_SET ABT_pool_config_set
#define CFG_GET ABT_pool_config_get
#define CFG_HARNESS h_pool_config_roundtrip
#include "harness/c20/config.h"
