/* C20: util/hashtable.c -- the layout agreement between ABTU_hashtable_create
 * (how much is allocated) and get_element (where bucket i lives): every bucket
 * head, with room for its inline data, lies inside the allocation, behind the
 * table header, and two different buckets never overlap.  This is the contract
 * of get_element that the per-operation units (hashtable_*_B) assume.  The
 * allocator call is redirected to a stub handing out one static buffer; only
 * pointer arithmetic is involved (no access through symbolic offsets). */
#include "vf.h"
#include "abti.h"
#define VF_BUF 8192
static char buf[VF_BUF] __attribute__((aligned(64))); static size_t asked; static int fail;
static int vf_calloc(size_t num, size_t size, void **pp) { asked = num * size; __CPROVER_assert(num == 1 || size == 1 || num * size / num == size, "no wrap in the request"); if (fail) return ABT_ERR_MEM; __CPROVER_assume(asked <= VF_BUF); *pp = buf; return ABT_SUCCESS; }
#define ABTU_calloc vf_calloc
#include "util/hashtable.c"
#undef ABTU_calloc
void h_hashtable_layout(void)
{
    size_t ne, ds; VF_ASSUME(ne >= 1 && ne <= 64 && ds <= 256); { int f; fail = !!f; } /* the configuration tables use 1..64 buckets and pointer-sized data; larger tables only scale the same arithmetic (no wrap below 2^32 entries, A9) */
    ABTU_hashtable *ht = (ABTU_hashtable *)0x55;
    int r = ABTU_hashtable_create(ne, ds, &ht);
    if (r != ABT_SUCCESS) { VF_ASSERT(fail && ht == (ABTU_hashtable *)0x55, "failed creation: output untouched"); VF_REACH("create failed"); return; }
    VF_ASSERT((char *)ht == buf && ht->num_entries == ne && ht->data_size == ds, "table header at the start of the block, sizes recorded");
    size_t i, j; VF_ASSUME(i < ne && j < ne && i != j);
    char *ei = (char *)get_element(ht, i), *ej = (char *)get_element(ht, j);
    size_t need = sizeof(ABTU_hashtable_element) + ds;
    VF_ASSERT(ei >= buf + sizeof(ABTU_hashtable) && ei + need <= buf + asked, "bucket i (element header + inline data) lies behind the table header and inside the allocated block");
    VF_ASSERT(ei + need <= ej || ej + need <= ei, "two different buckets never overlap");
    VF_ASSERT(((size_t)(ei - buf) - sizeof(ABTU_hashtable)) % ABT_CONFIG_STATIC_CACHELINE_SIZE == 0, "buckets are spaced by whole cache lines");
    VF_REACH("hashtable layout"); VF_COVER(ne == 64 && ds == 8, "64 buckets of pointers"); VF_COVER(ne == 2, "two buckets"); VF_COVER(ds == 0, "no data");
}
