/* C20: arch/abtd_affinity_parser.c -- token consumers (unbounded strings, loop
 * contracts) and the element-count arithmetic of id_list_add / list_add. */
#include "vf.h"
/* ghost: the affinity string and its length; ghost indices */
const char *vf_str0;
size_t vf_len;
uint32_t vf_k;       /* arbitrary new element */
uint32_t vf_j;       /* arbitrary old element */
uint32_t vf_oldnum;  /* element count on entry */
int vf_jval;         /* value of old element vf_j on entry */
uint32_t vf_basenum; /* list_add: length of the base id list */
#include "arch/abtd_affinity_parser.c"

#define STR_REQUIRES                                                           \
    __CPROVER_requires(vf_len < 0x7fffffff)                                    \
    __CPROVER_requires(__CPROVER_is_fresh(str, vf_len + 1) &&                  \
                       str[vf_len] == 0)                                       \
    __CPROVER_requires(__CPROVER_pointer_equals(vf_str0, str))                 \
    __CPROVER_requires(__CPROVER_is_fresh(p_index, sizeof(uint32_t)) &&        \
                       *p_index <= vf_len)

static int consume_int(const char *str, uint32_t *p_index, int *p_val)
    /* clang-format off */
STR_REQUIRES
__CPROVER_requires(__CPROVER_is_fresh(p_val, sizeof(int)))
__CPROVER_assigns(*p_index, *p_val)
__CPROVER_ensures(__CPROVER_return_value == 0 || __CPROVER_return_value == 1)
__CPROVER_ensures(__CPROVER_return_value == 1 ==>
    (*p_index <= vf_len && *p_index > __CPROVER_old(*p_index)))
__CPROVER_ensures(__CPROVER_return_value == 0 ==>
    (*p_index == __CPROVER_old(*p_index) && *p_val == __CPROVER_old(*p_val)))
    /* clang-format on */
    ;

static int consume_pint(const char *str, uint32_t *p_index, int *p_val)
    /* clang-format off */
STR_REQUIRES
__CPROVER_requires(__CPROVER_is_fresh(p_val, sizeof(int)))
__CPROVER_assigns(*p_index, *p_val)
__CPROVER_ensures(__CPROVER_return_value == 0 || __CPROVER_return_value == 1)
__CPROVER_ensures(__CPROVER_return_value == 1 ==>
    (*p_index <= vf_len && *p_index > __CPROVER_old(*p_index) && *p_val > 0))
__CPROVER_ensures(__CPROVER_return_value == 0 ==>
    (*p_index == __CPROVER_old(*p_index) && *p_val == __CPROVER_old(*p_val)))
    /* clang-format on */
    ;

static int consume_symbol(const char *str, uint32_t *p_index, char symbol)
    /* clang-format off */
STR_REQUIRES
__CPROVER_assigns(*p_index)
__CPROVER_ensures(__CPROVER_return_value == 0 || __CPROVER_return_value == 1)
/* success: the symbol sits just before the new index; a NUL symbol may be
 * consumed only at the very end of the string */
__CPROVER_ensures(__CPROVER_return_value == 1 ==>
    (*p_index > __CPROVER_old(*p_index) && *p_index <= vf_len + 1 &&
     vf_str0[*p_index - 1] == symbol && (symbol != 0 ==> *p_index <= vf_len)))
__CPROVER_ensures(__CPROVER_return_value == 0 ==>
    *p_index == __CPROVER_old(*p_index))
    /* clang-format on */
    ;

void h_consume_int(void)
{
    const char *str; uint32_t *pi; int *pv;
    int r = consume_int(str, pi, pv);
    VF_REACH("consume_int returns");
    VF_COVER(r == 1, "accept"); VF_COVER(r == 0, "reject");
}
void h_consume_pint(void)
{
    const char *str; uint32_t *pi; int *pv;
    int r = consume_pint(str, pi, pv);
    VF_REACH("consume_pint returns");
    VF_COVER(r == 1, "accept"); VF_COVER(r == 0, "reject");
}
void h_consume_symbol(void)
{
    const char *str; uint32_t *pi; char sym;
    int r = consume_symbol(str, pi, sym);
    VF_REACH("consume_symbol returns");
    VF_COVER(r == 1 && sym == 0, "accept NUL"); VF_COVER(r == 1 && sym == ',', "accept comma"); VF_COVER(r == 0, "reject");
}

/* ------------------------------------------------------------------ */
/* list_realloc by contract: a fresh block of exactly new_size bytes whose
 * common prefix is preserved (stated for the ghost element vf_j), or failure
 * with nothing changed. */
static int list_realloc(alloc_list *p_alloc_list, size_t old_size,
                        size_t new_size, void **p_ptr)
    /* clang-format off */
__CPROVER_requires(__CPROVER_is_fresh(p_alloc_list, sizeof(alloc_list)))
__CPROVER_requires(__CPROVER_is_fresh(p_ptr, sizeof(void *)))
__CPROVER_requires((old_size == 0 && *p_ptr == NULL) ||
                   (old_size != 0 && __CPROVER_is_fresh(*p_ptr, old_size)))
__CPROVER_requires((size_t)vf_j * 4 + 4 <= old_size ==> ((int *)*p_ptr)[vf_j] == vf_jval)
__CPROVER_assigns(*p_ptr, *p_alloc_list)
__CPROVER_frees(*p_ptr)
__CPROVER_ensures(__CPROVER_return_value == ABT_SUCCESS ||
                  __CPROVER_return_value == ABT_ERR_MEM)
__CPROVER_ensures(__CPROVER_return_value == ABT_SUCCESS ==>
                  __CPROVER_is_fresh(*p_ptr, new_size))
__CPROVER_ensures((__CPROVER_return_value == ABT_SUCCESS &&
                   (size_t)vf_j * 4 + 4 <= old_size && (size_t)vf_j * 4 + 4 <= new_size) ==>
                  ((int *)*p_ptr)[vf_j] == vf_jval)
__CPROVER_ensures(__CPROVER_return_value != ABT_SUCCESS ==>
                  *p_ptr == __CPROVER_old(*p_ptr))
    /* clang-format on */
    ;

/* id_list_add under the call-site precondition of parse_es_id_list:
 * 1 <= num < MAX_NUM_ELEMS, any id, any stride, and ANY element count already
 * in the list (the running total has no bound at the call sites). */
static int id_list_add(alloc_list *p_alloc_list,
                       ABTD_affinity_id_list *p_id_list, int id, uint32_t num,
                       int stride)
    /* clang-format off */
__CPROVER_requires(__CPROVER_is_fresh(p_alloc_list, sizeof(alloc_list)))
__CPROVER_requires(__CPROVER_is_fresh(p_id_list, sizeof(ABTD_affinity_id_list)))
/* id lists are calloc'ed: an empty list has ids == NULL */
__CPROVER_requires((p_id_list->num == 0 && p_id_list->ids == NULL) ||
                   (p_id_list->num != 0 &&
                    __CPROVER_is_fresh(p_id_list->ids, sizeof(int) * (size_t)p_id_list->num)))
__CPROVER_requires(1 <= num && num < MAX_NUM_ELEMS)
__CPROVER_requires(vf_oldnum == p_id_list->num && vf_k < num)
__CPROVER_requires(vf_j < vf_oldnum ==> p_id_list->ids[vf_j] == vf_jval)
__CPROVER_assigns(*p_alloc_list, p_id_list->ids, p_id_list->num)
__CPROVER_frees(p_id_list->ids)
__CPROVER_ensures(__CPROVER_return_value == ABT_SUCCESS ==>
    (p_id_list->num == vf_oldnum + num &&
     p_id_list->num > vf_oldnum /* no wrap: the list really grew */ &&
     (vf_j < vf_oldnum ==> p_id_list->ids[vf_j] == vf_jval)))
__CPROVER_ensures(__CPROVER_return_value != ABT_SUCCESS ==>
    (p_id_list->num == vf_oldnum && p_id_list->ids == __CPROVER_old(p_id_list->ids)))
    /* clang-format on */
    ;

void h_id_list_add(void)
{
    alloc_list *al; ABTD_affinity_id_list *il; int id, stride; uint32_t num;
    int r = id_list_add(al, il, id, num, stride);
    VF_REACH("id_list_add returns");
    VF_COVER(r == ABT_SUCCESS && vf_oldnum > 3 && num > 3, "grow a non-empty list");
    VF_COVER(r == ABT_SUCCESS && vf_oldnum == 0, "fill an empty list");
    VF_COVER(r != ABT_SUCCESS, "failure path");
}

/* ------------------------------------------------------------------ */
/* list_add: same count arithmetic on the list of id lists. */
static int list_calloc(alloc_list *p_alloc_list, size_t size, void **p_ptr)
    /* clang-format off */
__CPROVER_requires(__CPROVER_is_fresh(p_alloc_list, sizeof(alloc_list)))
__CPROVER_requires(__CPROVER_is_fresh(p_ptr, sizeof(void *)))
__CPROVER_assigns(*p_ptr, *p_alloc_list)
__CPROVER_ensures(__CPROVER_return_value == ABT_SUCCESS ||
                  __CPROVER_return_value == ABT_ERR_MEM)
__CPROVER_ensures(__CPROVER_return_value == ABT_SUCCESS ==>
                  __CPROVER_is_fresh(*p_ptr, size))
__CPROVER_ensures(__CPROVER_return_value != ABT_SUCCESS ==>
                  *p_ptr == __CPROVER_old(*p_ptr))
    /* clang-format on */
    ;

static int id_list_create(alloc_list *p_alloc_list,
                          ABTD_affinity_id_list **pp_id_list)
    /* clang-format off */
__CPROVER_requires(__CPROVER_is_fresh(p_alloc_list, sizeof(alloc_list)))
__CPROVER_requires(__CPROVER_is_fresh(pp_id_list, sizeof(void *)))
__CPROVER_assigns(*pp_id_list, *p_alloc_list)
__CPROVER_ensures(__CPROVER_return_value == ABT_SUCCESS ||
                  __CPROVER_return_value == ABT_ERR_MEM)
__CPROVER_ensures(__CPROVER_return_value == ABT_SUCCESS ==>
                  (__CPROVER_is_fresh(*pp_id_list, sizeof(ABTD_affinity_id_list)) &&
                   (*pp_id_list)->num == 0 && (*pp_id_list)->ids == NULL))
    /* clang-format on */
    ;

static int list_add(alloc_list *p_alloc_list, ABTD_affinity_list *p_list,
                    ABTD_affinity_id_list *p_base, uint32_t num, int stride)
    /* clang-format off */
__CPROVER_requires(__CPROVER_is_fresh(p_alloc_list, sizeof(alloc_list)))
__CPROVER_requires(__CPROVER_is_fresh(p_list, sizeof(ABTD_affinity_list)))
__CPROVER_requires((p_list->num == 0 && p_list->p_id_lists == NULL) ||
                   (p_list->num != 0 &&
                    __CPROVER_is_fresh(p_list->p_id_lists, sizeof(void *) * (size_t)p_list->num)))
__CPROVER_requires(__CPROVER_is_fresh(p_base, sizeof(ABTD_affinity_id_list)))
__CPROVER_requires(p_base->num >= 1 && p_base->num < MAX_NUM_ELEMS && vf_basenum == p_base->num &&
                   __CPROVER_is_fresh(p_base->ids, sizeof(int) * (size_t)p_base->num))
__CPROVER_requires(1 <= num && num < MAX_NUM_ELEMS)
__CPROVER_requires(vf_oldnum == p_list->num)
/* ghost fact demanded by list_realloc's contract (vf_jval names the int at
 * index vf_j of the old block, whatever it is) */
__CPROVER_requires((size_t)vf_j * 4 + 4 <= sizeof(void *) * (size_t)p_list->num ==>
                   ((int *)p_list->p_id_lists)[vf_j] == vf_jval)
__CPROVER_assigns(*p_alloc_list, p_list->p_id_lists, p_list->num)
__CPROVER_frees(p_list->p_id_lists)
__CPROVER_ensures(__CPROVER_return_value == ABT_SUCCESS ==>
    (p_list->num == vf_oldnum + num && p_list->num > vf_oldnum &&
     __CPROVER_pointer_equals(p_list->p_id_lists[vf_oldnum], p_base)))
    /* clang-format on */
    ;

void h_list_add(void)
{
    alloc_list *al; ABTD_affinity_list *l; ABTD_affinity_id_list *b; int stride; uint32_t num;
    int r = list_add(al, l, b, num, stride);
    VF_REACH("list_add returns");
    VF_COVER(r == ABT_SUCCESS && vf_oldnum > 3 && num > 3, "grow a non-empty list");
    VF_COVER(r == ABT_SUCCESS && vf_oldnum == 0, "fill an empty list");
    VF_COVER(r != ABT_SUCCESS, "failure path");
}
