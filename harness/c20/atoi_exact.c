/* C20 (bounded): exact value of atoi_impl against a reference written from the
 * grammar  ws* sign* digit+ rest  with 128-bit accumulation.  Bound: strings of
 * at most VF_MAXLEN characters (covers every 64-bit value, a sign and a blank).
 */
#include "vf.h"
const char *vf_str0;
size_t vf_len;
#include "util/atoi.c"

#ifndef VF_MAXLEN
#define VF_MAXLEN 22
#endif

char vf_in_str[VF_MAXLEN + 1];
size_t vf_in_len;
static int is_ws(char c) { return c == ' ' || c == '\t' || c == '\n' || c == '\r'; }

void h_atoi_exact(void)
{
    char *s = vf_in_str;
    size_t n;
    VF_ASSUME(n <= VF_MAXLEN);
    for (size_t k = 0; k < VF_MAXLEN; k++) {
        char c;
        vf_in_str[k] = c; /* explicit input, shows up in the trace */
    }
    s[n] = 0;
    vf_in_len = n;
#ifdef VF_PREFIX
    /* boundary variant: the string starts with the first digits of 2^64 so
     * that the symbolic tail explores both sides of the saturation limit */
    {
        const char pre[] = VF_PREFIX;
        VF_ASSUME(n >= sizeof(pre) - 1);
        for (size_t k = 0; k + 1 < sizeof(pre); k++)
            s[k] = pre[k];
    }
#endif
    /* reference: one pass, phases 0 = blanks, 1 = signs, 2 = digits, 3 = done;
     * saturation decided by comparison with floor(UINT64_MAX / 10) and the
     * last digit, no multiplication involved in the test */
    int neg = 0, have = 0, sat = 0, phase = 0;
    uint64_t acc = 0;
    for (size_t i = 0; i < VF_MAXLEN; i++) {
        if (i >= n || phase == 3)
            break;
        char c = s[i];
        if (phase == 0 && is_ws(c))
            continue;
        if (phase <= 1 && (c == '+' || c == '-')) {
            phase = 1;
            if (c == '-')
                neg = !neg;
            continue;
        }
        if (c >= '0' && c <= '9') {
            unsigned d = (unsigned)(c - '0');
            phase = 2;
            have = 1;
            if (acc > 1844674407370955161ull ||
                (acc == 1844674407370955161ull && d > 5)) {
                sat = 1;
                phase = 3;
            } else {
                acc = (acc << 3) + (acc << 1) + d;
            }
            continue;
        }
        phase = 3;
    }
    ABT_bool sg = 7, ov = 7;
    uint64_t v = 12345;
    int r = atoi_impl(s, &sg, &v, &ov);
    if (!have) {
        VF_ASSERT(r == ABT_ERR_INV_ARG, "no digit run => ABT_ERR_INV_ARG");
        VF_ASSERT(v == 12345 && sg == 7 && ov == 7, "outputs untouched on error");
    } else {
        VF_ASSERT(r == ABT_SUCCESS, "digit run => ABT_SUCCESS");
        VF_ASSERT(sg == (neg ? ABT_TRUE : ABT_FALSE), "sign = parity of '-' signs");
        VF_ASSERT(ov == (sat ? ABT_TRUE : ABT_FALSE), "overflow flag iff value >= 2^64");
        VF_ASSERT(v == (sat ? UINT64_MAX : acc), "exact decimal value or saturation");
    }
    VF_REACH("end of harness");
#ifdef VF_PREFIX
    VF_COVER(have && sat, "saturating input");
    VF_COVER(have && !sat && acc > 18446744073709000000ull, "exact input just below 2^64");
    VF_COVER(have && !sat && acc == 18446744073709551615ull, "exactly UINT64_MAX without overflow");
#else
    VF_COVER(have && !sat && acc > 100000ull && neg, "large negative exact input");
    VF_COVER(!have && n > 2, "rejected input");
#endif
}
