/* C20: sched/sched_config.c -- typed round trip of ABT_sched_config_set/get */
#include "vf.h"
#include "sched/sched_config.c"
#define CFG_ELEM sched_config_element
#define CFG_OBJ ABTI_sched_config
#define CFG_HANDLE ABT_sched_config
#define CFG_TYPE ABT_sched_config_type
#define CFG_INT ABT_SCHED_CONFIG_INT
#define CFG_DOUBLE ABT_SCHED_CONFIG_DOUBLE
#define CFG_PTR ABT_SCHED_CONFIG_PTR
#define CFG_SET ABT_sched_config_set
#define CFG_GET ABT_sched_config_get
#define CFG_HARNESS h_sched_config_roundtrip
#include "harness/c20/config.h"
