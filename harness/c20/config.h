/* Shared body of the pool_config / sched_config round-trip units.  The hash
 * table is replaced by its abstract map (one observed cell; semantics proved in
 * the hashtable_* units), with set failing nondeterministically. */
static unsigned char vf_cell[sizeof(CFG_ELEM)];
static int vf_cell_key, vf_cell_in, vf_set_calls, vf_del_calls;
static size_t vf_cell_size;

int ABTU_hashtable_set(ABTU_hashtable *t, int key, const void *data, int *ow)
{
    int fail;
    vf_set_calls++;
    if (fail)
        return ABT_ERR_MEM;
    __CPROVER_assert(data != NULL, "hashtable_set gets data");
    memcpy(vf_cell, data, sizeof(CFG_ELEM));
    vf_cell_key = key;
    vf_cell_in = 1;
    return ABT_SUCCESS;
}
void ABTU_hashtable_get(const ABTU_hashtable *t, int key, void *data, int *found)
{
    if (vf_cell_in && key == vf_cell_key) {
        if (data)
            memcpy(data, vf_cell, sizeof(CFG_ELEM));
        if (found)
            *found = 1;
    } else if (found) {
        *found = 0;
    }
}
void ABTU_hashtable_delete(ABTU_hashtable *t, int key, int *deleted)
{
    vf_del_calls++;
    if (vf_cell_in && key == vf_cell_key)
        vf_cell_in = 0;
}

void CFG_HARNESS(void)
{
    CFG_OBJ obj;
    ABTU_hashtable tbl;
    obj.p_table = &tbl;
    CFG_HANDLE h = (CFG_HANDLE)&obj;
    int key;
    CFG_TYPE type, t2 = (CFG_TYPE)77;
    uint64_t in = 0, out = 0x5555555555555555ull; /* 8 bytes hold int, double bits or pointer */
    uint64_t nd;
    vf_cell_in = 0;
    vf_set_calls = 0;
    vf_del_calls = 0;
    if (type == CFG_INT) { int x = (int)nd; memcpy(&in, &x, sizeof x); }
    else in = nd;
    int r = CFG_SET(h, key, type, &in);
    if (type != CFG_INT && type != CFG_DOUBLE && type != CFG_PTR) {
        VF_ASSERT(r == ABT_ERR_INV_ARG, "unknown type is rejected with ABT_ERR_INV_ARG");
        VF_ASSERT(vf_cell_in == 0 && vf_set_calls == 0, "rejected set does not touch the map");
        VF_REACH("unknown type");
        return;
    }
    if (r != ABT_SUCCESS) {
        VF_ASSERT(r == ABT_ERR_MEM && vf_cell_in == 0, "failed set: ABT_ERR_MEM and map unchanged");
        VF_REACH("set failed");
        return;
    }
    int r2 = CFG_GET(h, key, &t2, &out);
    VF_ASSERT(r2 == ABT_SUCCESS, "get of a set key succeeds");
    VF_ASSERT(t2 == type, "get returns the type that was set");
    if (type == CFG_INT) {
        int a, b; memcpy(&a, &in, sizeof a); memcpy(&b, &out, sizeof b);
        VF_ASSERT(a == b, "int value round trip");
    } else {
        VF_ASSERT(in == out, "double (bit pattern) / pointer value round trip");
    }
    /* NULL value = delete */
    int r3 = CFG_SET(h, key, type, NULL);
    VF_ASSERT(r3 == ABT_SUCCESS && vf_cell_in == 0 && vf_del_calls == 1, "set(NULL) deletes the key");
    t2 = (CFG_TYPE)77; out = 0x5555555555555555ull;
    int r4 = CFG_GET(h, key, &t2, &out);
    VF_ASSERT(r4 == ABT_ERR_INV_ARG, "get of a missing key: ABT_ERR_INV_ARG");
    VF_ASSERT(t2 == (CFG_TYPE)77 && out == 0x5555555555555555ull, "get of a missing key leaves the outputs untouched");
    VF_REACH("round trip done");
    VF_COVER(type == CFG_DOUBLE, "double");
    VF_COVER(type == CFG_PTR, "pointer");
    VF_COVER(type == CFG_INT && key < 0, "int with negative key");
}
