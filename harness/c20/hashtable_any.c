/* C20: util/hashtable.c ABTU_hashtable_get on a bucket chain of ANY length, by a
 * SUMMARY NODE: the chain is  HEAD -> S -> S -> ... -> NULL  where S is one
 * object that stands for every interior node: the loop contract lists S's
 * fields among the loop's assigns targets, so at the arbitrary iteration the
 * verifier examines S has arbitrary contents (an arbitrary key, arbitrary data,
 * a successor that is again "some interior node" or the end).  The real code
 * is unchanged; the extra nondeterminism only adds behaviours.  What this
 * decides without a bound: memory safety of the walk, termination-independent
 * facts -- found implies the data copied out is the data of a chain node whose
 * key equals the requested key, read AFTER the key was compared; not found
 * leaves the output untouched; no node is written.  What it cannot say:
 * "found iff some node has the key" (needs the set of all nodes: the bounded
 * units hashtable_*_B state it for chains up to 4). */
#include "vf.h"
struct ABTU_hashtable_element; struct ABTU_hashtable_element *vf_head, *vf_sum; /* ghost names for the loop contract */
unsigned long *vf_sum_d; /* the summary node's data buffer */
#include "util/hashtable.c"
static ABTU_hashtable ht; static struct { ABTU_hashtable_element e; uint64_t d; } HEAD; static struct { ABTU_hashtable_element e; } S; static unsigned long SD;
static inline ABTU_hashtable_element *get_element(const ABTU_hashtable *p_hashtable, size_t entry_index)
__CPROVER_requires(entry_index < p_hashtable->num_entries)
__CPROVER_assigns()
__CPROVER_ensures(__CPROVER_return_value == vf_head);
void h_hashtable_get_any(void)
{
    size_t ne; VF_ASSUME(ne >= 1 && ne <= ((size_t)1 << 32)); ht.num_entries = ne; ht.data_size = sizeof(uint64_t);
    vf_head = &HEAD.e; vf_sum = &S.e; vf_sum_d = &SD;
    { int e; if (e) { HEAD.e.data = NULL; HEAD.e.p_next = NULL; } else { HEAD.e.data = (char *)&HEAD.d; int more; HEAD.e.p_next = more ? &S.e : NULL; } } /* an empty bucket has data == NULL */
    S.e.data = (char *)&SD; { int more; S.e.p_next = more ? &S.e : NULL; }
    int key; uint64_t out = 0x5555; int found = 7; uint64_t hd0 = HEAD.d; int hk0 = HEAD.e.key;
    ABTU_hashtable_get(&ht, key, &out, &found);
    VF_ASSERT(found == 0 || found == 1, "found is set");
    if (found == 0) VF_ASSERT(out == 0x5555, "not found: the output buffer is untouched");
    else VF_ASSERT((hk0 == key && HEAD.e.data != NULL && out == hd0) || (S.e.key == key && out == SD), "found: the value copied out belongs to a node of this chain whose key is the requested key");
    VF_ASSERT(HEAD.d == hd0 && HEAD.e.key == hk0 && HEAD.e.data == (HEAD.e.data ? (char *)&HEAD.d : NULL), "the table is not written by a look-up");
    VF_REACH("hashtable_get any"); VF_COVER(found == 1 && hk0 != key, "found deep in the chain"); VF_COVER(found == 0 && HEAD.e.data != NULL, "walked to the end"); VF_COVER(HEAD.e.data == NULL, "empty bucket");
}
