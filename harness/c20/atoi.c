/* C20: util/atoi.c -- the real file is included, contracts are attached by
 * re-declaration. */
#include "vf.h"
/* ghost: the string passed to atoi_impl and its length (declared before the
 * real file because the inserted loop invariants mention them) */
const char *vf_str0;
size_t vf_len;
#include "util/atoi.c"

#include "atoi_impl.h"
static int atoi_impl(const char *str, ABT_bool *p_is_signed, uint64_t *p_val,
                     ABT_bool *p_overflow)
    /* clang-format off */
ATOI_IMPL_REQUIRES
__CPROVER_requires(__CPROVER_pointer_equals(vf_str0, str))
__CPROVER_assigns(*p_is_signed, *p_val, *p_overflow)
ATOI_IMPL_ENSURES
    /* clang-format on */
    ;

void h_atoi_impl(void)
{
    const char *str;
    ABT_bool *p_s, *p_o;
    uint64_t *p_v;
    int r = atoi_impl(str, p_s, p_v, p_o);
    VF_REACH("atoi_impl returns");
    VF_COVER(r == ABT_SUCCESS, "accept reachable");
    VF_COVER(r == ABT_ERR_INV_ARG, "reject reachable");
}
