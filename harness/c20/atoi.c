/* C20: util/atoi.c -- the real file is included, contracts are attached by
 * re-declaration. */
#include "vf.h"
/* ghost: the string passed to atoi_impl and its length (declared before the
 * real file because the inserted loop invariants mention them) */
const char *vf_str0;
size_t vf_len;
#include "util/atoi.c"

static int atoi_impl(const char *str, ABT_bool *p_is_signed, uint64_t *p_val,
                     ABT_bool *p_overflow)
    /* clang-format off */
__CPROVER_requires(vf_len < 1000000)
__CPROVER_requires(__CPROVER_is_fresh(str, vf_len + 1) && str[vf_len] == 0)
__CPROVER_requires(__CPROVER_pointer_equals(vf_str0, str))
__CPROVER_requires(__CPROVER_is_fresh(p_is_signed, sizeof(ABT_bool)))
__CPROVER_requires(__CPROVER_is_fresh(p_val, sizeof(uint64_t)))
__CPROVER_requires(__CPROVER_is_fresh(p_overflow, sizeof(ABT_bool)))
__CPROVER_assigns(*p_is_signed, *p_val, *p_overflow)
__CPROVER_ensures(__CPROVER_return_value == ABT_SUCCESS ||
                  __CPROVER_return_value == ABT_ERR_INV_ARG)
__CPROVER_ensures(__CPROVER_return_value == ABT_SUCCESS ==>
                  ((*p_overflow == ABT_TRUE || *p_overflow == ABT_FALSE) &&
                   (*p_is_signed == ABT_TRUE || *p_is_signed == ABT_FALSE)))
/* saturation, never wrap-around */
__CPROVER_ensures((__CPROVER_return_value == ABT_SUCCESS &&
                   *p_overflow == ABT_TRUE) ==> *p_val == UINT64_MAX)
/* outputs are written iff the parse succeeded */
__CPROVER_ensures(__CPROVER_return_value != ABT_SUCCESS ==>
                  (*p_val == __CPROVER_old(*p_val) &&
                   *p_overflow == __CPROVER_old(*p_overflow) &&
                   *p_is_signed == __CPROVER_old(*p_is_signed)))
/* a string that starts with a digit always parses */
__CPROVER_ensures(('0' <= __CPROVER_old(str[0]) && __CPROVER_old(str[0]) <= '9')
                  ==> __CPROVER_return_value == ABT_SUCCESS)
/* the empty string never parses */
__CPROVER_ensures(__CPROVER_old(str[0]) == 0 ==>
                  __CPROVER_return_value == ABT_ERR_INV_ARG)
    /* clang-format on */
    ;

void h_atoi_impl(void)
{
    const char *str;
    ABT_bool *p_s, *p_o;
    uint64_t *p_v;
    int r = atoi_impl(str, p_s, p_v, p_o);
    VF_REACH("atoi_impl returns");
    VF_COVER(r == ABT_SUCCESS, "accept reachable");
    VF_COVER(r == ABT_ERR_INV_ARG, "reject reachable");
}
