/* C08: barrier.c.  Lock invariant of p_barrier->lock:
 *   counter < num_waiters  and  (number of enqueued waiters) == counter.
 * Only the arrival that completes the round broadcasts; it resets the counter
 * BEFORE releasing the lock, so a fast re-entrant caller counts for the next
 * round. */
#include "vf.h"
#include "abti.h"
ABTI_barrier *vf_ba;
size_t vf_c_at_lock;
#include "env/spinlock_ghost.h"
size_t vf_wl_len;
#define VF_LOCK_INV (vf_ba->counter < vf_ba->num_waiters && vf_wl_len == vf_ba->counter)
#define VF_LOCK_HAVOC vf_ba->counter, vf_wl_len
#define VF_LOCK_GHOST vf_c_at_lock
#define VF_LOCK_POST (vf_c_at_lock == vf_ba->counter)
#include "env/spinlock.h"
/* at the moment the caller starts waiting: it has been counted, the round is
 * not complete, and (with itself enqueued) the invariant holds at the release
 * inside wait_and_unlock */
#define VF_WL_WAIT_PRE (vf_ba->counter == vf_c_at_lock + 1 && vf_ba->counter < vf_ba->num_waiters && vf_wl_len + 1 == vf_ba->counter)
#define VF_WL_WAIT_HAVOC vf_ba->counter
/* the round-completing arrival broadcasts when everybody else is enqueued */
#define VF_WL_BCAST_PRE (vf_ba->counter == vf_ba->num_waiters && vf_wl_len + 1 == vf_ba->num_waiters)
#define vf_wl_len vf_wl_len
#include "contracts/waitlist_thin.h"
/* the release of the barrier's memory is observed: was the barrier lock held at that moment? */
static unsigned vf_n_bfree; static void *vf_bfree_ptr; static int vf_bfree_locked;
static void vf_bfree(void *p) { vf_n_bfree++; vf_bfree_ptr = p; vf_bfree_locked = (vf_lock_held == 1 && vf_lock_which == &vf_ba->lock); }
#define ABTU_free vf_bfree
#include <barrier.c>
#undef ABTU_free

static ABTI_barrier ba;
static ABTI_xstream xs;
static ABTI_thread self;
static int caller_is_tasklet;
static void setup(void)
{
    vf_ba = &ba;
    vf_lock_held = 0;
    /* caller: external thread (no local), a ULT, or a tasklet (rejected by the
     * 1.x API before anything is touched) */
    int ext;
    xs.p_thread = &self;
    lp_ABTI_local = ext ? NULL : (ABTI_local *)&xs;
    caller_is_tasklet = !ext && !(self.type & ABTI_THREAD_TYPE_YIELDABLE);
    VF_ASSUME(ba.num_waiters >= 1 && ba.num_waiters <= 0xffffffffu);
    VF_ASSUME(vf_clock < 100 && vf_acquires < 100 && vf_releases < 100 && vf_wl_bcasts < 100 && vf_wl_waits < 100);
}
void h_barrier_wait(void)
{
    setup();
    unsigned w0 = vf_wl_waits, b0 = vf_wl_bcasts, a0 = vf_acquires, r0 = vf_releases;
    size_t cnt0 = ba.counter, nw0 = ba.num_waiters; ABTI_waitlist wl0 = ba.waitlist;
    int r = ABT_barrier_wait((ABT_barrier)&ba);
    VF_ASSERT(ba.num_waiters == nw0 && ba.waitlist.p_head == wl0.p_head && ba.waitlist.p_tail == wl0.p_tail && ba.waitlist.futex.val.val == wl0.futex.val.val, "frame: an arrival never changes the number of waiters the barrier was created for, nor the wait-list words outside the wait-list operations");
    if (caller_is_tasklet) {
        VF_ASSERT(r == ABT_ERR_BARRIER && ba.counter == cnt0 && vf_acquires == a0 && vf_releases == r0 && vf_wl_waits == w0 && vf_wl_bcasts == b0 && vf_lock_held == 0,
                  "tasklet caller rejected with nothing changed (not counted as an arrival)");
        VF_REACH("tasklet rejected");
        return;
    }
    VF_ASSERT(r == ABT_SUCCESS && vf_lock_held == 0 && vf_acquires == a0 + 1 && vf_releases == r0 + 1 && vf_lock_which == &ba.lock, "one critical section on the barrier's lock");
    if (vf_c_at_lock + 1 < ba.num_waiters) {
        VF_ASSERT(vf_wl_waits == w0 + 1 && vf_wl_bcasts == b0 && vf_wl_which == &ba.waitlist, "round not complete: the caller waits, nobody is released");
        VF_ASSERT(vf_t_acquire < vf_t_wl_wait, "... counted and enqueued inside the critical section");
    } else {
        VF_ASSERT(vf_wl_waits == w0 && vf_wl_bcasts == b0 + 1 && vf_wl_which == &ba.waitlist, "last arrival: exactly one broadcast, does not wait itself");
        VF_ASSERT(vf_wl_woken == ba.num_waiters - 1, "the broadcast releases all other num_waiters-1 callers of this round");
        VF_ASSERT(ba.counter == 0 && vf_t_wl_bcast < vf_t_release, "counter reset for the next round before the lock is released");
    }
    VF_REACH("barrier_wait returns");
    VF_COVER(vf_c_at_lock + 1 < ba.num_waiters, "waiter"); VF_COVER(vf_c_at_lock + 1 == ba.num_waiters && ba.num_waiters > 2, "last arrival"); VF_COVER(ba.num_waiters == 1, "single");
}
void h_barrier_misc(void)
{
    setup();
    uint32_t n = 7, nw;
    ba.counter = 0;
    size_t nw0 = ba.num_waiters;
    VF_ASSERT(ABT_barrier_reinit((ABT_barrier)&ba, 0) == ABT_ERR_INV_ARG && ba.num_waiters == nw0 && ba.counter == 0, "reinit(0) rejected, nothing changed");
    VF_ASSERT(ABT_barrier_reinit((ABT_barrier)&ba, nw) == (nw ? ABT_SUCCESS : ABT_ERR_INV_ARG), "reinit result");
    VF_ASSERT(nw ? (ba.num_waiters == nw && ba.counter == 0) : ba.num_waiters == nw0, "reinit installs the new count, counter untouched");
    VF_ASSERT(vf_lock_held == 0, "reinit leaves the barrier lock free");
    { uint32_t same = (uint32_t)ba.num_waiters; VF_ASSERT(ABT_barrier_reinit((ABT_barrier)&ba, same) == ABT_SUCCESS && vf_lock_held == 0 && ba.num_waiters == same, "reinit with the unchanged count: success, lock free"); }
    VF_ASSERT(ABT_barrier_get_num_waiters((ABT_barrier)&ba, &n) == ABT_SUCCESS && n == (uint32_t)ba.num_waiters, "get_num_waiters");
    VF_ASSERT(ABT_barrier_wait(ABT_BARRIER_NULL) == ABT_ERR_INV_BARRIER && ABT_barrier_reinit(ABT_BARRIER_NULL, 1) == ABT_ERR_INV_BARRIER, "NULL handle rejected");
    ABT_barrier nb = (ABT_barrier)0x77;
    VF_ASSERT(ABT_barrier_create(0, &nb) == ABT_ERR_INV_ARG && nb == ABT_BARRIER_NULL, "create(0) rejected, handle set to NULL (1.x API)");
    VF_REACH("misc");
}

/* ABT_barrier_free: the arrival that completes a round holds the barrier lock from its count-up until it has woken the
 * others and reset the counter; a released waiter may call free at once.  The structure may therefore be released only
 * AFTER its lock was acquired (that is the only thing that waits for the last arrival to leave the barrier). */
void h_barrier_free(void)
{
    setup(); vf_n_bfree = 0; vf_bfree_ptr = NULL; vf_bfree_locked = 0; unsigned a0 = vf_acquires;
    int nul; ABT_barrier h = nul ? ABT_BARRIER_NULL : (ABT_barrier)&ba;
    int r = ABT_barrier_free(&h);
    if (nul) { VF_ASSERT(r == ABT_ERR_INV_BARRIER && vf_n_bfree == 0 && vf_acquires == a0 && h == ABT_BARRIER_NULL, "NULL handle rejected, nothing released"); VF_REACH("free NULL"); return; }
    VF_ASSERT(r == ABT_SUCCESS && h == ABT_BARRIER_NULL, "freed: handle set to ABT_BARRIER_NULL");
    VF_ASSERT(vf_n_bfree == 1 && vf_bfree_ptr == (void *)&ba, "the barrier structure is released exactly once");
    VF_ASSERT(vf_acquires == a0 + 1 && vf_bfree_locked, "... and only while holding the barrier lock: a last arrival still inside ABT_barrier_wait (it holds the lock until it has reset the counter) is waited for");
    VF_REACH("barrier free");
}
