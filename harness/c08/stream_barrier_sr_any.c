/* (any number of polls: loop contract, see loopinv/stream_barrier_sr_any.json)
 * C08: stream_barrier.c, the sense-reversal fallback that the default
 * configuration compiles out (HAVE_PTHREAD_BARRIER_INIT undefined here): the
 * real text, with the barrier lock under the lock-invariant rule and the tag
 * word read through an environment model (other streams complete the round at
 * some point while this one spins). */
#include "vf.h"
#include "abt_config.h"
#undef HAVE_PTHREAD_BARRIER_INIT
#include "abti.h"
ABTI_xstream_barrier *vf_b; int vf_held, vf_spun; static ABTI_xstream_barrier b; static int n_acq, n_rel, inv_ok_at_release; static int sampled_under_lock; static uint64_t t0;
#define held vf_held
#define spins vf_spun
int nondet_int(void); uint64_t nondet_u64(void);
/* acquire: other streams may have arrived meanwhile: counter is any value the invariant allows */
static void vf_acquire(ABTD_spinlock *l) { __CPROVER_assert(!held && l == &b.lock, "the barrier's own lock, not held"); held = 1; n_acq++; uint32_t c = (uint32_t)nondet_int(); __CPROVER_assume(c < b.num_waiters); b.counter = c; t0 = b.tag.val; }
static void vf_release(ABTD_spinlock *l) { __CPROVER_assert(held && l == &b.lock, "release of the held lock"); held = 0; n_rel++; inv_ok_at_release = (b.counter < b.num_waiters); }
static uint64_t vf_relaxed_load(const ABTD_atomic_uint64 *p) { __CPROVER_assert(held, "the tag is sampled under the barrier lock (an arrival completing the round in between cannot be missed)"); sampled_under_lock = 1; return p->val; }
/* spinning: the tag changes when the last stream arrives -- after ANY number of fruitless polls (loop contract on the real spin loop) */
static uint64_t vf_acquire_load(const ABTD_atomic_uint64 *p) { __CPROVER_assert(!held, "never spins with the lock held"); spins = 1; if (nondet_int()) { b.tag.val = (b.tag.val + 1) & (UINT64_MAX >> 1); } return b.tag.val; }
static int n_release_store; static void vf_release_store(ABTD_atomic_uint64 *p, uint64_t v) { __CPROVER_assert(held, "the tag is advanced inside the critical section"); n_release_store++; p->val = v; }
#define ABTD_atomic_release_store_uint64(p, v) vf_release_store((p), (v))
#define ABTD_spinlock_acquire(l) vf_acquire(l)
#define ABTD_spinlock_release(l) vf_release(l)
#define ABTD_atomic_relaxed_load_uint64(p) vf_relaxed_load(p)
#define ABTD_atomic_acquire_load_uint64(p) vf_acquire_load(p)
#include <stream_barrier.c>
void h_sr_wait_any(void)
{
    vf_b = &b; { uint32_t n; b.num_waiters = n; uint64_t t; VF_ASSUME(t <= (UINT64_MAX >> 1)); b.tag.val = t; } held = 0; n_acq = n_rel = 0; n_release_store = 0; spins = 0; sampled_under_lock = 0; inv_ok_at_release = 1;
    uint64_t tag_before = b.tag.val;
    int r = ABT_xstream_barrier_wait((ABT_xstream_barrier)&b);
    VF_ASSERT(r == ABT_SUCCESS && !held && n_acq == n_rel, "lock balanced");
    if (b.num_waiters <= 1) VF_ASSERT(n_acq == 0 && b.tag.val == tag_before, "a barrier of one never blocks");
    else {
        VF_ASSERT(n_acq == 1 && inv_ok_at_release, "one critical section; counter < num_waiters whenever the lock is released");
        VF_ASSERT(b.tag.val != t0, "returns only after the round's tag has changed: either this arrival completed the round and advanced it, or it saw another stream advance it");
        VF_ASSERT(b.tag.val <= (UINT64_MAX >> 1), "the tag stays in its 63-bit range");
        VF_ASSERT(n_release_store == (spins == 0 ? 1 : 0), "the tag is written exactly once per round, by the completing arrival, with a release store (so the work before the barrier is visible to the streams it releases)");
        VF_ASSERT(spins == 0 ? b.counter == 0 : sampled_under_lock, "the completing arrival resets the counter; a waiting arrival sampled the tag under the lock before spinning");
    }
    VF_REACH("sr_wait any"); VF_COVER(b.num_waiters > 1 && spins == 0, "completes the round"); VF_COVER(spins == 1, "spins"); VF_COVER(t0 == (UINT64_MAX >> 1) && spins == 0, "tag wraps within 63 bits");
}
