/* C08: stream_barrier.c -- with HAVE_PTHREAD_BARRIER_INIT it is a thin wrapper
 * over pthread_barrier (A5); the sense-reversal fallback is compiled out (A7)
 * and NOT verified. */
#include "vf.h"
#include "abti.h"
#include <stream_barrier.c>
#ifndef HAVE_PTHREAD_BARRIER_INIT
#error "configuration changed: the sense-reversal barrier is now compiled in and has no unit"
#endif
static unsigned vf_bw_calls; static const void *vf_bw_which;
void ABTD_xstream_barrier_wait(ABTD_xstream_barrier *p) { vf_bw_calls++; vf_bw_which = p; }
int ABTD_xstream_barrier_init(uint32_t n, ABTD_xstream_barrier *p) { int r; return r ? ABT_ERR_SYS : ABT_SUCCESS; }
void ABTD_xstream_barrier_destroy(ABTD_xstream_barrier *p) {}
void h_xstream_barrier_wait(void)
{
    ABTI_xstream_barrier b;
    vf_bw_calls = 0;
    int r = ABT_xstream_barrier_wait((ABT_xstream_barrier)&b);
    VF_ASSERT(r == ABT_SUCCESS, "wait succeeds");
    VF_ASSERT(b.num_waiters > 1 ? (vf_bw_calls == 1 && vf_bw_which == &b.bar) : vf_bw_calls == 0, "blocks in the native barrier exactly once iff more than one waiter");
    VF_ASSERT(ABT_xstream_barrier_wait(ABT_XSTREAM_BARRIER_NULL) == ABT_ERR_INV_XSTREAM_BARRIER, "NULL handle rejected");
    ABT_xstream_barrier nb = (ABT_xstream_barrier)0x77;
    VF_ASSERT(ABT_xstream_barrier_create(0, &nb) == ABT_ERR_INV_ARG && nb == ABT_XSTREAM_BARRIER_NULL, "create(0) rejected, handle NULL");
    VF_REACH("xstream_barrier_wait");
    VF_COVER(b.num_waiters == 1, "single"); VF_COVER(b.num_waiters > 5, "many");
}
