/* C05/C19: cond.c + abti_cond.h -- atomic release-and-wait (the cond lock is
 * held continuously from before the mutex is released until the caller is
 * enqueued), wrong-mutex path, return holding the mutex, TIMEDOUT iff the wait
 * list reported a time-out, signal/broadcast under the cond lock. */
#include "vf.h"
#include "abti.h"
#include "env/spinlock.h"
#define VF_MON_CLOCK vf_clock
#define VF_MON_NO_COND /* the real ABTI_cond_wait / _broadcast are under test */
#include "contracts/monitor_thin.h"
/* while the caller sleeps it does not hold the mutex: other threads lock and unlock it, so whatever owner bookkeeping the
 * caller left behind is overwritten (a recursive mutex's owner word is only meaningful to its holder) */
#define VF_WL_WAIT_HAVOC vf_mon_owner
#define VF_WL_WAIT_POST (vf_mon_owner == 0 || vf_mon_owner == 1)
#include "contracts/waitlist_thin.h"
#include <cond.c>

static ABTI_cond cv; static int vf_kind;
static ABTI_mutex mx, mx2;
static void setup(void)
{
    vf_lock_held = 0;
    vf_mon_held = 1; vf_mon_owner = 1; vf_mon_mutex = &mx; /* the caller holds (and, for a recursive mutex, owns) the user mutex */
    /* caller: an external thread, a ULT, or a tasklet */
    { static ABTI_xstream cxs; static ABTI_thread cth; int kind; VF_ASSUME(0 <= kind && kind <= 2); vf_kind = kind; cxs.p_thread = &cth; cth.type = (kind == 1) ? ABTI_THREAD_TYPE_YIELDABLE : 0; lp_ABTI_local = kind == 0 ? NULL : (ABTI_local *)&cxs; }
    VF_ASSUME(cv.p_waiter_mutex == NULL || cv.p_waiter_mutex == &mx || cv.p_waiter_mutex == &mx2);
    VF_ASSUME(vf_clock < 100 && vf_acquires < 100 && vf_releases < 100 && vf_wl_waits < 100 && vf_mon_locks < 100 && vf_mon_unlocks < 100 && vf_wl_signals < 100 && vf_wl_bcasts < 100);
}
#define COMMON_POST(r_ok, r_to)                                                                                         \
    if (wm0 == &mx2) {                                                                                                  \
        VF_ASSERT(r == ABT_ERR_INV_MUTEX, "a cond already used with another mutex rejects the call");                   \
        VF_ASSERT(vf_lock_held == 0 && vf_acquires == vf_releases - r0 + a0, "cond lock released on the error path");    \
        VF_ASSERT(vf_mon_held == 1 && vf_mon_unlocks == u0 && vf_wl_waits == w0 && cv.p_waiter_mutex == wm0, "error path: mutex still held, nothing enqueued, cond unchanged"); \
    } else {                                                                                                            \
        VF_ASSERT(r == r_ok || r == r_to, "return code");                                                                \
        VF_ASSERT(cv.p_waiter_mutex == &mx, "the cond remembers its mutex");                                             \
        VF_ASSERT(vf_mon_unlocks == u0 + 1 && vf_wl_waits == w0 + 1 && vf_wl_which == &cv.waitlist, "mutex released once, caller enqueued once on this cond");   \
        VF_ASSERT(vf_acquires == a0 + 1 && vf_lock_which == &cv.lock, "the cond lock is taken exactly once");             \
        VF_ASSERT(vf_t_acquire < vf_t_mon_unlock && vf_t_mon_unlock < vf_t_wl_wait && vf_t_wl_wait < vf_t_release,          \
                  "atomic release-and-wait: cond lock held from before the mutex unlock until the caller is enqueued");  \
        VF_ASSERT(vf_mon_held == 1 && vf_mon_locks == l0 + 1 && vf_t_release < vf_t_mon_lock && vf_lock_held == 0, "returns holding the mutex (re-acquired after the wait), cond lock free"); \
        VF_ASSERT(vf_mon_owner == 1, "... and owning it: the release and the re-acquisition go through the same (recursion-aware) pair of routines, so a recursive mutex has its owner again"); \
    }

void h_cond_wait(void)
{
    setup();
    ABTI_mutex *wm0 = cv.p_waiter_mutex;
    unsigned a0 = vf_acquires, r0 = vf_releases, u0 = vf_mon_unlocks, l0 = vf_mon_locks, w0 = vf_wl_waits;
    int r = ABT_cond_wait((ABT_cond)&cv, (ABT_mutex)&mx);
    if (vf_kind == 2) { VF_ASSERT(r == ABT_ERR_COND && vf_lock_held == 0 && vf_acquires == a0 && vf_mon_held == 1 && vf_mon_unlocks == u0 && vf_wl_waits == w0 && cv.p_waiter_mutex == wm0, "a tasklet may not wait (1.x API): refused; mutex still held, nothing enqueued, no lock taken"); VF_REACH("cond_wait refused"); return; }
    COMMON_POST(ABT_SUCCESS, ABT_SUCCESS)
    VF_REACH("cond_wait returns");
    VF_COVER(r == ABT_SUCCESS && wm0 == NULL, "first waiter"); VF_COVER(r == ABT_ERR_INV_MUTEX, "wrong mutex");
}
void h_cond_timedwait(void)
{
    setup();
    ABTI_mutex *wm0 = cv.p_waiter_mutex;
    unsigned a0 = vf_acquires, r0 = vf_releases, u0 = vf_mon_unlocks, l0 = vf_mon_locks, w0 = vf_wl_waits;
    struct timespec ts; VF_ASSUME(ts.tv_sec >= 0 && ts.tv_sec < ((time_t)1 << 40) && ts.tv_nsec >= 0 && ts.tv_nsec < 1000000000L);
    int r = ABT_cond_timedwait((ABT_cond)&cv, (ABT_mutex)&mx, &ts);
    COMMON_POST(ABT_SUCCESS, ABT_ERR_COND_TIMEDOUT)
    if (wm0 != &mx2) VF_ASSERT((r == ABT_ERR_COND_TIMEDOUT) == (vf_wl_timedout == ABT_TRUE), "ABT_ERR_COND_TIMEDOUT iff the wait list reported a time-out (signalled first => ABT_SUCCESS)");
    if (vf_wl_waits == w0 + 1) { double want = (double)ts.tv_sec + 1.0e-9 * (double)ts.tv_nsec; VF_ASSERT(vf_wl_deadline >= want - 1.0e-3 && vf_wl_deadline <= want + 1.0e-3, "the deadline handed to the wait list is the caller's absolute time (seconds AND nanoseconds), to within a millisecond: no time-out before the deadline"); }
    VF_REACH("cond_timedwait returns");
    VF_COVER(r == ABT_ERR_COND_TIMEDOUT, "timed out"); VF_COVER(r == ABT_SUCCESS, "signalled"); VF_COVER(r == ABT_ERR_INV_MUTEX, "wrong mutex");
}
void h_cond_signal_bcast(void)
{
    setup(); VF_ASSUME(vf_kind != 2); /* (a tasklet's wait is refused before the handles are looked at: unit cond_wait) */
    unsigned a0 = vf_acquires, r0 = vf_releases, s0 = vf_wl_signals, b0 = vf_wl_bcasts;
    int r = ABT_cond_signal((ABT_cond)&cv);
    VF_ASSERT(r == ABT_SUCCESS && vf_wl_signals == s0 + 1 && vf_wl_bcasts == b0 && vf_wl_which == &cv.waitlist && vf_acquires == a0 + 1 && vf_releases == r0 + 1 && vf_lock_which == &cv.lock &&
              vf_t_acquire < vf_t_wl_signal && vf_t_wl_signal < vf_t_release && vf_lock_held == 0, "signal: exactly one wait-list signal under the cond lock");
    r = ABT_cond_broadcast((ABT_cond)&cv);
    VF_ASSERT(r == ABT_SUCCESS && vf_wl_signals == s0 + 1 && vf_wl_bcasts == b0 + 1 && vf_acquires == a0 + 2 && vf_releases == r0 + 2 &&
              vf_t_acquire < vf_t_wl_bcast && vf_t_wl_bcast < vf_t_release && vf_lock_held == 0, "broadcast: exactly one wait-list broadcast under the cond lock");
    VF_ASSERT(ABT_cond_signal(ABT_COND_NULL) == ABT_ERR_INV_COND && ABT_cond_broadcast(ABT_COND_NULL) == ABT_ERR_INV_COND && ABT_cond_wait(ABT_COND_NULL, (ABT_mutex)&mx) == ABT_ERR_INV_COND &&
              ABT_cond_wait((ABT_cond)&cv, ABT_MUTEX_NULL) == ABT_ERR_INV_MUTEX, "NULL handles rejected");
    VF_REACH("signal/broadcast return");
}

/* a fresh condition variable (uninitialised memory or ABT_COND_INITIALIZER) has no waiter and no associated mutex;
 * a condition variable with waiters cannot be freed (1.x API) */
void h_cond_create(void)
{
    ABT_cond h = (ABT_cond)0x55; vf_lock_held = 0; VF_ASSUME(vf_clock < 100 && vf_acquires < 100 && vf_releases < 100);
    int r = ABT_cond_create(&h);
    if (r != ABT_SUCCESS) { VF_ASSERT(r == ABT_ERR_MEM && h == ABT_COND_NULL, "failed creation: ABT_ERR_MEM and the NULL handle"); VF_REACH("cond create failed"); return; }
    ABTI_cond *p = ABTI_cond_get_ptr(h);
    VF_ASSERT(p->lock.val.val == 0 && p->p_waiter_mutex == NULL && p->waitlist.p_head == NULL && p->waitlist.p_tail == NULL, "a fresh condition variable: lock free, no waiter, no mutex associated yet");
    ABT_cond_memory cm = ABT_COND_INITIALIZER; ABTI_cond *ps = ABTI_cond_get_ptr(ABT_COND_MEMORY_GET_HANDLE(&cm));
    VF_ASSERT(sizeof(ABTI_cond) <= sizeof(ABT_cond_memory) && ps->lock.val.val == 0 && ps->p_waiter_mutex == NULL && ps->waitlist.p_head == NULL && ps->waitlist.p_tail == NULL, "ABT_COND_INITIALIZER denotes the same state");
    int busy; if (busy) { static ABTI_thread w; p->waitlist.p_head = &w; p->waitlist.p_tail = &w; }
    r = ABT_cond_free(&h);
    if (busy) VF_ASSERT(r == ABT_ERR_COND && h != ABT_COND_NULL, "a condition variable somebody waits on is not freed");
    else VF_ASSERT(r == ABT_SUCCESS && h == ABT_COND_NULL, "free releases once, handle reset");
    if (busy) { p->waitlist.p_head = NULL; p->waitlist.p_tail = NULL; ABT_cond_free(&h); } /* no leak in the harness */
    VF_REACH("cond create/free"); VF_COVER(busy, "busy");
}
