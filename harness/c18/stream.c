/* C18: src/stream.c -- failure ladders of execution-stream creation and of
 * main-scheduler replacement.  The real file is included; its fallible
 * callees are stubs driven by a fault injector (the k-th fallible call fails,
 * k symbolic); every stub keeps a ledger of what is live. */
#include "vf.h"
#include "abti.h"

int vf_fail_at, vf_calls; static int inj(void) { vf_calls++; return vf_calls == vf_fail_at; }
static int live_mem, live_root, live_pool, live_ms, started, n_sched_free, n_sched_free_user, n_auto_created, min_live;
static void low(int v) { if (v < min_live) min_live = v; }
static ABTI_ythread rooty, msy, self_y; static ABTI_pool rootpool, tarpool, oldpool; static ABTI_sched usched, autosched, oldsched, replsched; static ABTI_global glob; static ABTI_xstream xs_local, xs_other;
ABTI_global *gp_ABTI_global;
int ABTI_mem_init_local(ABTI_global *g, ABTI_xstream *x) { if (inj()) return ABT_ERR_MEM; live_mem++; return ABT_SUCCESS; }
void ABTI_mem_finalize_local(ABTI_xstream *x) { live_mem--; low(live_mem); }
int ABTI_ythread_create_root(ABTI_global *g, ABTI_local *l, ABTI_xstream *x, ABTI_ythread **pp) { if (inj()) return ABT_ERR_MEM; *pp = &rooty; live_root++; return ABT_SUCCESS; }
void ABTI_ythread_free_root(ABTI_global *g, ABTI_local *l, ABTI_ythread *y) { __CPROVER_assert(y == &rooty, "the root ULT that was created is the one freed"); live_root--; low(live_root); }
int ABTI_pool_create_basic(ABT_pool_kind k, ABT_pool_access a, ABT_bool aut, ABTI_pool **pp) { if (inj()) return ABT_ERR_MEM; *pp = &rootpool; live_pool++; return ABT_SUCCESS; }
void ABTI_pool_free(ABTI_pool *p) { __CPROVER_assert(p == &rootpool, "the root pool that was created is the one freed"); live_pool--; low(live_pool); }
int ABTI_ythread_create_main_sched(ABTI_global *g, ABTI_local *l, ABTI_xstream *x, ABTI_sched *s) { if (inj()) return ABT_ERR_MEM; s->p_ythread = &msy; live_ms++; return ABT_SUCCESS; }
void ABTI_thread_free(ABTI_global *g, ABTI_local *l, ABTI_thread *t) { __CPROVER_assert(t == &msy.thread, "the main-scheduler ULT that was created is the one freed"); live_ms--; low(live_ms); }
int ABTD_xstream_context_create(void *(*f)(void *), void *arg, ABTD_xstream_context *c) { if (inj()) return ABT_ERR_SYS; started++; return ABT_SUCCESS; }
int ABTD_affinity_cpuset_apply_default(ABTD_xstream_context *c, int rank) { return ABT_SUCCESS; }
static ABT_pool vf_autopools[2]; static ABTI_pool createdpool[2], upool[2]; static int n_userpool_in_freed_sched;
int ABTI_sched_create_basic(ABT_sched_predef predef, int n, ABT_pool *pools, ABTI_sched_config *cfg, ABTI_sched **pp)
{
    if (inj()) return ABT_ERR_MEM; n_auto_created++; autosched.used = ABTI_SCHED_NOT_USED; autosched.automatic = ABT_TRUE; autosched.pools = vf_autopools; autosched.p_ythread = NULL;
    if (pools == NULL) { autosched.num_pools = 1; vf_autopools[0] = (ABT_pool)&createdpool[0]; createdpool[0].num_scheds.val = 1; }
    else { __CPROVER_assert(n <= 2, "harness bound"); autosched.num_pools = n; for (int i = 0; i < 2; i++) if (i < n) { if (pools[i] != ABT_POOL_NULL) { vf_autopools[i] = pools[i]; ((ABTI_pool *)pools[i])->num_scheds.val++; } else { vf_autopools[i] = (ABT_pool)&createdpool[i]; createdpool[i].num_scheds.val = 1; } } }
    *pp = &autosched; return ABT_SUCCESS;
}
void ABTI_sched_free(ABTI_global *g, ABTI_local *l, ABTI_sched *s, ABT_bool force) { n_sched_free++; if (s == &usched) n_sched_free_user++; if (s == &autosched) for (size_t i = 0; i < 2; i++) if (i < s->num_pools && (s->pools[i] == (ABT_pool)&upool[0] || s->pools[i] == (ABT_pool)&upool[1])) n_userpool_in_freed_sched++; }
ABTI_local *ABTI_local_get_local_uninlined(void) { return NULL; }
/* main-scheduler replacement */
static int n_assoc, n_discard, n_resume, n_suspend_replace; static ABTI_pool *assoc_pool; static ABTI_thread *assoc_thread;
int ABTI_thread_set_associated_pool(ABTI_global *g, ABTI_thread *t, ABTI_pool *p) { if (inj()) return ABT_ERR_MEM; n_assoc++; assoc_thread = t; assoc_pool = p; t->p_pool = p; return ABT_SUCCESS; }
void ABTI_sched_discard_and_free(ABTI_global *g, ABTI_local *l, ABTI_sched *s, ABT_bool force) { n_discard++; }
void ABTI_ythread_resume_and_push(ABTI_local *l, ABTI_ythread *y) { n_resume++; }
void ABTI_ythread_suspend_replace_sched(ABTI_xstream **pp, ABTI_ythread *y, ABTI_sched *s, ABT_sync_event_type t, void *o) { n_suspend_replace++; }
#include <stream.c>

static void zero(void) { vf_calls = 0; live_mem = live_root = live_pool = live_ms = started = n_sched_free = n_sched_free_user = n_auto_created = min_live = 0; n_assoc = n_discard = n_resume = n_suspend_replace = 0; }
static void fresh_globals(void) { gp_ABTI_global = &glob; glob.p_xstream_head = NULL; glob.num_xstreams = 0; glob.max_xstreams = 8; { int a; glob.set_affinity = a ? ABT_TRUE : ABT_FALSE; } usched.used = ABTI_SCHED_NOT_USED; usched.p_ythread = NULL; usched.automatic = ABT_FALSE; }

static void check_create_outcome(int r, ABTI_sched *s, int start)
{
    VF_ASSERT(min_live == 0, "nothing is released twice or before it was obtained");
    if (r != ABT_SUCCESS) {
        VF_ASSERT(live_mem == 0 && live_root == 0 && live_pool == 0 && live_ms == 0, "failure: every resource obtained so far is released (memory caches, root ULT, root pool, main-scheduler ULT)");
        VF_ASSERT(started == 0, "failure: no native thread was left running");
        VF_ASSERT(glob.num_xstreams == 0 && glob.p_xstream_head == NULL, "failure: the rank is returned, the stream list is as before");
        VF_ASSERT(s->used == ABTI_SCHED_NOT_USED && s->p_ythread == NULL, "failure: the scheduler is back in its previous, unused state and can be used again");
    } else {
        VF_ASSERT(live_mem == 1 && live_root == 1 && live_pool == 1 && live_ms == 1 && started == (start ? 1 : 0), "success: everything exists exactly once");
        VF_ASSERT(glob.num_xstreams == 1 && glob.p_xstream_head != NULL && glob.p_xstream_head->p_main_sched == s && s->used == ABTI_SCHED_MAIN && s->p_ythread == &msy, "success: stream listed, scheduler in use as its main scheduler");
    }
}
void h_xstream_create(void)
{
    fresh_globals(); zero(); { int f; vf_fail_at = f; } VF_ASSUME(0 <= vf_fail_at && vf_fail_at <= 6); int start; ABTI_xstream *px = (ABTI_xstream *)16;
    int r = xstream_create(&glob, &usched, ABTI_XSTREAM_TYPE_SECONDARY, -1, start ? ABT_TRUE : ABT_FALSE, &px);
    check_create_outcome(r, &usched, start);
    if (r != ABT_SUCCESS) VF_ASSERT(px == (ABTI_xstream *)16, "failure: output untouched");
    else { VF_ASSERT(px == glob.p_xstream_head && px->rank == 0, "success: the new stream, lowest free rank"); free(px); }
    VF_ASSERT(vf_fail_at == 0 || vf_fail_at > vf_calls || r != ABT_SUCCESS, "an injected failure is reported");
    VF_REACH("xstream_create"); VF_COVER(r != ABT_SUCCESS && vf_calls == 5, "native thread creation fails"); VF_COVER(r == ABT_SUCCESS, "ok"); VF_COVER(r != ABT_SUCCESS && vf_calls == 0, "descriptor allocation fails");
}
void h_api_xstream_create(void)
{
    fresh_globals(); zero(); { int f; vf_fail_at = f; } VF_ASSUME(0 <= vf_fail_at && vf_fail_at <= 7); int user; ABT_xstream h = (ABT_xstream)16;
    int r = ABT_xstream_create(user ? (ABT_sched)&usched : ABT_SCHED_NULL, &h);
    if (user || n_auto_created) check_create_outcome(r, user ? &usched : &autosched, 1);
    if (r != ABT_SUCCESS) {
        VF_ASSERT(h == ABT_XSTREAM_NULL, "failure: the documented NULL handle, never a dangling one");
        VF_ASSERT(n_sched_free_user == 0, "failure: the caller's scheduler is never freed");
        VF_ASSERT(n_sched_free == n_auto_created, "failure: a scheduler created on behalf of the caller is freed exactly once");
    } else { VF_ASSERT(h == (ABT_xstream)glob.p_xstream_head && n_sched_free == 0, "success"); free(glob.p_xstream_head); }
    int nac = n_auto_created;
    /* a scheduler that is in use is refused and nothing happens */
    usched.used = ABTI_SCHED_MAIN; zero(); vf_fail_at = 0; int n0 = glob.num_xstreams; h = (ABT_xstream)16;
    VF_ASSERT(ABT_xstream_create((ABT_sched)&usched, &h) == ABT_ERR_INV_SCHED && vf_calls == 0 && glob.num_xstreams == n0 && usched.used == ABTI_SCHED_MAIN, "a scheduler already in use is rejected, untouched");
    VF_REACH("ABT_xstream_create"); VF_COVER(r != ABT_SUCCESS && !user && nac == 1, "default scheduler created then stream creation fails"); VF_COVER(r != ABT_SUCCESS && !user && nac == 0, "default scheduler creation fails");
}

/* ABT_xstream_set_main_sched & co. */
static void setup_ms(int self)
{
    fresh_globals(); zero(); xs_other.p_main_sched = &oldsched; xs_local.p_main_sched = &oldsched; oldsched.used = ABTI_SCHED_MAIN; oldsched.p_ythread = &msy; { int a; oldsched.automatic = a ? ABT_TRUE : ABT_FALSE; }
    static ABT_pool upools[1], opools[1]; upools[0] = (ABT_pool)&tarpool; usched.pools = upools; usched.num_pools = 1; opools[0] = (ABT_pool)&oldpool; oldsched.pools = opools; oldsched.num_pools = 1;
    xs_other.ctx.state = ABTD_XSTREAM_CONTEXT_STATE_WAITING; xs_local.p_thread = &self_y.thread; self_y.thread.type = ABTI_THREAD_TYPE_YIELDABLE; { int inold; self_y.thread.p_pool = inold ? &oldpool : &rootpool; } msy.thread.p_pool = &oldpool;
    { int hr; oldsched.p_replace_sched = hr ? &replsched : NULL; oldsched.p_replace_waiter = hr ? &rooty : NULL; }
}
void h_update_main_sched_other(void)
{
    setup_ms(0); { int f; vf_fail_at = f; } VF_ASSUME(0 <= vf_fail_at && vf_fail_at <= 1); ABTI_xstream *pl = &xs_local; int aut = oldsched.automatic;
    int r = xstream_update_main_sched(&glob, &pl, &xs_other, &usched);
    if (r != ABT_SUCCESS) {
        VF_ASSERT(vf_fail_at == 1 && r == ABT_ERR_MEM, "the association failure is reported");
        VF_ASSERT(usched.used == ABTI_SCHED_NOT_USED && usched.p_ythread == NULL, "failure: the new scheduler stays unused (the same call can be retried)");
        VF_ASSERT(xs_other.p_main_sched == &oldsched && oldsched.used == ABTI_SCHED_MAIN && oldsched.p_ythread == &msy && msy.thread.p_pool == &oldpool && n_sched_free == 0, "failure: the stream keeps its old main scheduler, fully intact");
    } else {
        VF_ASSERT(n_assoc == 1 && assoc_thread == &msy.thread && assoc_pool == &tarpool, "the scheduler ULT moves to the first pool of the new scheduler");
        VF_ASSERT(xs_other.p_main_sched == &usched && usched.used == ABTI_SCHED_MAIN && usched.p_ythread == &msy, "the new scheduler takes over the ULT");
        VF_ASSERT(oldsched.used == ABTI_SCHED_NOT_USED && oldsched.p_ythread == NULL && n_sched_free == (aut ? 1 : 0), "the old scheduler is released: freed exactly once iff automatic, reusable otherwise");
    }
    VF_REACH("update_main_sched_other"); VF_COVER(r != ABT_SUCCESS, "failed"); VF_COVER(r == ABT_SUCCESS && aut, "old freed");
}
void h_update_main_sched_self(void)
{
    setup_ms(1); { int f; vf_fail_at = f; } VF_ASSUME(0 <= vf_fail_at && vf_fail_at <= 1); ABTI_xstream *pl = &xs_local; ABTI_sched *rs0 = oldsched.p_replace_sched; ABTI_ythread *rw0 = oldsched.p_replace_waiter; ABTI_pool *pp0 = self_y.thread.p_pool;
    int r = xstream_update_main_sched(&glob, &pl, &xs_local, &usched);
    if (r != ABT_SUCCESS) {
        VF_ASSERT(vf_fail_at == 1 && pp0 == &oldpool, "only the re-association of the caller can fail");
        VF_ASSERT(oldsched.p_replace_sched == rs0 && oldsched.p_replace_waiter == rw0 && n_discard == 0 && n_resume == 0 && n_suspend_replace == 0 && usched.used == ABTI_SCHED_NOT_USED && self_y.thread.p_pool == pp0 && xs_local.p_main_sched == &oldsched, "failure: nothing has changed: no pending replacement dropped, no waiter resumed, no switch");
    } else {
        VF_ASSERT(n_assoc == (pp0 == &oldpool ? 1 : 0), "the caller is re-associated iff it lived in a pool of the old scheduler");
        VF_ASSERT(oldsched.p_replace_sched == &usched && oldsched.p_replace_waiter == &self_y && n_suspend_replace == 1, "the replacement is registered and the caller switches to the old scheduler once");
        VF_ASSERT(n_discard == (rs0 ? 1 : 0) && n_resume == (rs0 ? 1 : 0), "an earlier pending replacement is discarded and its waiter resumed, exactly once");
    }
    VF_REACH("update_main_sched_self"); VF_COVER(r != ABT_SUCCESS, "failed"); VF_COVER(r == ABT_SUCCESS && rs0, "pending replacement overwritten");
}
void h_api_set_main_sched(void)
{
    setup_ms(0); { int f; vf_fail_at = f; } VF_ASSUME(0 <= vf_fail_at && vf_fail_at <= 2); lp_ABTI_local = (ABTI_local *)&xs_local; n_userpool_in_freed_sched = 0;
    int other, user, basic; ABTI_xstream *tx = other ? &xs_other : &xs_local; tx->state.val = other ? ABT_XSTREAM_STATE_TERMINATED : ABT_XSTREAM_STATE_RUNNING; int r;
    for (int i = 0; i < 2; i++) { int32_t v; VF_ASSUME(v >= 0 && v < 100); upool[i].num_scheds.val = v; } int32_t u0 = upool[0].num_scheds.val, u1 = upool[1].num_scheds.val;
    ABT_pool given[2]; int c0; given[0] = c0 ? (ABT_pool)&upool[0] : ABT_POOL_NULL; given[1] = (ABT_pool)&upool[1];
    static ABT_pool up[1]; up[0] = (ABT_pool)&tarpool; usched.pools = up; usched.num_pools = 1;
    if (basic) r = ABT_xstream_set_main_sched_basic((ABT_xstream)tx, ABT_SCHED_DEFAULT, 2, given);
    else r = ABT_xstream_set_main_sched((ABT_xstream)tx, user ? (ABT_sched)&usched : ABT_SCHED_NULL);
    if (r != ABT_SUCCESS) {
        VF_ASSERT(n_sched_free_user == 0 && n_sched_free == n_auto_created, "failure: a scheduler created for this call is freed exactly once, the caller's never");
        VF_ASSERT(tx->p_main_sched == &oldsched && oldsched.used == ABTI_SCHED_MAIN && oldsched.p_ythread == &msy && n_suspend_replace == 0, "failure: the stream keeps its main scheduler, intact");
        VF_ASSERT(usched.used == ABTI_SCHED_NOT_USED, "failure: the caller's scheduler stays unused");
        if (basic) VF_ASSERT(n_userpool_in_freed_sched == 0 && upool[0].num_scheds.val == u0 && upool[1].num_scheds.val == u1, "failure: the caller's pools are detached again before the temporary scheduler is freed (never freed with it)");
    } else {
        ABTI_sched *ns = (basic || !user) ? &autosched : &usched;
        VF_ASSERT(other ? (tx->p_main_sched == ns && ns->used == ABTI_SCHED_MAIN) : (oldsched.p_replace_sched == ns && n_suspend_replace == 1), "success: installed (other stream) or registered as replacement (own stream)");
    }
    VF_ASSERT(vf_fail_at == 0 || vf_fail_at > vf_calls || r != ABT_SUCCESS, "an injected failure is reported");
    VF_REACH("api_set_main_sched"); VF_COVER(r != ABT_SUCCESS && basic && n_auto_created == 1 && c0, "basic: association fails after the scheduler was created with two caller pools"); VF_COVER(r != ABT_SUCCESS && !basic && !user && n_auto_created == 1, "default scheduler freed"); VF_COVER(r == ABT_SUCCESS && !other, "own stream");
}

/* ABT_xstream_create_basic: the scheduler is built on behalf of the caller from
 * the caller's pools; when the stream cannot be created the caller's pools are
 * detached again (their attachment counts restored) BEFORE the temporary
 * scheduler is freed, so they are never freed with it */
void h_api_xstream_create_basic(void)
{
    fresh_globals(); zero(); { int f; vf_fail_at = f; } VF_ASSUME(0 <= vf_fail_at && vf_fail_at <= 8); n_userpool_in_freed_sched = 0;
    for (int i = 0; i < 2; i++) { int32_t v; VF_ASSUME(v >= 0 && v < 100); upool[i].num_scheds.val = v; } int32_t u0 = upool[0].num_scheds.val, u1 = upool[1].num_scheds.val;
    int n; VF_ASSUME(-1 <= n && n <= 2); ABT_pool given[2]; int c0, c1; given[0] = c0 ? (ABT_pool)&upool[0] : ABT_POOL_NULL; given[1] = c1 ? (ABT_pool)&upool[1] : ABT_POOL_NULL; ABT_xstream h = (ABT_xstream)16;
    int r = ABT_xstream_create_basic(ABT_SCHED_DEFAULT, n, n > 0 ? given : NULL, ABT_SCHED_CONFIG_NULL, &h);
    if (n < 0) { VF_ASSERT(r == ABT_ERR_INV_ARG && vf_calls == 0 && h == ABT_XSTREAM_NULL, "a negative number of pools: refused before anything is created, NULL handle"); VF_REACH("negative"); return; }
    if (n_auto_created) check_create_outcome(r, &autosched, 1);
    if (r != ABT_SUCCESS) {
        VF_ASSERT(h == ABT_XSTREAM_NULL, "failure: the documented NULL handle");
        VF_ASSERT(n_sched_free == n_auto_created, "failure: the scheduler created for this call is freed exactly once");
        VF_ASSERT(n_userpool_in_freed_sched == 0 && upool[0].num_scheds.val == u0 && upool[1].num_scheds.val == u1, "failure: the caller's pools are detached again before the temporary scheduler is freed; their attachment counts are as before");
    } else {
        VF_ASSERT(h == (ABT_xstream)glob.p_xstream_head && n_sched_free == 0 && upool[0].num_scheds.val == u0 + ((n >= 1 && c0) ? 1 : 0) && upool[1].num_scheds.val == u1 + ((n >= 2 && c1) ? 1 : 0), "success: the caller's pools are attached once each");
        free(glob.p_xstream_head);
    }
    VF_ASSERT(vf_fail_at == 0 || vf_fail_at > vf_calls || r != ABT_SUCCESS, "an injected failure is reported");
    VF_REACH("create_basic"); VF_COVER(r != ABT_SUCCESS && n == 2 && c0 && c1 && n_auto_created == 1, "stream creation fails with two caller pools"); VF_COVER(r == ABT_SUCCESS && n == 2, "ok");
}
/* ABT_xstream_create_with_rank: a requested rank that is taken (or negative) is
 * refused with everything as before */
void h_api_xstream_create_with_rank(void)
{
    fresh_globals(); zero(); { int f; vf_fail_at = f; } VF_ASSUME(0 <= vf_fail_at && vf_fail_at <= 8);
    static ABTI_xstream taken; int rk; VF_ASSUME(0 <= rk && rk < 8); taken.rank = rk; taken.p_prev = taken.p_next = NULL; glob.p_xstream_head = &taken; glob.num_xstreams = 1; glob.max_xstreams = 8;
    int user; int rank; VF_ASSUME(-2 <= rank && rank < 8); ABT_xstream h = (ABT_xstream)16;
    int r = ABT_xstream_create_with_rank(user ? (ABT_sched)&usched : ABT_SCHED_NULL, rank, &h);
    if (rank < 0) { VF_ASSERT(r == ABT_ERR_INV_XSTREAM_RANK && vf_calls == 0 && h == ABT_XSTREAM_NULL && glob.num_xstreams == 1 && glob.p_xstream_head == &taken, "a negative rank: refused before anything is created"); VF_REACH("negative rank"); return; }
    if (r != ABT_SUCCESS) {
        VF_ASSERT(h == ABT_XSTREAM_NULL && n_sched_free_user == 0 && n_sched_free == n_auto_created, "failure: NULL handle; a default scheduler created for this call is freed once, the caller's never");
        VF_ASSERT(live_mem == 0 && live_root == 0 && live_pool == 0 && live_ms == 0 && started == 0 && min_live == 0, "failure: every resource obtained so far is released, no native thread runs");
        VF_ASSERT(glob.num_xstreams == 1 && glob.p_xstream_head == &taken && taken.p_next == NULL && taken.p_prev == NULL && taken.rank == rk, "failure: the stream list is exactly as before");
        VF_ASSERT(!user || (usched.used == ABTI_SCHED_NOT_USED && usched.p_ythread == NULL), "failure: the caller's scheduler is unused again");
        VF_ASSERT(rank != rk || r == ABT_ERR_INV_XSTREAM_RANK || r == ABT_ERR_MEM, "a rank in use is reported as such (unless an allocation failed first)");
    } else {
        ABTI_xstream *nx = (ABTI_xstream *)h;
        VF_ASSERT(rank != rk && nx->rank == rank && glob.num_xstreams == 2, "success: exactly the requested rank, which was free");
        VF_ASSERT((glob.p_xstream_head == nx && nx->p_next == &taken && taken.p_prev == nx && rank < rk) || (glob.p_xstream_head == &taken && taken.p_next == nx && nx->p_prev == &taken && rank > rk), "listed in rank order");
        free(nx);
    }
    VF_ASSERT(vf_fail_at == 0 || vf_fail_at > vf_calls || r != ABT_SUCCESS, "an injected failure is reported");
    VF_REACH("create_with_rank"); VF_COVER(r == ABT_ERR_INV_XSTREAM_RANK && rank == rk && !user && n_auto_created == 1, "rank taken: default scheduler freed"); VF_COVER(r == ABT_SUCCESS && rank > rk, "ok");
}
