/* C18: src/pool/pool.c -- pool creation ladders (pool_create,
 * ABTI_pool_create_basic, ABT_pool_create_basic, ABT_pool_create) and
 * ABTI_pool_free; and the init functions of the built-in pools. */
#include "vf.h"
#include "abti.h"
int vf_fail_at, vf_calls; static int inj(void) { vf_calls++; return vf_calls == vf_fail_at; }
int nondet_int(void);
#ifndef VF_UNIT_POOLINIT
static int n_init, n_free_cb, init_ok; static void *initdata = (void *)0x40;
static int my_init(ABT_pool p, ABT_pool_config c) { n_init++; ABTI_pool *pp = (ABTI_pool *)p; init_ok = (pp->num_scheds.val == 0 && pp->num_blocked.val == 0 && pp->data == NULL); if (inj()) return ABT_ERR_MEM; pp->data = initdata; return ABT_SUCCESS; }
static int my_free(ABT_pool p) { n_free_cb++; return ABT_SUCCESS; }
static ABT_bool my_is_empty(ABT_pool p) { return ABT_TRUE; }
static int def_kind_seen;
static int get_def(int kind, ABT_pool_access access, ABTI_pool_required_def *r, ABTI_pool_optional_def *o, ABTI_pool_deprecated_def *d)
{ if (inj()) return ABT_ERR_INV_POOL_ACCESS; def_kind_seen = kind; memset(r, 0, sizeof *r); memset(o, 0, sizeof *o); memset(d, 0, sizeof *d); r->p_is_empty = my_is_empty; o->p_init = my_init; o->p_free = my_free; return ABT_SUCCESS; }
int ABTI_pool_get_fifo_def(ABT_pool_access a, ABTI_pool_required_def *r, ABTI_pool_optional_def *o, ABTI_pool_deprecated_def *d) { return get_def(ABT_POOL_FIFO, a, r, o, d); }
int ABTI_pool_get_fifo_wait_def(ABT_pool_access a, ABTI_pool_required_def *r, ABTI_pool_optional_def *o, ABTI_pool_deprecated_def *d) { return get_def(ABT_POOL_FIFO_WAIT, a, r, o, d); }
int ABTI_pool_get_randws_def(ABT_pool_access a, ABTI_pool_required_def *r, ABTI_pool_optional_def *o, ABTI_pool_deprecated_def *d) { return get_def(ABT_POOL_RANDWS, a, r, o, d); }
int ABTI_pool_config_read(const ABTI_pool_config *c, int key, void *v) { if (nondet_int()) return ABT_ERR_INV_ARG; *(int *)v = nondet_int(); return ABT_SUCCESS; }
ABTI_global *gp_ABTI_global; static ABTI_global glob;
#include <pool/pool.c>

void h_pool_create_basic(void)
{
    gp_ABTI_global = &glob; vf_calls = 0; n_init = n_free_cb = 0; { int f; vf_fail_at = f; } VF_ASSUME(0 <= vf_fail_at && vf_fail_at <= 2);
    int kind, access, aut; ABT_pool h = (ABT_pool)16;
    int r = ABT_pool_create_basic((ABT_pool_kind)kind, (ABT_pool_access)access, aut ? ABT_TRUE : ABT_FALSE, &h);
    int access_ok = access == ABT_POOL_ACCESS_PRIV || access == ABT_POOL_ACCESS_SPSC || access == ABT_POOL_ACCESS_MPSC || access == ABT_POOL_ACCESS_SPMC || access == ABT_POOL_ACCESS_MPMC;
    int kind_ok = kind == ABT_POOL_FIFO || kind == ABT_POOL_FIFO_WAIT || kind == ABT_POOL_RANDWS;
    if (r != ABT_SUCCESS) {
        VF_ASSERT(h == ABT_POOL_NULL, "failure: the NULL handle, never a dangling one");
        VF_ASSERT(access_ok || (r == ABT_ERR_INV_POOL_ACCESS && vf_calls == 0), "an invalid access type is rejected before anything is allocated");
        VF_ASSERT(!access_ok || kind_ok || (r == ABT_ERR_INV_POOL_KIND && n_init == 0), "an invalid kind is rejected before anything is allocated");
    } else {
        ABTI_pool *p = (ABTI_pool *)h;
        VF_ASSERT(access_ok && kind_ok && def_kind_seen == kind, "the definition of the requested kind is used");
        VF_ASSERT(p->access == (ABT_pool_access)access && p->automatic == (aut ? ABT_TRUE : ABT_FALSE) && p->is_builtin == ABT_TRUE && p->num_scheds.val == 0 && p->num_blocked.val == 0 && p->data == initdata && n_init == 1 && init_ok, "success: a fresh pool, attached to no scheduler, no blocked units, initialised once");
        ABTI_pool_free(p); VF_ASSERT(n_free_cb == 1, "ABTI_pool_free runs the pool's free callback once and releases the descriptor");
    }
    VF_ASSERT(vf_fail_at == 0 || vf_fail_at > vf_calls || r != ABT_SUCCESS, "an injected failure is reported");
    VF_REACH("pool_create_basic"); VF_COVER(r == ABT_ERR_MEM && n_init == 1, "init callback fails"); VF_COVER(r == ABT_SUCCESS, "ok");
    /* with --memory-leak-check: neither a failed creation nor create + free leaves a block behind */
}
#else
/* built-in pool init functions: src/pool/fifo_wait.c (mutex + condition variable) */
static int live_mutex, live_cond, min_live;
#define pthread_mutex_init(m, a) (inj() ? 11 : (live_mutex++, 0))
#define pthread_cond_init(c, a) (inj() ? 11 : (live_cond++, 0))
#define pthread_mutex_destroy(m) (live_mutex--, (live_mutex < min_live ? (min_live = live_mutex) : 0), 0)
#define pthread_cond_destroy(c) (live_cond--, (live_cond < min_live ? (min_live = live_cond) : 0), 0)
#include <pool/fifo_wait.c>
void h_fifo_wait_init(void)
{
    static ABTI_pool pool; vf_calls = 0; live_mutex = live_cond = min_live = 0; { int f; vf_fail_at = f; } VF_ASSUME(0 <= vf_fail_at && vf_fail_at <= 2); pool.data = NULL;
    int r = pool_init((ABT_pool)&pool, ABT_POOL_CONFIG_NULL);
    if (r != ABT_SUCCESS) VF_ASSERT(live_mutex == 0 && live_cond == 0 && min_live == 0 && pool.data == NULL, "failure: mutex / condition variable destroyed iff initialised, no data attached");
    else {
        VF_ASSERT(live_mutex == 1 && live_cond == 1 && pool.data != NULL, "success");
        pool_free((ABT_pool)&pool); VF_ASSERT(live_mutex == 0 && live_cond == 0 && min_live == 0, "pool_free destroys both exactly once");
    }
    VF_ASSERT(vf_fail_at == 0 || vf_fail_at > vf_calls || r != ABT_SUCCESS, "an injected failure is reported");
    VF_REACH("fifo_wait_init"); VF_COVER(r == ABT_ERR_SYS && live_mutex == 0 && vf_calls == 2, "cond init fails"); VF_COVER(r == ABT_SUCCESS, "ok");
}
#endif
