/* C18: src/sched/sched.c -- scheduler creation ladders (sched_create,
 * ABTI_sched_create_basic, ABT_sched_create, ABT_sched_create_basic) and
 * ABTI_sched_free.  Real file included; pool creation / the scheduler's init
 * callback / malloc fail on demand; a ledger per pool records frees. */
#include "vf.h"
#include "abti.h"

int vf_fail_at, vf_calls; static int inj(void) { vf_calls++; return vf_calls == vf_fail_at; }
#define NP 3
static ABTI_pool newpool[NP], userpool[2]; static int n_created, freed_new[NP], freed_user[2], freed_other;
int ABTI_pool_create_basic(ABT_pool_kind k, ABT_pool_access a, ABT_bool aut, ABTI_pool **pp) { if (inj()) return ABT_ERR_MEM; __CPROVER_assert(n_created < NP, "no more pools than requested"); if (n_created >= NP) return ABT_ERR_MEM; newpool[n_created].automatic = aut; newpool[n_created].num_scheds.val = 0; *pp = &newpool[n_created++]; return ABT_SUCCESS; }
void ABTI_pool_free(ABTI_pool *p) { int hit = 0; for (int i = 0; i < NP; i++) if (p == &newpool[i]) { freed_new[i]++; hit = 1; } for (int i = 0; i < 2; i++) if (p == &userpool[i]) { freed_user[i]++; hit = 1; } if (!hit) freed_other++; }
static int n_init, n_schedfree_cb, init_sees_ok; static ABT_sched init_handle;
static int my_init(ABT_sched s, ABT_sched_config c) { n_init++; init_handle = s; ABTI_sched *ps = (ABTI_sched *)s; init_sees_ok = (ps->used == ABTI_SCHED_NOT_USED && ps->p_ythread == NULL && ps->data == NULL); if (inj()) return ABT_ERR_MEM; return ABT_SUCCESS; }
static void my_run(ABT_sched s) {}
static int my_free(ABT_sched s) { n_schedfree_cb++; return ABT_SUCCESS; }
static ABT_sched_def mydef = { .type = ABT_SCHED_TYPE_ULT, .init = my_init, .run = my_run, .free = my_free, .get_migr_pool = NULL };
ABT_sched_def *ABTI_sched_get_basic_def(void) { return &mydef; }
ABT_sched_def *ABTI_sched_get_basic_wait_def(void) { return &mydef; }
ABT_sched_def *ABTI_sched_get_prio_def(void) { return &mydef; }
ABT_sched_def *ABTI_sched_get_randws_def(void) { return &mydef; }
int nondet_int(void);
int ABTI_sched_config_read(const ABTI_sched_config *c, int idx, void *v) { if (nondet_int()) return ABT_ERR_INV_ARG; *(int *)v = nondet_int(); return ABT_SUCCESS; }
static int n_thread_free; void ABTI_thread_free(ABTI_global *g, ABTI_local *l, ABTI_thread *t) { n_thread_free++; }
ABTI_global *gp_ABTI_global; static ABTI_global glob;
#include <sched/sched.c>

static int32_t us0[2];
static void zero(void) { vf_calls = 0; n_created = 0; for (int i = 0; i < NP; i++) freed_new[i] = 0; freed_user[0] = freed_user[1] = freed_other = 0; n_init = n_schedfree_cb = n_thread_free = 0; gp_ABTI_global = &glob; for (int i = 0; i < 2; i++) { int32_t v; VF_ASSUME(v >= 0 && v < 1000); userpool[i].num_scheds.val = v; us0[i] = v; userpool[i].automatic = ABT_FALSE; } }
static void check_failure(void)
{
    for (int i = 0; i < NP; i++) VF_ASSERT(freed_new[i] == (i < n_created ? 1 : 0), "failure: every pool created on the way is freed exactly once");
    VF_ASSERT(freed_user[0] == 0 && freed_user[1] == 0 && freed_other == 0, "failure: a pool of the caller is never freed");
    VF_ASSERT(userpool[0].num_scheds.val == us0[0] && userpool[1].num_scheds.val == us0[1], "failure: the caller's pools are exactly as before (not left attached to a scheduler that does not exist)");
}
static void check_success(ABTI_sched *s, int n, ABT_pool *given)
{
    VF_ASSERT(s->used == ABTI_SCHED_NOT_USED && s->p_ythread == NULL && s->num_pools == (size_t)n && s->p_replace_sched == NULL && s->request.val == 0, "success: a fresh unused scheduler with the requested number of pools");
    for (int i = 0; i < NP; i++) VF_ASSERT(freed_new[i] == 0, "success: nothing freed");
    for (int p = 0; p < NP; p++) if (p < n) { ABTI_pool *q = (ABTI_pool *)s->pools[p]; VF_ASSERT(q != NULL && (given == NULL || given[p] == ABT_POOL_NULL || q == (ABTI_pool *)given[p]), "success: the caller's pools at their positions, created ones elsewhere"); }
    VF_ASSERT(n_init == 1 && init_handle == (ABT_sched)s && init_sees_ok, "the init callback runs once on the completely initialised scheduler");
}
void h_sched_create_basic(void)
{
    zero(); { int f; vf_fail_at = f; } VF_ASSUME(0 <= vf_fail_at && vf_fail_at <= 5);
    int withpools = VF_WITHPOOLS, n, predef; ABT_pool given[NP]; ABTI_sched *ps = (ABTI_sched *)16;
    if (withpools) { VF_ASSUME(0 <= n && n <= VF_MAXN); int c0, c1, c2; given[0] = c0 ? (ABT_pool)&userpool[0] : ABT_POOL_NULL; given[1] = c1 ? (ABT_pool)&userpool[1] : ABT_POOL_NULL; given[2] = ABT_POOL_NULL; }
    VF_ASSUME(predef >= ABT_SCHED_DEFAULT && predef <= ABT_SCHED_BASIC_WAIT + 1);
    int r = ABTI_sched_create_basic((ABT_sched_predef)predef, withpools ? n : 0, withpools ? given : NULL, NULL, &ps);
    if (r != ABT_SUCCESS) { check_failure(); VF_ASSERT(ps == (ABTI_sched *)16, "failure: output untouched"); }
    else {
        int nn = withpools ? n : (predef == ABT_SCHED_PRIO ? ABTI_SCHED_NUM_PRIO : 1);
        check_success(ps, nn, withpools ? given : NULL); VF_ASSERT(ps->automatic == ABT_TRUE, "basic schedulers are automatic by default");
        for (int i = 0; i < 2; i++) VF_ASSERT(userpool[i].num_scheds.val == us0[i] + ((withpools && i < n && given[i] != ABT_POOL_NULL) ? 1 : 0), "each pool of the caller is attached exactly once");
        for (int i = 0; i < NP; i++) if (i < n_created) VF_ASSERT(newpool[i].num_scheds.val == 1 && newpool[i].automatic == ABT_TRUE, "created pools are attached once and owned by the scheduler");
        /* the same scheduler can be freed: everything it owns goes exactly once */
        int nc = n_created; ABTI_sched_free(&glob, NULL, ps, ABT_FALSE);
        for (int i = 0; i < NP; i++) VF_ASSERT(freed_new[i] == (i < nc ? 1 : 0), "ABTI_sched_free frees exactly the automatic pools nobody else uses");
        VF_ASSERT(freed_user[0] == 0 && freed_user[1] == 0 && userpool[0].num_scheds.val == us0[0] && userpool[1].num_scheds.val == us0[1] && n_schedfree_cb == 1 && n_thread_free == 0, "... detaches the caller's pools without freeing them, and runs the free callback once");
    }
    VF_ASSERT(vf_fail_at == 0 || vf_fail_at > vf_calls || r != ABT_SUCCESS, "an injected failure is reported");
    VF_REACH("sched_create_basic");
#if VF_WITHPOOLS
    VF_COVER(r == ABT_ERR_MEM && n_created == 2, "fails after two pools were created"); VF_COVER(r == ABT_ERR_INV_SCHED_PREDEF && n_created > 0, "invalid predef after pools were created");
    VF_COVER(r != ABT_SUCCESS && n_init == 1 && given[0] != ABT_POOL_NULL && n >= 1, "init callback fails with a caller's pool attached");
#else
    VF_COVER(r == ABT_SUCCESS && predef == ABT_SCHED_PRIO, "prio"); VF_COVER(r == ABT_ERR_MEM && n_created == 2, "third pool of a priority scheduler fails");
#endif
}
void h_api_sched_create(void)
{
    zero(); { int f; vf_fail_at = f; } VF_ASSUME(0 <= vf_fail_at && vf_fail_at <= 4);
    int n; VF_ASSUME(-1 <= n && n <= NP); ABT_pool given[NP]; int c0; given[0] = c0 ? (ABT_pool)&userpool[0] : ABT_POOL_NULL; given[1] = (ABT_pool)&userpool[1]; given[2] = ABT_POOL_NULL; ABT_sched h = (ABT_sched)16;
    int r = ABT_sched_create(&mydef, n, given, ABT_SCHED_CONFIG_NULL, &h);
    if (r != ABT_SUCCESS) { check_failure(); VF_ASSERT(h == ABT_SCHED_NULL, "failure: the NULL handle"); VF_ASSERT(n >= 0 || (r == ABT_ERR_INV_ARG && vf_calls == 0), "negative pool count rejected before anything happens"); }
    else { check_success((ABTI_sched *)h, n, given); VF_ASSERT(((ABTI_sched *)h)->automatic == ABT_FALSE, "user-defined schedulers are not automatic by default"); free(((ABTI_sched *)h)->pools); free((void *)h); }
    VF_REACH("ABT_sched_create"); VF_COVER(r == ABT_ERR_MEM && n_init == 1, "init failed"); VF_COVER(r == ABT_SUCCESS && n == 3, "three pools");
#ifdef VF_LEAK
    VF_ASSUME(r != ABT_SUCCESS); /* with --memory-leak-check: a failed call leaves no allocation behind */
#endif
}
