/* C18: creation of synchronisation objects with a second allocation
 * (eventual value buffer, future compartment array, native barrier). */
#include "vf.h"
#include "abti.h"
ABTI_global *gp_ABTI_global; static ABTI_global glob;
#include <local.c>
#if defined(VF_EVENTUAL)
#include <eventual.c>
void h_create(void)
{
    gp_ABTI_global = &glob; int nbytes; VF_ASSUME(nbytes <= 16); ABT_eventual h = (ABT_eventual)16;
    int r = ABT_eventual_create(nbytes, &h);
    if (r != ABT_SUCCESS) VF_ASSERT(h == (ABT_eventual)16 && (nbytes >= 0 || r == ABT_ERR_INV_ARG), "failure: handle untouched; negative size rejected");
    else { ABTI_eventual *e = (ABTI_eventual *)h; VF_ASSERT(e->ready == ABT_FALSE && e->nbytes == (size_t)nbytes && (nbytes == 0) == (e->value == NULL) && e->waitlist.p_head == NULL, "success: not ready, buffer iff nbytes > 0, nobody waiting");
        int r2 = ABT_eventual_free(&h); VF_ASSERT(r2 == ABT_SUCCESS && h == ABT_EVENTUAL_NULL, "free releases both blocks and nulls the handle"); }
    VF_REACH("create"); VF_COVER(r == ABT_ERR_MEM, "allocation fails"); VF_COVER(r == ABT_SUCCESS && nbytes > 0, "with buffer");
}
#elif defined(VF_FUTURE)
#include <futures.c>
void h_create(void)
{
    gp_ABTI_global = &glob; uint32_t n; VF_ASSUME(n <= 2); ABT_future h = (ABT_future)16;
    int r = ABT_future_create(n, NULL, &h);
    if (r != ABT_SUCCESS) VF_ASSERT(h == (ABT_future)16, "failure: handle untouched");
    else { ABTI_future *f = (ABTI_future *)h; VF_ASSERT(f->counter.val == 0 && f->num_compartments == n && (n == 0) == (f->array == NULL) && f->waitlist.p_head == NULL, "success: empty future");
        int r2 = ABT_future_free(&h); VF_ASSERT(r2 == ABT_SUCCESS && h == ABT_FUTURE_NULL, "free releases both blocks and nulls the handle"); }
    VF_REACH("create"); VF_COVER(r == ABT_ERR_MEM, "allocation fails"); VF_COVER(r == ABT_SUCCESS && n > 0, "with compartments");
}
#elif defined(VF_XBARRIER)
static int live_bar, fail_bar;
int ABTD_xstream_barrier_init(uint32_t n, ABTD_xstream_barrier *b) { if (fail_bar) return ABT_ERR_SYS; live_bar++; return ABT_SUCCESS; }
void ABTD_xstream_barrier_destroy(ABTD_xstream_barrier *b) { live_bar--; }
#include <stream_barrier.c>
void h_create(void)
{
    gp_ABTI_global = &glob; uint32_t n; ABT_xstream_barrier h = (ABT_xstream_barrier)16; live_bar = 0; { int f; fail_bar = !!f; }
    int r = ABT_xstream_barrier_create(n, &h);
    if (r != ABT_SUCCESS) VF_ASSERT(h == ABT_XSTREAM_BARRIER_NULL && live_bar == 0 && (n != 0 || r == ABT_ERR_INV_ARG), "failure: NULL handle, no native barrier left; zero waiters rejected");
    else { VF_ASSERT(live_bar == 1 && ((ABTI_xstream_barrier *)h)->num_waiters == n, "success");
        int r2 = ABT_xstream_barrier_free(&h); VF_ASSERT(r2 == ABT_SUCCESS && h == ABT_XSTREAM_BARRIER_NULL && live_bar == 0, "free destroys the native barrier once"); }
    VF_REACH("create"); VF_COVER(r == ABT_ERR_SYS, "native barrier init fails"); VF_COVER(r == ABT_ERR_MEM, "allocation fails");
}
#endif
