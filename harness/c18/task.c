/* C18: src/task.c -- tasklet creation ladder (task_create, ABT_task_create,
 * ABT_task_create_on_xstream) on an external thread (descriptor from malloc;
 * the pool-allocated case differs only inside ABTI_mem_alloc_nythread /
 * ABTI_mem_free_thread, units of C15). */
#include "vf.h"
#include "abti.h"
int vf_fail_at, vf_calls; static int inj(void) { vf_calls++; return vf_calls == vf_fail_at; }
static int n_push, n_init_pool; static ABT_unit pushed_unit; static ABTI_pool pool; static ABTI_global glob; ABTI_global *gp_ABTI_global;
int ABTI_thread_init_pool(ABTI_global *g, ABTI_thread *t, ABTI_pool *p) { if (inj()) return ABT_ERR_MEM; n_init_pool++; t->p_pool = p; t->unit = (ABT_unit)t; return ABT_SUCCESS; }
static void my_push(ABT_pool p, ABT_unit u, ABT_pool_context c) { n_push++; pushed_unit = u; __CPROVER_assert(((ABTI_thread *)u)->state.val == ABT_THREAD_STATE_READY && ((ABTI_thread *)u)->f_thread != NULL, "a tasklet is pushed only when completely initialised"); }
void ABTI_tool_event_thread_impl(ABTI_local *l, uint64_t code, ABTI_thread *t, ABTI_thread *c, ABTI_pool *p, ABTI_thread *pa, ABT_sync_event_type st, void *so) {}
#include <local.c>
#include <task.c>
static void tf(void *a) {}
void h_task_create(void)
{
    gp_ABTI_global = &glob; lp_ABTI_local = NULL; vf_calls = 0; n_push = n_init_pool = 0; { int f; vf_fail_at = f; } VF_ASSUME(0 <= vf_fail_at && vf_fail_at <= 1);
    pool.required_def.p_push = my_push; int named; ABT_task h = (ABT_task)16; int arg;
    int r = ABT_task_create((ABT_pool)&pool, tf, &arg, named ? &h : NULL);
    if (r != ABT_SUCCESS) {
        VF_ASSERT(n_push == 0, "failure: nothing was pushed to the pool");
        VF_ASSERT(!named || h == ABT_TASK_NULL, "failure: the NULL handle");
    } else {
        ABTI_thread *t = (ABTI_thread *)pushed_unit;
        VF_ASSERT(n_push == 1 && n_init_pool == 1 && t->f_thread == tf && t->p_arg == &arg && t->p_pool == &pool && t->p_keytable.val == NULL && t->request.val == 0, "success: one tasklet, initialised, pushed once");
        VF_ASSERT(named ? (h == (ABT_task)t && (t->type & ABTI_THREAD_TYPE_NAMED)) : !(t->type & ABTI_THREAD_TYPE_NAMED), "named iff the caller keeps a handle");
        VF_ASSERT(!(t->type & ABTI_THREAD_TYPE_YIELDABLE) && (t->type & ABTI_THREAD_TYPE_MEM_MALLOC_DESC), "a tasklet, descriptor provenance recorded");
        ABTI_mem_free_thread(&glob, NULL, t);
    }
    VF_ASSERT(vf_fail_at == 0 || vf_fail_at > vf_calls || r != ABT_SUCCESS, "an injected failure is reported");
    VF_ASSERT(ABT_task_create(ABT_POOL_NULL, tf, &arg, named ? &h : NULL) == ABT_ERR_INV_POOL && (!named || h == ABT_TASK_NULL), "NULL pool rejected, NULL handle");
    VF_REACH("task_create"); VF_COVER(r != ABT_SUCCESS && vf_calls == 1, "unit creation fails"); VF_COVER(r != ABT_SUCCESS && vf_calls == 0, "descriptor allocation fails"); VF_COVER(r == ABT_SUCCESS && named, "ok named");
}
