/* C18: src/global.c -- ABT_init failure ladder (init_library): when any stage
 * fails, everything built so far is torn down exactly once, the library stays
 * uninitialised (so ABT_init can be retried), and no global/thread-local
 * pointer is left pointing at freed memory. */
#include "vf.h"
#include "abti.h"
int vf_fail_at, vf_calls; static int inj(void) { vf_calls++; return vf_calls == vf_fail_at; }
static int live_mem, live_xs, live_primary, live_aff, n_start, min_live; static ABTI_xstream prim; static ABTI_ythread primy;
static unsigned clk, t_finish, t_orphan, t_free_primary, t_free_xs, t_mem_fin, n_finish, n_orphan, n_free_primary, n_tool_off, n_unit_fin; static ABTI_sched mainsched;
static void low(int v) { if (v < min_live) min_live = v; }
void ABTD_env_init(ABTI_global *g) { live_aff++; g->print_config = ABT_FALSE; }
void ABTD_affinity_finalize(ABTI_global *g) { live_aff--; low(live_aff); }
int ABTI_mem_init(ABTI_global *g) { if (inj()) return ABT_ERR_MEM; live_mem++; return ABT_SUCCESS; }
void ABTI_mem_finalize(ABTI_global *g) { live_mem--; low(live_mem); t_mem_fin = ++clk; }
void ABTI_thread_reset_id(void) {} void ABTI_sched_reset_id(void) {} void ABTI_pool_reset_id(void) {}
void ABTI_unit_init_hash_table(ABTI_global *g) {} void ABTI_unit_finalize_hash_table(ABTI_global *g) { n_unit_fin++; }
int ABTI_xstream_create_primary(ABTI_global *g, ABTI_xstream **pp) { if (inj()) return ABT_ERR_MEM; live_xs++; *pp = &prim; return ABT_SUCCESS; }
void ABTI_xstream_free(ABTI_global *g, ABTI_local *l, ABTI_xstream *x, ABT_bool force) { t_free_xs = ++clk; if (g) g->p_xstream_head = NULL; __CPROVER_assert(x == &prim && force == ABT_TRUE, "the primary stream that was created is freed"); __CPROVER_assert(live_mem == 1, "a stream is freed while the memory pools still exist"); live_xs--; low(live_xs); }
int ABTI_ythread_create_primary(ABTI_global *g, ABTI_local *l, ABTI_xstream *x, ABTI_ythread **pp) { __CPROVER_assert(lp_ABTI_local == (ABTI_local *)&prim, "the primary ULT is created with the stream installed as the caller's context"); if (inj()) return ABT_ERR_MEM; live_primary++; *pp = &primy; return ABT_SUCCESS; }
void ABTI_xstream_start_primary(ABTI_global *g, ABTI_xstream **pp, ABTI_xstream *x, ABTI_ythread *y) { n_start++; }
void ABTI_info_print_config(ABTI_global *g, FILE *f) {}
/* ABT_finalize: ghost clock orders the teardown steps */
void ABTI_tool_event_thread_update_callback(ABTI_global *g, ABT_tool_thread_callback_fn cb, uint64_t mask, void *arg) { if (cb == NULL) n_tool_off++; }
void ABTI_ythread_free_primary(ABTI_global *g, ABTI_local *l, ABTI_ythread *y) { __CPROVER_assert(y == &primy && prim.p_thread == NULL, "the primary ULT is detached from the stream before it is freed"); n_free_primary++; live_primary--; low(live_primary); t_free_primary = ++clk; }
ABTI_global *gp_ABTI_global;
#include <local.c> /* the real thread-local accessors */
#include "env/spinlock_ghost.h"
#define ABTD_spinlock_acquire(l) (vf_lock_held++, vf_acquires++)
#define ABTD_spinlock_release(l) (vf_lock_held--, vf_releases++)
/* ABTI_sched_finish / ABTI_ythread_yield_orphan are inline: redirect to recording stubs */
#define ABTI_sched_finish(s) (n_finish++, t_finish = ++clk, (void)(s))
#define ABTI_ythread_yield_orphan(pp, y, t, o) (n_orphan++, t_orphan = ++clk, (void)(pp), (void)(y))
#include <global.c>

void h_abt_init(void)
{
    vf_calls = 0; live_mem = live_xs = live_primary = live_aff = n_start = min_live = 0; vf_lock_held = 0; { int f; vf_fail_at = f; } VF_ASSUME(0 <= vf_fail_at && vf_fail_at <= 3);
    g_ABTI_num_inits = 0; g_ABTI_initialized.val = 0; gp_ABTI_global = NULL; lp_ABTI_local = NULL;
    int r = ABT_init(0, NULL);
    VF_ASSERT(vf_lock_held == 0, "the init lock is released");
    if (r != ABT_SUCCESS) {
        VF_ASSERT(live_mem == 0 && live_xs == 0 && live_aff == 0 && min_live == 0 && live_primary == 0 && n_start == 0, "failure: every stage that completed is undone exactly once; the primary stream never starts");
        VF_ASSERT(g_ABTI_num_inits == 0 && g_ABTI_initialized.val == 0, "failure: the library stays uninitialised");
        VF_ASSERT(gp_ABTI_global == NULL && lp_ABTI_local == NULL, "failure: no global or thread-local pointer to freed state");
        /* the same call succeeds when retried without the failure */
        vf_fail_at = 0; vf_calls = 0; int r2 = ABT_init(0, NULL);
        VF_ASSERT(r2 == ABT_SUCCESS || gp_ABTI_global == NULL, "retry: runs the whole initialisation again (fails only if malloc fails)");
        if (r2 == ABT_SUCCESS) { VF_ASSERT(live_mem == 1 && live_xs == 1 && live_primary == 1 && g_ABTI_num_inits == 1, "retry succeeded"); free(gp_ABTI_global); }
    } else {
        VF_ASSERT(live_mem == 1 && live_xs == 1 && live_primary == 1 && live_aff == 1 && n_start == 1 && g_ABTI_num_inits == 1 && g_ABTI_initialized.val == 1, "success: everything exists once, counted once");
        VF_ASSERT(gp_ABTI_global != NULL && gp_ABTI_global->p_primary_ythread == &primy && prim.p_thread == &primy.thread && primy.thread.state.val == ABT_THREAD_STATE_RUNNING && lp_ABTI_local == (ABTI_local *)&prim, "success: the caller has become the running primary ULT of the primary stream");
        int r2 = ABT_init(0, NULL); VF_ASSERT(r2 == ABT_SUCCESS && g_ABTI_num_inits == 2 && live_mem == 1 && vf_lock_held == 0, "nested ABT_init only counts");
        free(gp_ABTI_global);
    }
    VF_ASSERT(vf_fail_at == 0 || r != ABT_SUCCESS, "an injected failure is reported");
    VF_REACH("ABT_init"); VF_COVER(r != ABT_SUCCESS && vf_calls == 3, "primary ULT creation fails"); VF_COVER(r != ABT_SUCCESS && vf_calls == 0, "malloc of the global state fails"); VF_COVER(r == ABT_SUCCESS, "ok");
}
void h_abt_finalize(void)
{
    static ABTI_global *g; int r0 = ABTU_malloc(sizeof(ABTI_global), (void **)&g); if (r0 != ABT_SUCCESS) return;
    gp_ABTI_global = g; lp_ABTI_local = (ABTI_local *)&prim; prim.type = ABTI_XSTREAM_TYPE_PRIMARY; prim.p_thread = &primy.thread; prim.p_main_sched = &mainsched; primy.thread.type = ABTI_THREAD_TYPE_YIELDABLE | ABTI_THREAD_TYPE_PRIMARY;
    g->p_xstream_head = &prim; live_mem = live_xs = live_primary = live_aff = 1; min_live = 0; clk = 0; n_finish = n_orphan = n_free_primary = n_tool_off = n_unit_fin = 0; vf_lock_held = 0;
    { int n; VF_ASSUME(1 <= n && n <= 3); g_ABTI_num_inits = n; } g_ABTI_initialized.val = 1; int n0 = g_ABTI_num_inits;
    int r = ABT_finalize();
    VF_ASSERT(r == ABT_SUCCESS && vf_lock_held == 0, "finalize succeeds on the primary ULT");
    if (n0 > 1) { VF_ASSERT(g_ABTI_num_inits == n0 - 1 && live_mem == 1 && live_xs == 1 && n_finish == 0 && g_ABTI_initialized.val == 1 && gp_ABTI_global == g, "a nested finalize only counts down"); free(g); }
    else {
        VF_ASSERT(n_finish == 1 && n_orphan == 1 && t_finish < t_orphan, "the main scheduler is told to finish, then the primary ULT waits for it (once each)");
        VF_ASSERT(n_free_primary == 1 && t_orphan < t_free_primary && t_free_primary < t_free_xs && t_free_xs < t_mem_fin, "only after all work has drained: primary ULT freed, then the primary stream, then the memory pools");
        VF_ASSERT(live_mem == 0 && live_xs == 0 && live_primary == 0 && live_aff == 0 && min_live == 0, "everything released exactly once"); VF_ASSERT(n_unit_fin == 1, "unit map finalised once");
#ifndef ABT_CONFIG_DISABLE_TOOL_INTERFACE
        VF_ASSERT(n_tool_off == 1, "tool callback switched off once");
#endif

        VF_ASSERT(g_ABTI_num_inits == 0 && g_ABTI_initialized.val == 0 && gp_ABTI_global == NULL && lp_ABTI_local == NULL, "the library is uninitialised again, no dangling global or thread-local pointer");
    }
    VF_REACH("ABT_finalize"); VF_COVER(n0 == 1, "last finalize");
}
