/* C18: src/global.c -- ABT_init failure ladder (init_library): when any stage
 * fails, everything built so far is torn down exactly once, the library stays
 * uninitialised (so ABT_init can be retried), and no global/thread-local
 * pointer is left pointing at freed memory. */
#include "vf.h"
#include "abti.h"
int vf_fail_at, vf_calls; static int inj(void) { vf_calls++; return vf_calls == vf_fail_at; }
static int live_mem, live_xs, live_primary, live_aff, n_start, min_live; static ABTI_xstream prim; static ABTI_ythread primy;
static void low(int v) { if (v < min_live) min_live = v; }
void ABTD_env_init(ABTI_global *g) { live_aff++; g->print_config = ABT_FALSE; }
void ABTD_affinity_finalize(ABTI_global *g) { live_aff--; low(live_aff); }
int ABTI_mem_init(ABTI_global *g) { if (inj()) return ABT_ERR_MEM; live_mem++; return ABT_SUCCESS; }
void ABTI_mem_finalize(ABTI_global *g) { live_mem--; low(live_mem); }
void ABTI_thread_reset_id(void) {} void ABTI_sched_reset_id(void) {} void ABTI_pool_reset_id(void) {}
void ABTI_unit_init_hash_table(ABTI_global *g) {} void ABTI_unit_finalize_hash_table(ABTI_global *g) {}
int ABTI_xstream_create_primary(ABTI_global *g, ABTI_xstream **pp) { if (inj()) return ABT_ERR_MEM; live_xs++; *pp = &prim; return ABT_SUCCESS; }
void ABTI_xstream_free(ABTI_global *g, ABTI_local *l, ABTI_xstream *x, ABT_bool force) { __CPROVER_assert(x == &prim && force == ABT_TRUE, "the primary stream that was created is freed"); __CPROVER_assert(live_mem == 1, "a stream is freed while the memory pools still exist"); live_xs--; low(live_xs); }
int ABTI_ythread_create_primary(ABTI_global *g, ABTI_local *l, ABTI_xstream *x, ABTI_ythread **pp) { __CPROVER_assert(lp_ABTI_local == (ABTI_local *)&prim, "the primary ULT is created with the stream installed as the caller's context"); if (inj()) return ABT_ERR_MEM; live_primary++; *pp = &primy; return ABT_SUCCESS; }
void ABTI_xstream_start_primary(ABTI_global *g, ABTI_xstream **pp, ABTI_xstream *x, ABTI_ythread *y) { n_start++; }
void ABTI_info_print_config(ABTI_global *g, FILE *f) {}
ABTI_global *gp_ABTI_global;
#include <local.c> /* the real thread-local accessors */
#include "env/spinlock_ghost.h"
#define ABTD_spinlock_acquire(l) (vf_lock_held++, vf_acquires++)
#define ABTD_spinlock_release(l) (vf_lock_held--, vf_releases++)
#include <global.c>

void h_abt_init(void)
{
    vf_calls = 0; live_mem = live_xs = live_primary = live_aff = n_start = min_live = 0; vf_lock_held = 0; { int f; vf_fail_at = f; } VF_ASSUME(0 <= vf_fail_at && vf_fail_at <= 3);
    g_ABTI_num_inits = 0; g_ABTI_initialized.val = 0; gp_ABTI_global = NULL; lp_ABTI_local = NULL;
    int r = ABT_init(0, NULL);
    VF_ASSERT(vf_lock_held == 0, "the init lock is released");
    if (r != ABT_SUCCESS) {
        VF_ASSERT(live_mem == 0 && live_xs == 0 && live_aff == 0 && min_live == 0 && live_primary == 0 && n_start == 0, "failure: every stage that completed is undone exactly once; the primary stream never starts");
        VF_ASSERT(g_ABTI_num_inits == 0 && g_ABTI_initialized.val == 0, "failure: the library stays uninitialised");
        VF_ASSERT(gp_ABTI_global == NULL && lp_ABTI_local == NULL, "failure: no global or thread-local pointer to freed state");
        /* the same call succeeds when retried without the failure */
        vf_fail_at = 0; vf_calls = 0; int r2 = ABT_init(0, NULL);
        VF_ASSERT(r2 == ABT_SUCCESS || gp_ABTI_global == NULL, "retry: runs the whole initialisation again (fails only if malloc fails)");
        if (r2 == ABT_SUCCESS) { VF_ASSERT(live_mem == 1 && live_xs == 1 && live_primary == 1 && g_ABTI_num_inits == 1, "retry succeeded"); free(gp_ABTI_global); }
    } else {
        VF_ASSERT(live_mem == 1 && live_xs == 1 && live_primary == 1 && live_aff == 1 && n_start == 1 && g_ABTI_num_inits == 1 && g_ABTI_initialized.val == 1, "success: everything exists once, counted once");
        VF_ASSERT(gp_ABTI_global != NULL && gp_ABTI_global->p_primary_ythread == &primy && prim.p_thread == &primy.thread && primy.thread.state.val == ABT_THREAD_STATE_RUNNING && lp_ABTI_local == (ABTI_local *)&prim, "success: the caller has become the running primary ULT of the primary stream");
        int r2 = ABT_init(0, NULL); VF_ASSERT(r2 == ABT_SUCCESS && g_ABTI_num_inits == 2 && live_mem == 1 && vf_lock_held == 0, "nested ABT_init only counts");
        free(gp_ABTI_global);
    }
    VF_ASSERT(vf_fail_at == 0 || r != ABT_SUCCESS, "an injected failure is reported");
    VF_REACH("ABT_init"); VF_COVER(r != ABT_SUCCESS && vf_calls == 3, "primary ULT creation fails"); VF_COVER(r != ABT_SUCCESS && vf_calls == 0, "malloc of the global state fails"); VF_COVER(r == ABT_SUCCESS, "ok");
}
