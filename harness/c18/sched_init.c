/* C18 (C06/C01): the init / free callbacks of the built-in schedulers
 * (src/sched/basic.c, basic_wait.c, prio.c, randws.c; chosen by -DVF_SCHED_SRC).
 * sched_init allocates the scheduler's private data and its own copy of the
 * pool array: either allocation may fail.  Real file included; CBMC's malloc
 * fails nondeterministically (--malloc-may-fail) and --memory-leak-check
 * accounts for every block.  ABTI_sched_config_read is a stub with the
 * contract of the real one (value written iff SUCCESS); qsort is redirected to
 * a recorder (the comparator itself is checked by h_sched_cmp). */
#include "vf.h"
#include "abti.h"
int nondet_int(void);
ABTI_global *gp_ABTI_global; static ABTI_global glob;
static int cfg_val, cfg_ok, n_cfg_read, cfg_idx;
int ABTI_sched_config_read(const ABTI_sched_config *c, int idx, void *v) { n_cfg_read++; cfg_idx = idx; if (!cfg_ok) return ABT_ERR_INV_ARG; *(int *)v = cfg_val; return ABT_SUCCESS; }
static unsigned n_sort; static void *sort_base; static size_t sort_n, sort_sz; static int (*sort_cmp)(const void *, const void *);
static void vf_qsort(void *b, size_t n, size_t s, int (*c)(const void *, const void *)) { n_sort++; sort_base = b; sort_n = n; sort_sz = s; sort_cmp = c; }
#define qsort vf_qsort
#include VF_SCHED_SRC
#undef qsort
#define NP 3
static ABTI_pool pl[NP];
void h_sched_init(void)
{
    gp_ABTI_global = &glob; { uint32_t f; glob.sched_event_freq = f; } { int v, k; cfg_val = v; cfg_ok = k; } n_cfg_read = 0; n_sort = 0;
    static ABTI_sched s; static ABT_pool pools[NP]; size_t n; VF_ASSUME(n <= NP); /* bound: at most 3 pools (the failure paths do not depend on the number) */
    for (int i = 0; i < NP; i++) { pools[i] = (ABT_pool)&pl[i]; int a; VF_ASSUME(a == ABT_POOL_ACCESS_PRIV || a == ABT_POOL_ACCESS_SPSC || a == ABT_POOL_ACCESS_MPSC || a == ABT_POOL_ACCESS_SPMC || a == ABT_POOL_ACCESS_MPMC); pl[i].access = (ABT_pool_access)a; }
    s.pools = pools; s.num_pools = n; void *data0 = (void *)0x30; s.data = data0;
    static ABTI_sched_config cfgobj; int withcfg; ABT_sched_config cfg = withcfg ? (ABT_sched_config)&cfgobj : ABT_SCHED_CONFIG_NULL;
    int r = sched_init((ABT_sched)&s, cfg);
    VF_ASSERT(s.pools == pools && s.num_pools == n && pools[0] == (ABT_pool)&pl[0] && pools[1] == (ABT_pool)&pl[1] && pools[2] == (ABT_pool)&pl[2], "the scheduler's own pool array is never touched (the private copy is what gets sorted)");
    if (r != ABT_SUCCESS) {
        VF_ASSERT(r == ABT_ERR_MEM, "the only failure is a failed allocation");
        VF_ASSERT(s.data == data0, "failure: the scheduler's data pointer is left as it was (ABTI_sched_free is not run for a scheduler whose init failed)");
        VF_REACH("init failed");
    } else {
        sched_data *d = (sched_data *)s.data;
        VF_ASSERT(d != NULL && d != data0 && (size_t)d->num_pools == n, "success: private data attached, same number of pools");
        VF_ASSERT(n == 0 || d->pools != pools, "a private copy of the pool array");
        VF_ASSERT(d->event_freq == ((withcfg && cfg_ok) ? (uint32_t)cfg_val : glob.sched_event_freq), "event frequency: the configured value if the configuration has one, the global default otherwise");
        VF_ASSERT(!withcfg || (n_cfg_read == 1 && cfg_idx == ABT_sched_basic_freq.idx), "the frequency key is the one read");
#ifdef VF_HAS_SORT
        VF_ASSERT(n_sort == (n > 1 ? 1 : 0) && (n <= 1 || (sort_base == (void *)d->pools && sort_n == n && sort_sz == sizeof(ABT_pool) && sort_cmp == sched_cmp_pools)), "the private copy (all of it, nothing else) is sorted by access class");
#endif
        for (size_t i = 0; i < NP; i++) if (i < n) VF_ASSERT(d->pools[i] == pools[i], "the copy holds the scheduler's pools (before sorting: in order)");
        r = sched_free((ABT_sched)&s);
        VF_ASSERT(r == ABT_SUCCESS, "free succeeds");
        VF_REACH("init ok, freed");
    }
    /* --memory-leak-check: neither a failed init nor init + free leaves a block behind */
}
#ifdef VF_HAS_SORT
/* the comparator handed to qsort is a total preorder on pools by access class:
 * qsort's contract (and termination) needs exactly this.  Loop-free, all inputs. */
void h_sched_cmp(void)
{
    ABT_pool p[3];
    for (int i = 0; i < 3; i++) { p[i] = (ABT_pool)&pl[i]; int a; VF_ASSUME(a == ABT_POOL_ACCESS_PRIV || a == ABT_POOL_ACCESS_SPSC || a == ABT_POOL_ACCESS_MPSC || a == ABT_POOL_ACCESS_SPMC || a == ABT_POOL_ACCESS_MPMC); pl[i].access = (ABT_pool_access)a; }
    int ab = sched_cmp_pools(&p[0], &p[1]), ba = sched_cmp_pools(&p[1], &p[0]), bc = sched_cmp_pools(&p[1], &p[2]), ac = sched_cmp_pools(&p[0], &p[2]), aa = sched_cmp_pools(&p[0], &p[0]);
    VF_ASSERT(aa == 0 && ab == -ba && (ab >= -1 && ab <= 1), "reflexive, antisymmetric, values in {-1,0,1}");
    VF_ASSERT(!(ab <= 0 && bc <= 0) || ac <= 0, "transitive");
    VF_ASSERT(!(ab == 0 && bc == 0) || ac == 0, "equivalence is transitive");
    int priv0 = pl[0].access == ABT_POOL_ACCESS_PRIV, priv1 = pl[1].access == ABT_POOL_ACCESS_PRIV;
    VF_ASSERT(!(priv0 && !priv1) || ab < 0, "a private pool sorts before any shared one (the scheduler serves private pools first)");
    int sc0 = pl[0].access == ABT_POOL_ACCESS_SPSC || pl[0].access == ABT_POOL_ACCESS_MPSC, mc1 = pl[1].access == ABT_POOL_ACCESS_SPMC || pl[1].access == ABT_POOL_ACCESS_MPMC;
    VF_ASSERT(!(sc0 && mc1) || ab < 0, "single-consumer pools before multi-consumer ones");
    VF_REACH("cmp");
}
#endif
