/* C18 (bounded by the number of (variable, value) pairs): sched/sched_config.c --
 * ABT_sched_config_create / ABT_sched_config_free when any allocation fails.
 * The hash table is a stub with the allocation behaviour of util/hashtable.c in
 * its worst case (units hashtable_*): create = one block, every set = one more
 * chain element that only ABTU_hashtable_free releases, each may fail.  CBMC's
 * allocator may fail every malloc (ABTU_calloc of the config object included);
 * the leak check at the end of the run gives "nothing left behind". */
#include "vf.h"
#include "abti.h"
#include "sched/sched_config.c"
static ABTU_hashtable *tab_blk; static void *elem[4]; static int n_elem, n_set, n_tabfree;
int ABTU_hashtable_create(size_t num_entries, size_t data_size, ABTU_hashtable **pp)
{
    VF_ASSERT(num_entries == SCHED_CONFIG_HTABLE_SIZE && data_size == sizeof(sched_config_element), "table geometry");
    ABTU_hashtable *p = (ABTU_hashtable *)malloc(sizeof(ABTU_hashtable)); if (!p) return ABT_ERR_MEM;
    p->num_entries = num_entries; p->data_size = data_size; tab_blk = p; *pp = p; return ABT_SUCCESS;
}
int ABTU_hashtable_set(ABTU_hashtable *t, int key, const void *data, int *ow)
{
    VF_ASSERT(t == tab_blk && tab_blk != NULL && data != NULL, "set on the live table of this config, with data"); n_set++;
    VF_ASSUME(n_elem < 4); void *e = malloc(8); if (!e) return ABT_ERR_MEM; elem[n_elem++] = e; return ABT_SUCCESS;
}
void ABTU_hashtable_free(ABTU_hashtable *t)
{
    VF_ASSERT(t == tab_blk && tab_blk != NULL, "the table of this config, once"); n_tabfree++;
    for (int i = 0; i < 4; i++) if (i < n_elem) free(elem[i]);
    n_elem = 0; free(t); tab_blk = NULL;
}
void h_sched_config_create_ladder(void)
{
    ABT_sched_config cfg = (ABT_sched_config)0x77; n_elem = n_set = n_tabfree = 0; tab_blk = NULL;
    ABT_sched_config_var v1, v2, v3; int bad1, bad2, bad3; static int obj;
    VF_ASSUME(v1.idx != -1 && v2.idx != -1 && v3.idx != -1);
    v1.type = bad1 ? (ABT_sched_config_type)99 : ABT_SCHED_CONFIG_INT; v2.type = bad2 ? (ABT_sched_config_type)99 : ABT_SCHED_CONFIG_PTR; v3.type = bad3 ? (ABT_sched_config_type)99 : ABT_SCHED_CONFIG_DOUBLE;
    int n, iv; double dv; VF_ASSUME(0 <= n && n <= 3); int r;
    if (n == 0) r = ABT_sched_config_create(&cfg, ABT_sched_config_var_end);
    else if (n == 1) r = ABT_sched_config_create(&cfg, v1, iv, ABT_sched_config_var_end);
    else if (n == 2) r = ABT_sched_config_create(&cfg, v1, iv, v2, (void *)&obj, ABT_sched_config_var_end);
    else r = ABT_sched_config_create(&cfg, v1, iv, v2, (void *)&obj, v3, dv, ABT_sched_config_var_end);
    int bad = (n >= 1 && bad1) || (n >= 2 && bad2) || (n >= 3 && bad3);
    if (r != ABT_SUCCESS) {
        VF_ASSERT(cfg == (ABT_sched_config)0x77, "failure: the output handle is untouched");
        VF_ASSERT(r == ABT_ERR_MEM || (bad && r == ABT_ERR_INV_ARG), "ABT_ERR_MEM for a failed allocation, ABT_ERR_INV_ARG for an unknown type");
        VF_ASSERT(tab_blk == NULL && n_elem == 0, "failure: the table is released WITH its chain elements (ABTU_hashtable_free), not just its head block");
        VF_REACH("create failed"); VF_COVER(n_set == 3, "third set failed after two elements were chained"); VF_COVER(n_tabfree == 0, "config object / table allocation failed");
        return; /* leak check: nothing left allocated */
    }
    VF_ASSERT(!bad && n_set == n && cfg != ABT_SCHED_CONFIG_NULL && cfg != (ABT_sched_config)0x77 && tab_blk != NULL && n_tabfree == 0, "success: every variable stored, a live handle returned");
    VF_ASSERT(ABTI_sched_config_get_ptr(cfg)->p_table == tab_blk, "the handle's table is the one that was filled");
    r = ABT_sched_config_free(&cfg);
    VF_ASSERT(r == ABT_SUCCESS && cfg == ABT_SCHED_CONFIG_NULL && n_tabfree == 1 && tab_blk == NULL, "free: table and elements released once, handle nulled");
    VF_REACH("created and freed");
}
