/* C15: src/mem/mem_pool.c ABTI_mem_pool_destroy_global_pool -- the release of
 * every page of a shared pool at finalisation, for ANY number of pages.
 * Summary-node technique: the LIFO of non-empty pages hands out a summary page
 * PL any number of times; the list of used-up pages is E1 -> ES -> ES -> ...;
 * the loop contracts list the summary pages' fields among the loops' assigns
 * targets, so the iteration examined sees an arbitrary page.
 * Decided without a bound, for every page visited:
 *  - it is released exactly as it was obtained (same address, size, kind);
 *  - a page that goes back to the C heap (MALLOC / MEMALIGN kinds are released
 *    by free()) has had its stack-guard protection undone first, over exactly
 *    the region protect_memory() derives from the page (heap memory must never
 *    be left PROT_READ; for mmap()ed kinds munmap discards the protection
 *    anyway, so nothing is demanded);
 *  - the link to the next used-up page is read BEFORE the page is released (the
 *    page descriptor lives inside the page: the stub overwrites E1's link with
 *    garbage when E1 is released);
 * and afterwards both LIFOs are destroyed, once each, after the last release.
 * Not decided here: that no page is skipped (set-level). */
#include "vf.h"
struct ABTI_mem_pool_page; struct ABTI_mem_pool_page *vf_pl, *vf_e1, *vf_es;
unsigned vf_bad, vf_n_free, vf_e1_freed, vf_unprot_fresh, vf_n_destroy, vf_free_after_destroy, vf_nonempty;
#include "abti.h"
static ABTI_mem_pool_global_pool gp; static ABTI_mem_pool_page PL, E1, ES;
static void *unprot_addr; static size_t unprot_size; int nondet_int(void);
static ABTI_sync_lifo_element *vf_pop_unsafe(ABTI_sync_lifo *l) { if (l != &gp.mem_page_lifo) vf_bad = 1; return nondet_int() ? &vf_pl->lifo_elem : NULL; }
static int vf_mprotect(void *addr, size_t size, ABT_bool protect) { if (protect != ABT_FALSE || !gp.mprotect_config.enabled) vf_bad = 1; unprot_addr = addr; unprot_size = size; vf_unprot_fresh = 1; return ABT_SUCCESS; }
static void vf_free_lp(void *mem, size_t size, ABTU_MEM_LARGEPAGE_TYPE type)
{
    if (vf_n_free < 2) vf_n_free++; if (vf_n_destroy) vf_free_after_destroy = 1;
    ABTI_mem_pool_page *pg = (mem == vf_e1->mem && !vf_e1_freed) ? vf_e1 : (mem == vf_es->mem) ? vf_es : (mem == vf_pl->mem) ? vf_pl : NULL;
    if (!pg || size != pg->page_size || type != pg->lp_type) vf_bad = 1;
    if (gp.mprotect_config.enabled && (type == ABTU_MEM_LARGEPAGE_MALLOC || type == ABTU_MEM_LARGEPAGE_MEMALIGN)) {
        uintptr_t a = (uintptr_t)unprot_addr, m = (uintptr_t)mem, al = gp.mprotect_config.alignment;
        if (!(vf_unprot_fresh && a >= m && a - m < al && (a & (al - 1)) == 0 && unprot_size == size - (a - m))) vf_bad = 1;
    }
    vf_unprot_fresh = 0;
    if (pg == vf_e1) { vf_e1_freed = 1; struct ABTI_mem_pool_page *g; vf_e1->p_next_empty_page = g; /* the descriptor was inside the page */ }
}
static void vf_lifo_destroy(ABTI_sync_lifo *l) { if (vf_n_destroy < 3) vf_n_destroy++; if (l != &gp.bucket_lifo && l != &gp.mem_page_lifo) vf_bad = 1; }
#define ABTI_sync_lifo_pop_unsafe vf_pop_unsafe
#define ABTU_mprotect vf_mprotect
#define ABTU_free_largepage vf_free_lp
#define ABTI_sync_lifo_destroy vf_lifo_destroy
#include <mem/mem_pool.c>
#undef ABTI_sync_lifo_pop_unsafe
#undef ABTU_mprotect
#undef ABTU_free_largepage
#undef ABTI_sync_lifo_destroy

void h_gpool_destroy_any(void)
{
    vf_pl = &PL; vf_e1 = &E1; vf_es = &ES; vf_bad = vf_n_free = vf_e1_freed = vf_unprot_fresh = vf_n_destroy = vf_free_after_destroy = 0;
    { size_t al; VF_ASSUME(al >= 1 && al <= ((size_t)1 << 40) && (al & (al - 1)) == 0); gp.mprotect_config.alignment = al; /* a power of two: a multiple of the system page size (mem_init_geometry) */ }
    { int en; gp.mprotect_config.enabled = en ? ABT_TRUE : ABT_FALSE; }
    /* pages: distinct addresses; each at least one protection unit long */
    VF_ASSUME(PL.mem != E1.mem && PL.mem != ES.mem && E1.mem != ES.mem && E1.mem != NULL);
    VF_ASSUME((uintptr_t)E1.mem < ((uintptr_t)1 << 47) && (uintptr_t)PL.mem < ((uintptr_t)1 << 47) && (uintptr_t)ES.mem < ((uintptr_t)1 << 47)); /* A9: user-space addresses: rounding an address up to the alignment cannot wrap */
    { int e, m, m2; vf_nonempty = !e; gp.p_mem_page_empty.val = e ? NULL : (void *)&E1; E1.p_next_empty_page = m ? &ES : NULL; ES.p_next_empty_page = m2 ? &ES : NULL; }
    ABTI_mem_pool_destroy_global_pool(&gp);
    VF_ASSERT(vf_bad == 0, "every page visited is released as it was obtained, and unprotected first if it goes back to the C heap");
    VF_ASSERT(vf_e1_freed == vf_nonempty, "the first used-up page is released exactly once (none if the list is empty)");
    VF_ASSERT(vf_n_destroy == 2 && !vf_free_after_destroy, "both LIFOs are destroyed, after the last page was released");
    VF_REACH("destroy any"); VF_COVER(vf_n_free >= 2 && gp.mprotect_config.enabled, "several pages, guarded"); VF_COVER(vf_n_free == 0, "no page");
}
