/* C15/C13: thread_attr.c -- the attribute object that carries a ULT's stack
 * request and migration settings: every setter changes exactly its own fields
 * (set_stacksize keeps a user stack address, set_stack installs both), getters
 * read back what was set, a user stack address must be 8-byte aligned (refused
 * with nothing changed otherwise), defaults as documented, dup is an exact copy. */
#include "vf.h"
#include "abti.h"
ABTI_global *gp_ABTI_global; static ABTI_global glob;
#include <thread_attr.c>
static void cbf(ABT_thread t, void *a) {}
void h_thread_attr(void)
{
    gp_ABTI_global = &glob; ABT_thread_attr a = (ABT_thread_attr)0x55;
    int r = ABT_thread_attr_create(&a);
    if (r != ABT_SUCCESS) { VF_ASSERT(r == ABT_ERR_MEM && a == ABT_THREAD_ATTR_NULL, "failed creation: NULL handle (1.x API)"); VF_REACH("thread attr create failed"); return; }
    ABTI_thread_attr *p = ABTI_thread_attr_get_ptr(a);
    VF_ASSERT(p->p_stack == NULL && p->stacksize == glob.thread_stacksize && p->migratable == ABT_TRUE && p->f_cb == NULL && p->p_cb_arg == NULL, "defaults: runtime-allocated stack of the default size, migratable, no callback");
    ABTI_thread_attr before = *p; int op; VF_ASSUME(0 <= op && op <= 3); void *sa; size_t ss; ABT_bool mg; int carg;
    if (op == 0) { r = ABT_thread_attr_set_stack(a, sa, ss);
        if (sa != NULL && ((uintptr_t)sa & 7)) VF_ASSERT(r == ABT_ERR_INV_ARG && p->p_stack == before.p_stack && p->stacksize == before.stacksize, "a misaligned user stack address is refused with nothing changed");
        else { VF_ASSERT(r == ABT_SUCCESS && p->p_stack == sa && p->stacksize == ss, "set_stack installs exactly the given address and size (any positive size)"); before.p_stack = sa; before.stacksize = ss; } }
    else if (op == 1) { VF_ASSUME(((uintptr_t)sa & 7) == 0); /* an address stored earlier passed the alignment check */ p->p_stack = sa; before.p_stack = sa; r = ABT_thread_attr_set_stacksize(a, ss); VF_ASSERT(r == ABT_SUCCESS && p->stacksize == ss && p->p_stack == sa, "set_stacksize changes the size only: a user stack address given earlier is kept"); before.stacksize = ss; }
    else if (op == 2) { r = ABT_thread_attr_set_callback(a, cbf, &carg); VF_ASSERT(r == ABT_SUCCESS && p->f_cb == cbf && p->p_cb_arg == &carg, "callback and its argument installed"); before.f_cb = cbf; before.p_cb_arg = &carg; }
    else { VF_ASSUME(mg == ABT_TRUE || mg == ABT_FALSE); r = ABT_thread_attr_set_migratable(a, mg); VF_ASSERT(r == ABT_SUCCESS && p->migratable == mg, "migratable flag is what was asked for"); before.migratable = mg; }
    VF_ASSERT(p->p_stack == before.p_stack && p->stacksize == before.stacksize && p->migratable == before.migratable && p->f_cb == before.f_cb && p->p_cb_arg == before.p_cb_arg, "a setter changes exactly its own fields");
    void *gsa; size_t gss, gss2; VF_ASSERT(ABT_thread_attr_get_stack(a, &gsa, &gss) == ABT_SUCCESS && gsa == p->p_stack && gss == p->stacksize && ABT_thread_attr_get_stacksize(a, &gss2) == ABT_SUCCESS && gss2 == p->stacksize, "getters read back the stored request");
    ABTI_thread_attr *d = NULL; if (ABTI_thread_attr_dup(p, &d) == ABT_SUCCESS) { VF_ASSERT(d != p && d->p_stack == p->p_stack && d->stacksize == p->stacksize && d->migratable == p->migratable && d->f_cb == p->f_cb && d->p_cb_arg == p->p_cb_arg, "dup is an exact copy in a block of its own"); ABTU_free(d); }
    VF_ASSERT(ABT_thread_attr_set_stacksize(ABT_THREAD_ATTR_NULL, 1) == ABT_ERR_INV_THREAD_ATTR, "NULL attribute rejected");
    r = ABT_thread_attr_free(&a); VF_ASSERT(r == ABT_SUCCESS && a == ABT_THREAD_ATTR_NULL, "free releases once, handle reset");
    VF_REACH("thread attr"); VF_COVER(op == 0 && sa != NULL && !((uintptr_t)sa & 7), "user stack accepted"); VF_COVER(op == 1 && sa != NULL, "size changed under a user stack");
}
