/* C15 / C18: src/mem/malloc.c -- ABTI_mem_init / ABTI_mem_init_local /
 * ABTI_mem_finalize*: the geometry handed to the two shared pools (stack
 * elements hold the default stack AND the descriptor, a page holds at least
 * one element, buckets are non-empty) and the failure ladders. */
#include "vf.h"
#include "abti.h"
#include "env/spinlock.h"

static ABTI_global glob; static ABTI_xstream xs;
unsigned vf_ginit, vf_gdestroy, vf_linit, vf_ldestroy; int vf_fail_at; /* which init_local_pool call fails (1-based; 0 = none) */
unsigned vf_gd_stack, vf_gd_desc, vf_ld_a, vf_ld_b; int vf_l_first, vf_l_second; /* identity codes (integer ghosts: a pointer-typed ghost havocked twice made paths infeasible) */
#define VF_ID(p) ((p) == &glob.mem_pool_stack_ext ? 1 : (p) == &glob.mem_pool_desc_ext ? 2 : (p) == &xs.mem_pool_stack ? 3 : (p) == &xs.mem_pool_desc ? 4 : 9)

void ABTI_mem_pool_init_global_pool(ABTI_mem_pool_global_pool *p_global_pool, size_t num_headers_per_bucket, size_t header_size, size_t header_offset, size_t page_size,
    const ABTU_MEM_LARGEPAGE_TYPE *lp_type_requests, uint32_t num_lp_type_requests, size_t alignment_hint, ABTI_mem_pool_global_pool_mprotect_config *p_mprotect_config)
__CPROVER_requires(p_global_pool == &glob.mem_pool_stack || p_global_pool == &glob.mem_pool_desc)
__CPROVER_requires(num_headers_per_bucket >= 1)                                     /* a bucket is never empty */
__CPROVER_requires(header_offset + sizeof(ABTI_mem_pool_header) <= header_size)     /* the ABTI_ASSERT of the real function */
__CPROVER_requires(header_size + sizeof(ABTI_mem_pool_page) <= page_size)           /* a page yields at least one element (else take_bucket aborts) */
__CPROVER_requires(header_size % ABT_CONFIG_STATIC_CACHELINE_SIZE == 0 && header_offset % ABT_CONFIG_STATIC_CACHELINE_SIZE == 0) /* blocks stay cache-line (hence 16-byte) aligned */
__CPROVER_requires(p_global_pool == &glob.mem_pool_stack ==> (header_offset == glob.thread_stacksize && header_offset + sizeof(ABTI_ythread) <= header_size)) /* [stack | descriptor] fits one element */
__CPROVER_requires(p_global_pool == &glob.mem_pool_desc ==> (header_offset == 0 && header_size == ABTI_MEM_POOL_DESC_ELEM_SIZE))
__CPROVER_requires(num_lp_type_requests >= 1 && num_lp_type_requests <= 4 && lp_type_requests[num_lp_type_requests - 1] == ABTU_MEM_LARGEPAGE_MALLOC) /* malloc is always the last resort */
__CPROVER_assigns(vf_ginit) __CPROVER_ensures(vf_ginit == __CPROVER_old(vf_ginit) + 1);
void ABTI_mem_pool_destroy_global_pool(ABTI_mem_pool_global_pool *p)
__CPROVER_assigns(vf_gdestroy, vf_gd_stack, vf_gd_desc)
__CPROVER_ensures(vf_gdestroy == __CPROVER_old(vf_gdestroy) + 1)
__CPROVER_ensures(vf_gd_stack == __CPROVER_old(vf_gd_stack) + (p == &glob.mem_pool_stack) && vf_gd_desc == __CPROVER_old(vf_gd_desc) + (p == &glob.mem_pool_desc));
int ABTI_mem_pool_init_local_pool(ABTI_mem_pool_local_pool *p_local_pool, ABTI_mem_pool_global_pool *p_global_pool)
__CPROVER_requires((p_local_pool == &glob.mem_pool_stack_ext || p_local_pool == &xs.mem_pool_stack) ==> p_global_pool == &glob.mem_pool_stack) /* a stack cache is fed by the stack pool */
__CPROVER_requires((p_local_pool == &glob.mem_pool_desc_ext || p_local_pool == &xs.mem_pool_desc) ==> p_global_pool == &glob.mem_pool_desc)
__CPROVER_assigns(vf_linit, vf_l_first, vf_l_second)
__CPROVER_ensures(vf_linit == __CPROVER_old(vf_linit) + 1)
__CPROVER_ensures(__CPROVER_old(vf_linit) == 0 ==> vf_l_first == VF_ID(p_local_pool)) __CPROVER_ensures(__CPROVER_old(vf_linit) != 0 ==> vf_l_first == __CPROVER_old(vf_l_first))
__CPROVER_ensures(__CPROVER_old(vf_linit) == 1 ==> vf_l_second == VF_ID(p_local_pool)) __CPROVER_ensures(__CPROVER_old(vf_linit) != 1 ==> vf_l_second == __CPROVER_old(vf_l_second))
__CPROVER_ensures(__CPROVER_return_value == ((vf_fail_at != 0 && vf_linit == (unsigned)vf_fail_at) ? ABT_ERR_MEM : ABT_SUCCESS));
void ABTI_mem_pool_destroy_local_pool(ABTI_mem_pool_local_pool *p)
__CPROVER_assigns(vf_ldestroy, vf_ld_a, vf_ld_b)
__CPROVER_ensures(vf_ldestroy == __CPROVER_old(vf_ldestroy) + 1)
__CPROVER_ensures(vf_ld_a == __CPROVER_old(vf_ld_a) + (VF_ID(p) == vf_l_first) && vf_ld_b == __CPROVER_old(vf_ld_b) + (VF_ID(p) == vf_l_second));

#include <mem/malloc.c>

static void zero(void) { vf_ginit = vf_gdestroy = vf_linit = vf_ldestroy = vf_gd_stack = vf_gd_desc = vf_ld_a = vf_ld_b = 0; vf_l_first = vf_l_second = 0; }
void h_mem_init(void)
{
    /* what ABTD_env_init guarantees (units of C20): */
    size_t ts = glob.thread_stacksize; VF_ASSUME(ts >= 512 && ts % ABT_CONFIG_STATIC_CACHELINE_SIZE == 0 && ts <= ((size_t)1 << 40));
    VF_ASSUME(glob.mem_sp_size >= 4 * ts && glob.mem_sp_size % ABT_CONFIG_STATIC_CACHELINE_SIZE == 0 && glob.mem_sp_size <= ((size_t)1 << 44));
    VF_ASSUME(glob.mem_page_size >= 4096 && glob.mem_page_size <= ((size_t)1 << 44) && (glob.mem_page_size & (glob.mem_page_size - 1)) == 0);
    VF_ASSUME(glob.mem_max_stacks >= 2 && glob.mem_max_descs >= 2);
    VF_ASSUME(0 <= vf_fail_at && vf_fail_at <= 2); zero();
    int r = ABTI_mem_init(&glob);
    VF_ASSERT(vf_ginit == 2, "both shared pools initialised");
    if (vf_fail_at == 0) VF_ASSERT(r == ABT_SUCCESS && vf_linit == 2 && vf_gdestroy == 0 && vf_ldestroy == 0 && vf_l_first == 1 && vf_l_second == 2, "success: the two caches of external threads exist");
    else {
        VF_ASSERT(r == ABT_ERR_MEM, "a failed allocation is reported");
        VF_ASSERT(vf_gd_stack == 1 && vf_gd_desc == 1 && vf_gdestroy == 2, "both shared pools are destroyed exactly once");
        VF_ASSERT(vf_ld_a == (vf_fail_at == 2) && vf_ldestroy == (vf_fail_at == 2), "a cache is destroyed iff it had been created");
    }
    VF_REACH("mem_init"); VF_COVER(vf_fail_at == 2, "second cache fails"); VF_COVER(r == ABT_SUCCESS && ts % 128 == 0, "bank-conflict padding");
}
void h_mem_init_local(void)
{
    VF_ASSUME(0 <= vf_fail_at && vf_fail_at <= 2); zero();
    int r = ABTI_mem_init_local(&glob, &xs);
    if (vf_fail_at == 0) VF_ASSERT(r == ABT_SUCCESS && vf_linit == 2 && vf_ldestroy == 0 && vf_l_first == 3 && vf_l_second == 4, "success");
    else VF_ASSERT(r == ABT_ERR_MEM && vf_ldestroy == (vf_fail_at == 2) && vf_ld_a == (vf_fail_at == 2), "failure: what was created is destroyed exactly once, nothing else");
    VF_REACH("mem_init_local"); VF_COVER(vf_fail_at == 2, "second fails");
}
void h_mem_finalize(void)
{
    zero(); vf_l_first = 1; vf_l_second = 2;
    ABTI_mem_finalize(&glob);
    VF_ASSERT(vf_ld_a == 1 && vf_ld_b == 1 && vf_ldestroy == 2 && vf_gd_stack == 1 && vf_gd_desc == 1 && vf_gdestroy == 2, "finalize releases each cache and each shared pool exactly once");
    zero(); vf_l_first = 3; vf_l_second = 4;
    ABTI_mem_finalize_local(&xs);
    VF_ASSERT(vf_ld_a == 1 && vf_ld_b == 1 && vf_ldestroy == 2 && vf_gdestroy == 0, "a finished stream returns both of its caches, exactly once");
    VF_REACH("mem_finalize");
}
