/* C15: abti_sync_lifo.h -- the tagged-pointer lock-free LIFO under ANY number of
 * interfering steps of other threads and ANY number of retries (loop contracts
 * on the real retry loops; units lifo_*_B bound the interference at 3 steps).
 * Environment (rely), applied before every shared-memory primitive of this
 * thread: other threads took any number of steps, i.e. EITHER the top word is
 * exactly as before (same pointer, same tag) and the element that is the top
 * has not been written (an element inside the stack is owned by nobody; only an
 * element that was popped -- which changes the tag -- may be written by its new
 * owner), OR the tag differs and pointer and every link are arbitrary.  A tag
 * that wraps around to the same value needs 2^64 updates between one load and
 * one CAS of this thread (excluded, A9).  Elements outside the stack may be
 * written by their owners at any time.  The element this thread pushes is its
 * own until the CAS succeeds.
 * Obligation at the successful CAS (linearisation point): push -- the new top is
 * my element and links to the CURRENT top; pop -- the new top is the CURRENT
 * successor of the current top (no ABA); the tag changes.  The loop is left
 * only through a successful CAS (or, pop, an empty stack seen at the load). */
#include "vf.h"
struct vf_elem_s { struct vf_elem_s *p_next; }; typedef struct vf_elem_s vf_elem;
vf_elem *vf_X, *vf_Y, *vf_cell_ptr, *vf_my; unsigned long vf_cell_tag; int vf_n_success, vf_bad, vf_op_push;
#include "abti.h"
static vf_elem X, Y, MINE;
int nondet_int(void); unsigned long nondet_ulong(void);
static vf_elem *any_elem(void) { int c = nondet_int(); return c == 0 ? NULL : c == 1 ? &X : &Y; }
static void env_steps(void)
{
    if (nondet_int()) { unsigned long t = nondet_ulong(); VF_ASSUME(t != vf_cell_tag); vf_cell_tag = t; vf_cell_ptr = any_elem(); X.p_next = any_elem(); Y.p_next = any_elem(); }
    else { if (vf_cell_ptr != &X) X.p_next = any_elem(); if (vf_cell_ptr != &Y) Y.p_next = any_elem(); }
}
static void vf_tp_load(void *tp, void **pp, size_t *pt) { env_steps(); *pp = vf_cell_ptr; *pt = vf_cell_tag; }
static int vf_tp_cas(void *tp, void *old_ptr, size_t old_tag, void *new_ptr, size_t new_tag)
{
    env_steps();
    if (vf_cell_ptr != old_ptr || vf_cell_tag != old_tag) return 0;
    if (nondet_int()) return 0; /* a weak CAS may fail spuriously */
    if (vf_op_push) { if (!(new_ptr == (void *)vf_my && vf_my->p_next == vf_cell_ptr)) vf_bad = 1; }  /* push linearises: my element, linked to the whole current stack */
    else { if (!(vf_cell_ptr != NULL && new_ptr == (void *)vf_cell_ptr->p_next)) vf_bad = 1; }         /* pop linearises: the CURRENT successor of the popped top */
    if (new_tag == old_tag) vf_bad = 1;                                                                 /* every successful update changes the tag */
    vf_cell_ptr = new_ptr; vf_cell_tag = new_tag; vf_n_success++;
    return 1;
}
#undef ABTI_SYNC_LIFO_H_INCLUDED
#define ABTI_sync_lifo_element vf2_lifo_element
#define ABTI_sync_lifo vf2_lifo
#define ABTI_sync_lifo_init vf2_lifo_init
#define ABTI_sync_lifo_destroy vf2_lifo_destroy
#define ABTI_sync_lifo_push_unsafe vf2_lifo_push_unsafe
#define ABTI_sync_lifo_pop_unsafe vf2_lifo_pop_unsafe
#define ABTI_sync_lifo_push vf2_lifo_push
#define ABTI_sync_lifo_pop vf2_lifo_pop
#define ABTD_atomic_acquire_load_non_atomic_tagged_ptr(tp, pp, pt) vf_tp_load((tp), (pp), (pt))
#define ABTD_atomic_bool_cas_weak_tagged_ptr(tp, op, ot, np, nt) vf_tp_cas((tp), (op), (ot), (np), (nt))
#include "abti_sync_lifo.h"
static vf2_lifo L;
static void setup(void) { vf_X = &X; vf_Y = &Y; vf_my = &MINE; vf_cell_ptr = any_elem(); vf_cell_tag = nondet_ulong(); X.p_next = any_elem(); Y.p_next = any_elem(); vf_n_success = 0; vf_bad = 0; }
void h_lifo_push_any(void)
{
    setup(); vf_op_push = 1;
    vf2_lifo_push(&L, (vf2_lifo_element *)&MINE);
    VF_ASSERT(vf_n_success == 1 && !vf_bad, "push returns only after exactly one successful CAS, which installed my element on top of the then-current stack with a new tag");
    VF_REACH("lifo_push any");
}
void h_lifo_pop_any(void)
{
    setup(); vf_op_push = 0;
    vf2_lifo_element *r = vf2_lifo_pop(&L);
    VF_ASSERT(!vf_bad && (r == NULL ? vf_n_success == 0 : vf_n_success == 1), "pop returns after exactly one successful CAS that replaced the current top by its current successor, or after seeing the stack empty");
    VF_ASSERT(r == NULL || r == (vf2_lifo_element *)&X || r == (vf2_lifo_element *)&Y, "what is handed out was the top");
    VF_REACH("lifo_pop any"); VF_COVER(r == NULL, "empty");
}
