/* C15 / C18: src/mem/mem_pool.c ABTI_mem_pool_init_global_pool -- the REAL body
 * behind the contract the memory-initialisation units (mem_init.c) assume: the
 * geometry is stored as given, the protection configuration is copied (or
 * disabled), the list of page kinds to try keeps its order, never offers a huge
 * page when stack guards are protected by mprotect (a huge page cannot be
 * partially protected), is never empty; and the pool starts with no page, no
 * bucket, no leftovers and a free lock -- the initial state every global-pool
 * unit (take_bucket, return_bucket, destroy) starts from.
 * The filter loop runs over the fixed 4-entry request array (the function
 * asserts the length): unwinding 5 with unwinding assertions is complete. */
#include "vf.h"
#include "abti.h"
#include <mem/mem_pool.c>
void h_gpool_init_global(void)
{
    ABTI_mem_pool_global_pool gp; /* arbitrary contents: nothing may be left uninitialised that is read later */
    size_t nh, hs, ho, ps, ah; uint32_t n; VF_ASSUME(n >= 1 && n <= 4 && ho + sizeof(ABTI_mem_pool_header) <= hs && ho <= hs);
    ABTU_MEM_LARGEPAGE_TYPE req[4]; for (int i = 0; i < 4; i++) VF_ASSUME(req[i] == ABTU_MEM_LARGEPAGE_MALLOC || req[i] == ABTU_MEM_LARGEPAGE_MEMALIGN || req[i] == ABTU_MEM_LARGEPAGE_MMAP || req[i] == ABTU_MEM_LARGEPAGE_MMAP_HUGEPAGE);
    ABTI_mem_pool_global_pool_mprotect_config cfg; int withcfg; VF_ASSUME(cfg.enabled == ABT_TRUE || cfg.enabled == ABT_FALSE);
    ABTI_mem_pool_init_global_pool(&gp, nh, hs, ho, ps, req, n, ah, withcfg ? &cfg : NULL);
    VF_ASSERT(gp.num_headers_per_bucket == nh && gp.header_size == hs && gp.header_offset == ho && gp.page_size == ps && gp.alignment_hint == ah, "the geometry is stored exactly as given");
    int prot = withcfg && cfg.enabled == ABT_TRUE;
    VF_ASSERT(gp.mprotect_config.enabled == (prot ? ABT_TRUE : ABT_FALSE), "page protection is on iff a configuration asks for it");
    if (withcfg) VF_ASSERT(gp.mprotect_config.check_error == cfg.check_error && gp.mprotect_config.offset == cfg.offset && gp.mprotect_config.page_size == cfg.page_size && gp.mprotect_config.alignment == cfg.alignment, "the protection configuration is copied whole");
    VF_ASSERT(gp.num_lp_type_requests >= 1 && gp.num_lp_type_requests <= 4, "there is always at least one page kind to try");
    if (!prot) { VF_ASSERT(gp.num_lp_type_requests == n, "same number of page kinds"); for (uint32_t i = 0; i < 4; i++) if (i < n) VF_ASSERT(gp.lp_type_requests[i] == req[i], "page kinds in the order given"); }
    else {
        uint32_t k = 0; for (uint32_t i = 0; i < 4; i++) if (i < n && req[i] != ABTU_MEM_LARGEPAGE_MMAP_HUGEPAGE) { VF_ASSERT(k < gp.num_lp_type_requests && gp.lp_type_requests[k] == req[i], "protected pools: the other kinds keep their order"); k++; }
        VF_ASSERT(k == 0 ? (gp.num_lp_type_requests == 1 && gp.lp_type_requests[0] == ABTU_MEM_LARGEPAGE_MALLOC) : gp.num_lp_type_requests == k, "nothing else is offered; malloc if nothing is left");
        for (uint32_t i = 0; i < 4; i++) if (i < gp.num_lp_type_requests) VF_ASSERT(gp.lp_type_requests[i] != ABTU_MEM_LARGEPAGE_MMAP_HUGEPAGE, "a protected pool never asks for a huge page");
    }
    VF_ASSERT(gp.partial_bucket == NULL && gp.p_mem_page_empty.val == NULL && gp.partial_bucket_lock.val.val == 0, "no leftovers, no used-up page, a free lock");
    VF_ASSERT(ABTI_sync_lifo_pop_unsafe(&gp.bucket_lifo) == NULL && ABTI_sync_lifo_pop_unsafe(&gp.mem_page_lifo) == NULL, "no bucket and no page yet");
    VF_REACH("init_global"); VF_COVER(prot && gp.num_lp_type_requests == 1 && n == 3, "filtered"); VF_COVER(!withcfg, "no config");
}
