/* C15/C18: util/largepage.c -- pages of the memory pools: the methods are tried
 * in the requested order, *p_actual names the method that really produced the
 * block, and ABTU_free_largepage releases a block with the release call and the
 * size that match that method (malloc/memalign -> free, mmap/hugepage -> munmap
 * with the same size); a total failure allocates nothing and leaves the outputs
 * untouched.  malloc / posix_memalign / mmap / munmap / free are scripted,
 * logging stubs (A5, macro redirection for the duration of the include). */
#include "vf.h"
#include "abti.h"
#include <sys/mman.h>
enum { M_MALLOC, M_MEMALIGN, M_MMAP, M_HUGE };
static int ok[4]; static unsigned n_try[4], t_try[4], clk, n_free, n_munmap; static void *freed, *unmapped; static size_t unmapped_size, asked[4];
static char blk[4][64];
static int vf_malloc(size_t size, void **pp) { n_try[M_MALLOC]++; t_try[M_MALLOC] = ++clk; asked[M_MALLOC] = size; if (!ok[M_MALLOC]) return ABT_ERR_MEM; *pp = blk[M_MALLOC]; return ABT_SUCCESS; }
static int vf_memalign(size_t al, size_t size, void **pp) { n_try[M_MEMALIGN]++; t_try[M_MEMALIGN] = ++clk; asked[M_MEMALIGN] = size; if (!ok[M_MEMALIGN]) return ABT_ERR_MEM; *pp = blk[M_MEMALIGN]; return ABT_SUCCESS; }
static void *vf_mmap(void *a, size_t size, int prot, int flags, int fd, off_t off)
{
    int k = (flags & MAP_HUGETLB) ? M_HUGE : M_MMAP; n_try[k]++; t_try[k] = ++clk; asked[k] = size;
    __CPROVER_assert(a == NULL && fd == -1 && off == 0 && (prot & PROT_READ) && (prot & PROT_WRITE) && (flags & MAP_PRIVATE) && (flags & MAP_ANONYMOUS), "anonymous private read-write mapping");
    return ok[k] ? (void *)blk[k] : MAP_FAILED;
}
static int vf_munmap(void *p, size_t size) { n_munmap++; unmapped = p; unmapped_size = size; return 0; }
static void vf_free(void *p) { n_free++; freed = p; }
#define ABTU_malloc vf_malloc
#define ABTU_memalign vf_memalign
#define ABTU_free vf_free
#define mmap vf_mmap
#define munmap vf_munmap
#include "util/largepage.c"
#undef ABTU_malloc
#undef ABTU_memalign
#undef ABTU_free
#undef mmap
#undef munmap
void h_largepage(void)
{
    ABTU_MEM_LARGEPAGE_TYPE req[4]; int n; VF_ASSUME(0 <= n && n <= 4);
    for (int i = 0; i < 4; i++) { int t; VF_ASSUME(t == ABTU_MEM_LARGEPAGE_MALLOC || t == ABTU_MEM_LARGEPAGE_MEMALIGN || t == ABTU_MEM_LARGEPAGE_MMAP || t == ABTU_MEM_LARGEPAGE_MMAP_HUGEPAGE); req[i] = (ABTU_MEM_LARGEPAGE_TYPE)t; int o; ok[i] = !!o; n_try[i] = 0; t_try[i] = 0; }
    clk = 0; n_free = n_munmap = 0; size_t size, al; VF_ASSUME(size >= 1);
    ABTU_MEM_LARGEPAGE_TYPE actual = (ABTU_MEM_LARGEPAGE_TYPE)77; void *p = (void *)0x55;
    int r = ABTU_alloc_largepage(size, al, req, n, &actual, &p);
    int kind_of[4] = { 0 }; /* map API constants to the stub index */
#define K(t) ((t) == ABTU_MEM_LARGEPAGE_MALLOC ? M_MALLOC : (t) == ABTU_MEM_LARGEPAGE_MEMALIGN ? M_MEMALIGN : (t) == ABTU_MEM_LARGEPAGE_MMAP ? M_MMAP : M_HUGE)
    /* the first requested method that works */
    int first = -1; for (int i = 0; i < 4; i++) if (i < n && first < 0 && ok[K(req[i])]) first = i;
    if (first < 0) { VF_ASSERT(r == ABT_ERR_MEM && p == (void *)0x55 && actual == (ABTU_MEM_LARGEPAGE_TYPE)77 && n_free == 0 && n_munmap == 0, "no requested method works: ABT_ERR_MEM, outputs untouched, nothing to release"); VF_REACH("largepage failed"); return; }
    VF_ASSERT(r == ABT_SUCCESS && actual == req[first] && p == (void *)blk[K(req[first])] && asked[K(req[first])] == size, "the FIRST requested method that works produces the block, of the requested size, and *p_actual names it");
    for (int i = 0; i < 4; i++) if (i < n && i > first) { int later_only = 1; for (int j = 0; j <= first; j++) if (req[j] == req[i]) later_only = 0; if (later_only) VF_ASSERT(n_try[K(req[i])] == 0, "methods requested after the successful one are not tried (nothing is allocated and dropped)"); }
    VF_ASSERT(n_free == 0 && n_munmap == 0, "allocation releases nothing");
    ABTU_free_largepage(p, size, actual);
    if (actual == ABTU_MEM_LARGEPAGE_MALLOC || actual == ABTU_MEM_LARGEPAGE_MEMALIGN) VF_ASSERT(n_free == 1 && freed == p && n_munmap == 0, "heap blocks go back with free(), once");
    else VF_ASSERT(n_munmap == 1 && unmapped == p && unmapped_size == size && n_free == 0, "mapped blocks are unmapped with the size they were mapped with, once");
    ABTU_free_largepage(NULL, size, actual); VF_ASSERT(n_free + n_munmap == 1, "NULL: nothing");
    VF_REACH("largepage"); VF_COVER(first == 2, "third choice"); VF_COVER(actual == ABTU_MEM_LARGEPAGE_MMAP_HUGEPAGE, "huge page"); VF_COVER(actual == ABTU_MEM_LARGEPAGE_MEMALIGN, "memalign");
}
