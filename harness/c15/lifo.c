/* C15: abti_sync_lifo.h -- the tagged-pointer lock-free LIFO of the shared
 * memory pool, and the push-only empty-page list of mem_pool.c.
 *
 * The real header is included a second time with its type and function names
 * renamed (vf2_*) and its two shared-memory primitives -- the tagged-pointer
 * load and the tagged-pointer CAS -- redirected to an environment model in
 * which OTHER threads push, pop, and recycle elements between any two of this
 * thread's steps.  Obligation at every successful CAS (linearisation point):
 * the new top is exactly "current top's successor" (pop) resp. the pushed
 * element linked to the current top (push), and the tag changes -- which is
 * what makes the ABA interleaving (pop A, pop B, push A) fail the CAS. */
#include "vf.h"
#include "abti.h"

#define NE 4
typedef struct vf_elem { struct vf_elem *p_next; } vf_elem;
static vf_elem el[NE];          /* el[0]: this thread's element; others float */
static vf_elem *cell_ptr; static size_t cell_tag;   /* the shared top */
static int budget;              /* remaining interference steps */
static int op_push; static vf_elem *my_elem; static int n_success; static int env_owned[NE];
int nondet_int(void);
static void env_step1(void)
{
    if (budget <= 0) return; int c = nondet_int(); if (c == 0) return; budget--;
    if (c == 1) { /* another thread pops the top and now owns it: it may overwrite its link */
        if (cell_ptr) { vf_elem *t = cell_ptr; cell_ptr = t->p_next; cell_tag++; int k = (int)(t - el); if (0 <= k && k < NE) { env_owned[k] = 1; int g = nondet_int(); t->p_next = (g >= 0 && g < NE) ? &el[g] : NULL; } }
    } else { /* another thread pushes an element it owns */
        int k = nondet_int(); if (k >= 1 && k < NE && env_owned[k]) { el[k].p_next = cell_ptr; cell_ptr = &el[k]; cell_tag++; env_owned[k] = 0; }
    }
}
/* any number of steps of other threads fit between two steps of this one */
static void env_step(void) { env_step1(); env_step1(); env_step1(); }
static void vf_tp_load(void *tp, void **pp, size_t *pt) { env_step(); *pp = cell_ptr; *pt = cell_tag; }
static int vf_tp_cas(void *tp, void *old_ptr, size_t old_tag, void *new_ptr, size_t new_tag)
{
    env_step();
    if (cell_ptr != old_ptr || cell_tag != old_tag) return 0;
    if (budget > 0 && nondet_int()) { budget--; return 0; } /* weak CAS may fail spuriously */
    if (op_push) VF_ASSERT(new_ptr == my_elem && my_elem->p_next == cell_ptr, "push linearises: the new top links to the whole current stack");
    else VF_ASSERT(cell_ptr != NULL && new_ptr == cell_ptr->p_next, "pop linearises: the new top is the CURRENT successor of the popped top (no ABA)");
    VF_ASSERT(new_tag != old_tag, "every successful update changes the tag");
    cell_ptr = new_ptr; cell_tag = new_tag; n_success++;
    return 1;
}
#undef ABTI_SYNC_LIFO_H_INCLUDED
#define ABTI_sync_lifo_element vf2_lifo_element
#define ABTI_sync_lifo vf2_lifo
#define ABTI_sync_lifo_init vf2_lifo_init
#define ABTI_sync_lifo_destroy vf2_lifo_destroy
#define ABTI_sync_lifo_push_unsafe vf2_lifo_push_unsafe
#define ABTI_sync_lifo_pop_unsafe vf2_lifo_pop_unsafe
#define ABTI_sync_lifo_push vf2_lifo_push
#define ABTI_sync_lifo_pop vf2_lifo_pop
#define ABTD_atomic_acquire_load_non_atomic_tagged_ptr(tp, pp, pt) vf_tp_load((tp), (pp), (pt))
#define ABTD_atomic_bool_cas_weak_tagged_ptr(tp, op, ot, np, nt) vf_tp_cas((tp), (op), (ot), (np), (nt))
#include "abti_sync_lifo.h"

static void setup(void)
{
    /* any stack of the floating elements el[1..], any tag, any ownership */
    int n = nondet_int(); VF_ASSUME(0 <= n && n <= 3); cell_ptr = NULL;
    for (int i = NE - 1; i >= 1; i--) { env_owned[i] = 1; if (i <= n) { el[i].p_next = cell_ptr; cell_ptr = &el[i]; env_owned[i] = 0; } }
    { size_t t; cell_tag = t; } budget = 3; n_success = 0; env_owned[0] = 0;
}
void h_lifo_push(void)
{
    static vf2_lifo l; setup(); op_push = 1; my_elem = &el[0];
    vf2_lifo_push(&l, (vf2_lifo_element *)&el[0]);
    VF_ASSERT(n_success == 1, "pushed exactly once");
    VF_REACH("lifo_push"); VF_COVER(budget == 0, "under three interfering steps");
}
void h_lifo_pop(void)
{
    static vf2_lifo l; setup(); op_push = 0; el[0].p_next = NULL;
    vf2_lifo_element *r = vf2_lifo_pop(&l);
    VF_ASSERT(r == NULL ? n_success == 0 : n_success == 1, "popped exactly once, or the stack was seen empty");
    VF_REACH("lifo_pop"); VF_COVER(r != NULL && budget == 0, "under three interfering steps"); VF_COVER(r == NULL, "empty");
}
