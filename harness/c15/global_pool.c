/* C15: src/mem/mem_pool.c -- the shared (global) pool: buckets are exchanged
 * whole, leftovers are merged in the partial bucket, pages are carved into
 * disjoint blocks.  The real file is included; the lock-free LIFO operations
 * it calls are redirected to recording stubs (the LIFO itself: unit lifo). */
#include "vf.h"
#include "abti.h"
#ifndef VF_NATIVE
#include "env/spinlock.h"
#define VF_INPUT(v) vf_w_##v = v
#else /* native replay: the real spinlock; inputs from the command line */
#include "replay/vf_args.h"
static int vf_lock_held; static unsigned vf_acquires, vf_releases;
#define VF_INPUT(v) v = (int)vf_arg_i64("vf_w_" #v, 0)
#endif
int vf_w_P, vf_w_a, vf_w_b;

#define VF_MAXQ 4
static ABTI_sync_lifo_element *pushed[VF_MAXQ]; static const void *pushed_to[VF_MAXQ]; static unsigned n_pushed;
static ABTI_sync_lifo_element *pop_bucket_elem, *pop_page_elem; static unsigned n_pops;
static void vf_lifo_push(ABTI_sync_lifo *l, ABTI_sync_lifo_element *e) { if (n_pushed < VF_MAXQ) { pushed[n_pushed] = e; pushed_to[n_pushed] = l; } n_pushed++; }
static ABTI_mem_pool_global_pool gp;
static ABTI_sync_lifo_element *vf_lifo_pop(ABTI_sync_lifo *l) { n_pops++; if (l == &gp.bucket_lifo) { ABTI_sync_lifo_element *e = pop_bucket_elem; pop_bucket_elem = NULL; return e; } ABTI_sync_lifo_element *e = pop_page_elem; pop_page_elem = NULL; return e; }
static int lp_fail; static char *lp_mem; static unsigned n_lp;
static int vf_alloc_largepage(size_t size, size_t al, const ABTU_MEM_LARGEPAGE_TYPE *req, int nreq, ABTU_MEM_LARGEPAGE_TYPE *t, void **pp) { n_lp++; if (lp_fail) return ABT_ERR_MEM; *t = ABTU_MEM_LARGEPAGE_MALLOC; *pp = lp_mem; return ABT_SUCCESS; }
/* the push-only list of used-up pages: other threads push their pages between
 * any two steps of this thread; obligation at the successful CAS: the pushed
 * page links to the whole current list (so no page is dropped from the list
 * that ABTI_mem_pool_destroy_global_pool walks to release memory) */
static ABTI_mem_pool_page envpage[3]; static void *ep_cell; static int ep_budget, ep_pushed; int nondet_int(void);
static void ep_env(void) { for (int k = 0; k < 3; k++) if (ep_budget > 0 && nondet_int()) { ep_budget--; envpage[k].p_next_empty_page = (ABTI_mem_pool_page *)ep_cell; ep_cell = &envpage[k]; } }
static void *vf_ep_load(ABTD_atomic_ptr *p) { ep_env(); return ep_cell; }
static int vf_ep_cas(ABTD_atomic_ptr *p, void *o, void *n)
{
    ep_env(); if (ep_cell != o) return 0; if (ep_budget > 0 && nondet_int()) { ep_budget--; return 0; }
    VF_ASSERT(((ABTI_mem_pool_page *)n)->p_next_empty_page == (ABTI_mem_pool_page *)ep_cell, "empty-page push linearises: the page links to the whole current list");
    ep_cell = n; ep_pushed++; return 1;
}
#define ABTD_atomic_acquire_load_ptr(p) vf_ep_load(p)
#define ABTD_atomic_bool_cas_weak_ptr(p, o, n) vf_ep_cas((p), (o), (n))
#define ABTI_sync_lifo_push vf_lifo_push
#define ABTI_sync_lifo_pop vf_lifo_pop
#define ABTU_alloc_largepage vf_alloc_largepage
#include <mem/mem_pool.c>
#undef ABTU_alloc_largepage
#undef ABTI_sync_lifo_push
#undef ABTD_atomic_acquire_load_ptr
#undef ABTD_atomic_bool_cas_weak_ptr
#undef ABTI_sync_lifo_pop

#define NH 8
static ABTI_mem_pool_header hd[NH];
static int chain_len(ABTI_mem_pool_header *p) { int n = 0; for (int i = 0; i <= NH; i++) { if (!p) break; n++; p = p->p_next; } return n; }
static int in_chain(ABTI_mem_pool_header *p, ABTI_mem_pool_header *x) { for (int i = 0; i <= NH; i++) { if (!p) break; if (p == x) return 1; p = p->p_next; } return 0; }
static ABTI_mem_pool_header *mk_chain(int first, int n) { if (n == 0) return NULL; for (int i = 0; i < NH; i++) if (i >= first && i < first + n) hd[i].p_next = (i + 1 < first + n) ? &hd[i + 1] : NULL; hd[first].bucket_info.num_headers = n; return &hd[first]; }
static ABTI_mem_pool_header *bucket_of(ABTI_sync_lifo_element *e) { return (ABTI_mem_pool_header *)((char *)e - offsetof(ABTI_mem_pool_header, bucket_info)); }

/* leftovers of two pools merged: nothing is lost, the count stays exact */
void h_return_partial(void)
{
    int P, a, b; VF_INPUT(P); VF_INPUT(a); VF_INPUT(b); VF_ASSUME(2 <= P && P <= 4 && 0 <= a && a < P && 1 <= b && b < P);
    gp.num_headers_per_bucket = P; gp.partial_bucket = mk_chain(0, a); ABTI_mem_pool_header *bk = mk_chain(4, b); n_pushed = 0; vf_lock_held = 0;
    mem_pool_return_partial_bucket(&gp, bk);
    VF_ASSERT(vf_lock_held == 0 && vf_acquires == vf_releases, "partial-bucket lock released");
    VF_ASSERT(n_pushed <= 1, "at most one complete bucket is produced");
    int lp = chain_len(gp.partial_bucket);
    VF_ASSERT(lp < P && (lp == 0 || gp.partial_bucket->bucket_info.num_headers == (size_t)lp), "the partial bucket records exactly how many blocks it chains (and fewer than a bucket)");
    if (n_pushed == 1) {
        ABTI_mem_pool_header *full = bucket_of(pushed[0]);
        VF_ASSERT(pushed_to[0] == &gp.bucket_lifo && chain_len(full) == P, "a complete bucket has exactly num_headers_per_bucket blocks");
        VF_ASSERT(lp + P == a + b, "conservation: every block is in the complete bucket or in the partial bucket");
        for (int i = 0; i < NH; i++) if ((i < a) || (i >= 4 && i < 4 + b)) VF_ASSERT(in_chain(full, &hd[i]) + in_chain(gp.partial_bucket, &hd[i]) == 1, "each block is in exactly one of them");
    } else {
        VF_ASSERT(lp == a + b, "conservation (no complete bucket)");
    }
    VF_REACH("return_partial"); VF_COVER(n_pushed == 1 && lp > 0, "complete bucket with a remainder"); VF_COVER(n_pushed == 0 && a > 0, "merged");
}

/* a stream's pool is destroyed: every bucket goes back exactly once */
void h_destroy_local(void)
{
    static ABTI_mem_pool_local_pool lp; int P = 2, cur; VF_ASSUME(cur == 1 || cur == 2); size_t bi; VF_ASSUME(bi < ABT_MEM_POOL_MAX_LOCAL_BUCKETS);
    gp.num_headers_per_bucket = P; gp.partial_bucket = NULL; lp.p_global_pool = &gp; lp.num_headers_per_bucket = P; lp.bucket_index = bi; n_pushed = 0; vf_lock_held = 0;
    for (size_t k = 0; k < ABT_MEM_POOL_MAX_LOCAL_BUCKETS; k++) lp.buckets[k] = mk_chain(2 * (int)k, (k == bi) ? cur : 2);
    ABTI_mem_pool_destroy_local_pool(&lp);
    VF_ASSERT(n_pushed == bi + (cur == 2), "every full bucket is pushed to the shared pool exactly once");
    for (size_t k = 0; k < ABT_MEM_POOL_MAX_LOCAL_BUCKETS; k++) if (k < n_pushed) VF_ASSERT(bucket_of(pushed[k]) == &hd[2 * k], "... each a different one");
    VF_ASSERT(cur == 2 ? gp.partial_bucket == NULL : (gp.partial_bucket == &hd[2 * bi] && chain_len(gp.partial_bucket) == 1), "a partial bucket goes to the partial-bucket slot");
    VF_REACH("destroy_local"); VF_COVER(cur == 1 && bi == 1, "full + partial");
}

#ifndef VF_NATIVE
/* taking a bucket: from the LIFO, or carved out of pages */
void h_take_bucket(void)
{
    enum { HS = 64, PGSZ = 4 * HS + sizeof(ABTI_mem_pool_page) + 24 }; static char mem[PGSZ] __attribute__((aligned(64))); static char mem2[PGSZ] __attribute__((aligned(64)));
    int P; VF_ASSUME(1 <= P && P <= 3); size_t off; VF_ASSUME(off <= HS - sizeof(ABTI_mem_pool_header) && off % 8 == 0);
    gp.num_headers_per_bucket = P; gp.header_size = HS; gp.header_offset = off; gp.page_size = PGSZ; gp.mprotect_config.enabled = ABT_FALSE; gp.partial_bucket = NULL;
    n_pushed = 0; n_pops = 0; n_lp = 0; vf_lock_held = 0; { int f; lp_fail = !!f; } lp_mem = mem; pop_bucket_elem = NULL;
    /* optionally a partially used page is waiting in mem_page_lifo (its invariant: the unused part ends where the page descriptor starts) */
    ABTI_mem_pool_page *pg2 = (ABTI_mem_pool_page *)(mem2 + PGSZ - sizeof(ABTI_mem_pool_page)); int havepg, used; VF_ASSUME(0 <= used && used <= 3);
    if (havepg) { pg2->mem = mem2; pg2->page_size = PGSZ; pg2->p_mem_extra = mem2 + used * HS; pg2->mem_extra_size = PGSZ - sizeof(ABTI_mem_pool_page) - used * HS; pop_page_elem = &pg2->lifo_elem; } else pop_page_elem = NULL;
    ABTI_mem_pool_header *bk = (ABTI_mem_pool_header *)8;
    int r = ABTI_mem_pool_take_bucket(&gp, &bk);
    if (r == ABT_SUCCESS) {
        VF_ASSERT(bk->bucket_info.num_headers == (size_t)P, "a bucket records num_headers_per_bucket blocks");
        ABTI_mem_pool_header *p = bk, *q; int n = 0;
        for (int i = 0; i < 4; i++) { if (!p) break; n++;
            char *base = __CPROVER_same_object(p, mem) ? mem : mem2;
            VF_ASSERT(__CPROVER_same_object(p, mem) || (havepg && __CPROVER_same_object(p, mem2)), "every block lies in a page");
            size_t o = (char *)p - base;
            VF_ASSERT(o >= off && (o - off) % HS == 0 && o - off + HS <= PGSZ - sizeof(ABTI_mem_pool_page), "at a whole element slot, entirely below the page descriptor");
            VF_ASSERT(base == mem || (o - off) / HS >= (size_t)used, "never a slot of that page that was handed out before");
            q = p->p_next; for (int j = 0; j < 4; j++) { if (!q) break; VF_ASSERT(q != p, "blocks of a bucket are distinct"); q = q->p_next; }
            p = p->p_next; }
        VF_ASSERT(n == P, "and chains exactly that many");
    } else {
        VF_ASSERT(lp_fail && bk == (ABTI_mem_pool_header *)8, "failure: output untouched");
        VF_ASSERT(gp.partial_bucket == NULL || gp.partial_bucket->bucket_info.num_headers == (size_t)chain_len(gp.partial_bucket), "blocks carved so far are kept in the partial bucket, counted exactly");
    }
    VF_REACH("take_bucket"); VF_COVER(r == ABT_SUCCESS && n_lp == 1 && havepg, "old page used up, new page allocated"); VF_COVER(r != ABT_SUCCESS && gp.partial_bucket != NULL, "failure after carving some blocks");
}
/* a page is used up while other streams use up theirs */
void h_take_bucket_emptypage(void)
{
    enum { HS = 64, PGSZ = 2 * HS + sizeof(ABTI_mem_pool_page) + 24 }; static char mem2[PGSZ] __attribute__((aligned(64)));
    gp.num_headers_per_bucket = 1; gp.header_size = HS; gp.header_offset = 0; gp.page_size = PGSZ; gp.mprotect_config.enabled = ABT_FALSE; gp.partial_bucket = NULL;
    n_pushed = 0; n_lp = 0; lp_fail = 1; pop_bucket_elem = NULL; ep_cell = NULL; ep_budget = 3; ep_pushed = 0;
    ABTI_mem_pool_page *pg2 = (ABTI_mem_pool_page *)(mem2 + PGSZ - sizeof(ABTI_mem_pool_page));
    pg2->mem = mem2; pg2->page_size = PGSZ; pg2->p_mem_extra = mem2 + HS; pg2->mem_extra_size = PGSZ - sizeof(ABTI_mem_pool_page) - HS; pop_page_elem = &pg2->lifo_elem;
    ABTI_mem_pool_header *bk;
    int r = ABTI_mem_pool_take_bucket(&gp, &bk);
    VF_ASSERT(r == ABT_SUCCESS && (char *)bk == mem2 + HS, "the last slot of the page is handed out");
    VF_ASSERT(ep_pushed == 1 && n_pushed == 0, "the used-up page goes to the empty-page list exactly once (and not back to the list of usable pages)");
    VF_REACH("emptypage"); VF_COVER(ep_budget == 0, "under three interfering steps");
}
void h_take_bucket_pop(void)
{
    gp.num_headers_per_bucket = 3; ABTI_mem_pool_header *b0 = mk_chain(0, 3); b0->bucket_info.lifo_elem.p_next = (void *)&hd[5]; /* while in the LIFO the word is a link */
    pop_bucket_elem = &b0->bucket_info.lifo_elem; n_lp = 0; ABTI_mem_pool_header *bk;
    int r = ABTI_mem_pool_take_bucket(&gp, &bk);
    VF_ASSERT(r == ABT_SUCCESS && bk == b0 && bk->bucket_info.num_headers == 3 && n_lp == 0, "a popped bucket is handed over whole and gets its count back");
    VF_REACH("take_bucket_pop");
}
#endif
