/* C15: abti_mem.h / abti_mem_pool.h -- provenance pairing of descriptors and
 * stacks (what is freed is exactly what was allocated, at its base, through the
 * allocator it came from), the local pool's alloc/free steps, and the 4-byte
 * provenance flag of generic descriptors. */
#include "vf.h"
#ifdef VF_NO_ALIGNED_ALLOC /* the --disable-aligned-alloc configuration: ABTU_malloc is plain malloc() */
#include "abt_config.h"
#undef ABT_CONFIG_USE_ALIGNED_ALLOC
#endif
#include "abti.h"
#include "env/spinlock.h"

/* the pool layer by thin contract (its own steps: units pool_alloc / pool_free) */
unsigned vf_pool_allocs, vf_pool_frees; const void *vf_pool_alloc_pool, *vf_pool_free_pool, *vf_pool_freed; void *vf_pool_block; int vf_pool_fail;
static ABTI_global glob; static ABTI_xstream xs;
/* the two caches shared by all external threads are touched only under THEIR OWN lock (a cache is a plain
 * single-owner structure: two threads inside it at once hand one block out twice) */
#define VF_SHARED_POOL_LOCKED(p) (((p) != &glob.mem_pool_desc_ext || (vf_lock_held == 1 && vf_lock_which == &glob.mem_pool_desc_lock)) && ((p) != &glob.mem_pool_stack_ext || (vf_lock_held == 1 && vf_lock_which == &glob.mem_pool_stack_lock)))
#ifndef VF_UNIT_POOL
static inline int ABTI_mem_pool_alloc(ABTI_mem_pool_local_pool *p_local_pool, void **p_mem)
__CPROVER_requires(VF_SHARED_POOL_LOCKED(p_local_pool))
__CPROVER_assigns(*p_mem, vf_pool_allocs, vf_pool_alloc_pool)
__CPROVER_ensures(vf_pool_allocs == __CPROVER_old(vf_pool_allocs) + 1 && vf_pool_alloc_pool == p_local_pool)
__CPROVER_ensures(vf_pool_fail ==> __CPROVER_return_value == ABT_ERR_MEM)
__CPROVER_ensures(!vf_pool_fail ==> __CPROVER_return_value == ABT_SUCCESS)
__CPROVER_ensures(!vf_pool_fail ==> __CPROVER_pointer_equals(*p_mem, vf_pool_block));
static inline void ABTI_mem_pool_free(ABTI_mem_pool_local_pool *p_local_pool, void *mem)
__CPROVER_requires(VF_SHARED_POOL_LOCKED(p_local_pool))
__CPROVER_assigns(vf_pool_frees, vf_pool_free_pool, vf_pool_freed)
__CPROVER_ensures(vf_pool_frees == __CPROVER_old(vf_pool_frees) + 1 && vf_pool_free_pool == p_local_pool && vf_pool_freed == mem);
#endif


#ifdef VF_UNIT_STACK
/* a ULT created with ANY positive stack size gets at least that much stack and
 * can be freed: the block handed to free() is exactly the block obtained */
void h_malloc_desc_stack(void)
{
    size_t sz; VF_ASSUME(sz >= 1 && sz <= VF_MAXSZ);
    glob.stack_guard_kind = ABTI_STACK_GUARD_NONE;
    ABTI_ythread *y;
    int r = ABTI_mem_alloc_ythread_malloc_desc_stack(&glob, sz, &y);
    if (r != ABT_SUCCESS) { VF_REACH("allocation failed"); return; }
    VF_ASSERT(y->thread.type & ABTI_THREAD_TYPE_MEM_MALLOC_DESC_STACK, "provenance recorded");
    char *top = (char *)ABTD_ythread_context_get_stacktop(&y->ctx);
    VF_ASSERT(ABTD_ythread_context_get_stacksize(&y->ctx) >= sz, "at least the requested stack size is reported");
    VF_ASSERT(__CPROVER_same_object(top - 1, y) && __CPROVER_same_object(top - sz, y), "the whole usable stack [top - size, top) lies inside the allocated block");
    VF_ASSERT((char *)y >= top, "the descriptor sits above the stack (they do not overlap)");
    VF_ASSERT(((uintptr_t)__CPROVER_POINTER_OFFSET(top) & 63) == 0, "stack top at a cache-line multiple from the block base (16-byte alignment follows for a 64-byte aligned block)");
    ABTI_mem_free_thread(&glob, NULL, &y->thread); /* CBMC checks: free() gets a live block at offset 0, exactly once */
    VF_REACH("freed"); VF_COVER(sz % 64 != 0, "size not a multiple of the cache line"); VF_COVER(sz == 4033, "the witness of D1");
}
#endif

#ifdef VF_UNIT_FREE
/* ABTI_mem_free_thread returns every kind of descriptor to where it came from */
void h_free_thread_routes(void)
{
    static ABTI_ythread yt; int kind; VF_ASSUME(0 <= kind && kind <= 3); /* 0 stack+descriptor block, 1 ULT descriptor, 2 tasklet descriptor, 3 lazy-stack ULT that has no stack */ int ext; ABTI_local *l = ext ? NULL : (ABTI_local *)&xs;
    yt.thread.type = kind == 0 ? (ABTI_THREAD_TYPE_MEM_MEMPOOL_DESC_STACK | ABTI_THREAD_TYPE_YIELDABLE) : kind == 1 ? (ABTI_THREAD_TYPE_MEM_MEMPOOL_DESC | ABTI_THREAD_TYPE_YIELDABLE) : kind == 2 ? ABTI_THREAD_TYPE_MEM_MEMPOOL_DESC : (ABTI_THREAD_TYPE_MEM_MEMPOOL_DESC_MEMPOOL_LAZY_STACK | ABTI_THREAD_TYPE_YIELDABLE);
    static char stk[256]; if (kind == 3) { yt.ctx.p_stacktop = NULL; yt.ctx.stacksize = 256; } else { yt.ctx.p_stacktop = stk + 256; yt.ctx.stacksize = 256; }
    glob.stack_guard_kind = ABTI_STACK_GUARD_NONE; vf_pool_frees = 0; vf_lock_held = 0; unsigned a0 = vf_acquires, r0 = vf_releases;
    ABTI_mem_free_thread(&glob, l, &yt.thread);
    VF_ASSERT(vf_pool_frees == 1 && vf_pool_freed == &yt, "returned exactly once, as the block that was handed out");
    if (kind == 0) VF_ASSERT(vf_pool_free_pool == (ext ? (void *)&glob.mem_pool_stack_ext : (void *)&xs.mem_pool_stack), "stack+descriptor blocks go back to a STACK pool (the stream's, or the shared one for external threads)");
    else VF_ASSERT(vf_pool_free_pool == (ext ? (void *)&glob.mem_pool_desc_ext : (void *)&xs.mem_pool_desc), "descriptor blocks (ULT, tasklet, lazy-stack ULT) go back to a DESCRIPTOR pool");
    VF_ASSERT(ext ? (vf_acquires == a0 + 1 && vf_releases == r0 + 1 && vf_lock_held == 0 && vf_lock_which == (kind == 0 ? (void *)&glob.mem_pool_stack_lock : (void *)&glob.mem_pool_desc_lock)) : vf_acquires == a0, "the shared pool is touched only under its lock; a stream's own pool needs none");
    VF_REACH("free routes");
}
/* the provenance flag of generic descriptors (key tables ...) */
void h_desc_flag(void)
{
    enum { VF_NW = 512 }; static uint32_t block[VF_NW]; VF_ASSUME(ABTI_MEM_POOL_DESC_ELEM_SIZE <= 4 * VF_NW); const size_t fl = ABTI_MEM_POOL_DESC_ELEM_SIZE / 4 - 1; int ext; ABTI_local *l = ext ? NULL : (ABTI_local *)&xs;
    { uint32_t stale; block[fl] = stale; } /* a recycled block carries old data */
    vf_pool_block = block; vf_pool_fail = 0; vf_pool_allocs = 0; vf_pool_frees = 0; vf_lock_held = 0;
    void *d;
    int fx; /* who releases it: the same stream, or an external thread */
    if (!ext) {
        int r = ABTI_mem_alloc_desc(l, &d);
        VF_ASSERT(r == ABT_SUCCESS && d == block && vf_pool_allocs == 1 && vf_pool_alloc_pool == &xs.mem_pool_desc, "taken from the stream's descriptor pool");
        ABTI_mem_free_desc(&glob, fx ? NULL : l, d);
        VF_ASSERT(vf_pool_frees == 1 && vf_pool_freed == block, "a pool block is returned to a pool exactly once (never to free()), whatever the block contained before");
        VF_ASSERT(vf_pool_free_pool == (fx ? (void *)&glob.mem_pool_desc_ext : (void *)&xs.mem_pool_desc) && vf_lock_held == 0, "the stream's descriptor pool, or the shared one under its lock");
        VF_COVER(fx, "released by an external thread");
    } else {
        int r = ABTI_mem_alloc_desc(NULL, &d);
        if (r == ABT_SUCCESS) { VF_ASSERT(vf_pool_allocs == 0, "external threads use malloc"); ABTI_mem_free_desc(&glob, fx ? NULL : (ABTI_local *)&xs, d); VF_ASSERT(vf_pool_frees == 0, "a malloc'ed block is released with free(), never into a pool"); }
    }
    VF_REACH("desc flag"); VF_COVER(!ext, "pool"); VF_COVER(ext, "malloc");
}
#endif

#ifdef VF_UNIT_POOL
/* local pool steps on a small concrete layout: 2 headers per bucket */
static unsigned n_take, n_return; static ABTI_mem_pool_header *ret_bucket[4]; static int take_fail; static ABTI_mem_pool_header fresh[2][2];
int ABTI_mem_pool_take_bucket(ABTI_mem_pool_global_pool *g, ABTI_mem_pool_header **pb)
{ if (take_fail) return ABT_ERR_MEM; int k = n_take & 1; fresh[k][0].p_next = &fresh[k][1]; fresh[k][0].bucket_info.num_headers = 2; fresh[k][1].p_next = NULL; *pb = &fresh[k][0]; n_take++; return ABT_SUCCESS; }
void ABTI_mem_pool_return_bucket(ABTI_mem_pool_global_pool *g, ABTI_mem_pool_header *b) { ret_bucket[n_return & 3] = b; n_return++; }
static ABTI_mem_pool_global_pool gp; static ABTI_mem_pool_local_pool lp; static ABTI_mem_pool_header h[ABT_MEM_POOL_MAX_LOCAL_BUCKETS][2];
static int count_free(void) { int c = 0; for (size_t b = 0; b < ABT_MEM_POOL_MAX_LOCAL_BUCKETS; b++) if (b <= lp.bucket_index) { ABTI_mem_pool_header *p = lp.buckets[b]; for (int i = 0; i < 3; i++) { if (!p) break; c++; p = p->p_next; } } return c; }
static int is_free(void *m) { for (size_t b = 0; b < ABT_MEM_POOL_MAX_LOCAL_BUCKETS; b++) if (b <= lp.bucket_index) { ABTI_mem_pool_header *p = lp.buckets[b]; for (int i = 0; i < 3; i++) { if (!p) break; if ((void *)p == m) return 1; p = p->p_next; } } return 0; }
static void build(void)
{
    lp.p_global_pool = &gp; lp.num_headers_per_bucket = 2; gp.num_headers_per_bucket = 2; n_take = n_return = 0; { int f; take_fail = !!f; }
    size_t bi; VF_ASSUME(bi < ABT_MEM_POOL_MAX_LOCAL_BUCKETS); lp.bucket_index = bi; int cur; VF_ASSUME(cur == 1 || cur == 2);
    for (size_t b = 0; b < ABT_MEM_POOL_MAX_LOCAL_BUCKETS; b++) { h[b][0].p_next = &h[b][1]; h[b][0].bucket_info.num_headers = 2; h[b][1].p_next = NULL; lp.buckets[b] = &h[b][0]; }
    if (cur == 1) { lp.buckets[bi] = &h[bi][1]; h[bi][1].bucket_info.num_headers = 1; }
}
void h_pool_alloc(void)
{
    build(); int f0 = count_free(); void *m = (void *)0x77;
    int r = ABTI_mem_pool_alloc(&lp, &m);
    if (r == ABT_SUCCESS) {
        VF_ASSERT(m != NULL && !is_free(m), "a block that is handed out is in no free list any more (no two live work units share memory)");
        VF_ASSERT(count_free() == f0 - 1 + 2 * (int)n_take, "exactly one block leaves the free set (plus whole buckets taken from the global pool)");
        VF_ASSERT(lp.bucket_index < ABT_MEM_POOL_MAX_LOCAL_BUCKETS && lp.buckets[lp.bucket_index] != NULL && lp.buckets[lp.bucket_index]->bucket_info.num_headers >= 1 && lp.buckets[lp.bucket_index]->bucket_info.num_headers <= 2, "representation: the current bucket holds 1..per_bucket blocks and records its count");
    } else {
        VF_ASSERT(take_fail && m == (void *)0x77 && n_return == n_take, "allocation failure: output untouched, buckets taken so far given back");
    }
    VF_REACH("pool_alloc"); VF_COVER(r == ABT_SUCCESS && n_take > 0, "refilled from the global pool"); VF_COVER(r != ABT_SUCCESS, "failed");
}
void h_pool_free(void)
{
    build(); static ABTI_mem_pool_header blk; int f0 = count_free();
    ABTI_mem_pool_free(&lp, &blk);
    VF_ASSERT(is_free(&blk), "a returned block is available again");
    VF_ASSERT(count_free() + 2 * (int)n_return == f0 + 1, "exactly one block joins the free set (minus whole buckets passed to the global pool, each exactly once)");
    VF_ASSERT(lp.bucket_index < ABT_MEM_POOL_MAX_LOCAL_BUCKETS && lp.buckets[lp.bucket_index]->bucket_info.num_headers >= 1 && lp.buckets[lp.bucket_index]->bucket_info.num_headers <= 2, "representation preserved");
    VF_ASSERT(n_return <= ABT_MEM_POOL_NUM_RETURN_BUCKETS && (n_return < 2 || ret_bucket[0] != ret_bucket[1]), "no bucket is given back twice");
    for (unsigned k = 0; k < 4; k++) if (k < n_return) {
        VF_ASSERT(ret_bucket[k] != NULL && !is_free(ret_bucket[k]) && !is_free(ret_bucket[k]->p_next), "a bucket handed to the global pool is no longer held by the local pool (no block is owned by two pools: another stream may take it at once)");
        VF_ASSERT(ret_bucket[k]->bucket_info.num_headers == 2 && ret_bucket[k]->p_next != NULL && ret_bucket[k]->p_next->p_next == NULL, "... and is a complete bucket of exactly num_headers_per_bucket blocks");
        VF_ASSERT((void *)ret_bucket[k] != (void *)&blk && (void *)ret_bucket[k]->p_next != (void *)&blk, "... that does not contain the block just freed (the oldest buckets overflow, the newest stay)");
    }
    VF_REACH("pool_free"); VF_COVER(n_return > 0, "overflowed to the global pool");
}
#endif

#ifdef VF_UNIT_POOLE
/* Local pool steps for ANY bucket size and ANY chain length (unbounded): the two functions only look at the head
 * of each bucket (count stored in the head, link to the second block), never further down the chains, so the heads
 * and second blocks are the window; the tails are untouched by the frame (checked: second blocks keep their link).
 * Representation R: bucket_index < MAX; buckets[k], k < bucket_index, are complete (count == per_bucket);
 * buckets[bucket_index] holds 1..per_bucket blocks and its head records how many; all bucket heads distinct.
 * Abstract view V = union of the chains.  alloc: V' = V - {returned head} (+ one fresh complete bucket when the last
 * block went out); free(b): V' = V + {b} - {complete buckets handed to the global pool}. */
#define MAXB ABT_MEM_POOL_MAX_LOCAL_BUCKETS
static unsigned n_take, n_return; static ABTI_mem_pool_header *ret_bucket[4]; static const void *ret_pool; static int take_fail; static ABTI_mem_pool_header fresh_head, fresh_second; static size_t P;
int ABTI_mem_pool_take_bucket(ABTI_mem_pool_global_pool *g, ABTI_mem_pool_header **pb)
{ if (take_fail) return ABT_ERR_MEM; fresh_head.p_next = &fresh_second; fresh_head.bucket_info.num_headers = P; *pb = &fresh_head; n_take++; return ABT_SUCCESS; } /* contract of the global pool: a complete bucket (C15 gpool_* units) */
void ABTI_mem_pool_return_bucket(ABTI_mem_pool_global_pool *g, ABTI_mem_pool_header *b) { ret_bucket[n_return & 3] = b; ret_pool = g; n_return++; }
static ABTI_mem_pool_global_pool gp; static ABTI_mem_pool_local_pool lp; static ABTI_mem_pool_header head[MAXB], second[MAXB], tail_of_second[MAXB];
static size_t bi0, c0;
static void build(void)
{
    { size_t p; P = p; } VF_ASSUME(P >= 1); lp.p_global_pool = &gp; lp.num_headers_per_bucket = P; gp.num_headers_per_bucket = P; n_take = n_return = 0; { int f; take_fail = !!f; }
    { size_t b; bi0 = b; } VF_ASSUME(bi0 < MAXB); lp.bucket_index = bi0;
    { size_t c; c0 = c; } VF_ASSUME(1 <= c0 && c0 <= P);
    for (size_t b = 0; b < MAXB; b++) { ABTI_mem_pool_header n1, n2; head[b] = n1; second[b] = n2; second[b].p_next = &tail_of_second[b]; lp.buckets[b] = &head[b]; head[b].p_next = &second[b];
        head[b].bucket_info.num_headers = (b == bi0) ? c0 : P; if (b > bi0) { ABTI_mem_pool_header *junk; lp.buckets[b] = junk; } } /* slots above the index hold stale pointers */
    if (c0 == 1) head[bi0].p_next = NULL;
}
void h_pool_alloc_any(void)
{
    build(); void *m = (void *)0x77; ABTI_mem_pool_header *b0[MAXB]; for (size_t b = 0; b < MAXB; b++) b0[b] = lp.buckets[b];
    int r = ABTI_mem_pool_alloc(&lp, &m);
    if (r != ABT_SUCCESS) { VF_ASSERT(take_fail && c0 == 1 && bi0 == 0 && m == (void *)0x77 && n_return == n_take && lp.bucket_index == bi0, "failure only when the last block would go out and the global pool has nothing: output untouched, index unchanged"); VF_REACH("alloc failed"); return; }
    VF_ASSERT(m == (void *)&head[bi0], "the block handed out is the head of the current bucket");
    if (c0 > 1) {
        VF_ASSERT(lp.bucket_index == bi0 && lp.buckets[bi0] == &second[bi0] && second[bi0].bucket_info.num_headers == c0 - 1 && second[bi0].p_next == &tail_of_second[bi0], "the rest of the chain is the current bucket and records one block less; its own link is untouched");
        VF_ASSERT(n_take == 0 && n_return == 0, "no traffic with the global pool");
    } else if (bi0 > 0) {
        VF_ASSERT(lp.bucket_index == bi0 - 1 && lp.buckets[bi0 - 1] == b0[bi0 - 1] && lp.buckets[bi0 - 1]->bucket_info.num_headers == P && n_take == 0 && n_return == 0, "last block of the bucket: the previous (complete) bucket becomes current");
    } else {
        VF_ASSERT(n_take == ABT_MEM_POOL_NUM_TAKE_BUCKETS && n_return == 0 && lp.bucket_index == ABT_MEM_POOL_NUM_TAKE_BUCKETS - 1 && lp.buckets[lp.bucket_index] == &fresh_head && fresh_head.bucket_info.num_headers == P, "last block of the pool: complete buckets are taken from the global pool and become current");
    }
    for (size_t b = 0; b < MAXB; b++) if (b <= lp.bucket_index) VF_ASSERT(lp.buckets[b] != (ABTI_mem_pool_header *)m, "the block handed out heads no bucket of the pool any more (it is in no free list: chains are disjoint and it was a head)");
    VF_ASSERT(lp.bucket_index < MAXB && lp.buckets[lp.bucket_index]->bucket_info.num_headers >= 1 && lp.buckets[lp.bucket_index]->bucket_info.num_headers <= P, "representation preserved: current bucket holds 1..per_bucket blocks");
    for (size_t b = 0; b < MAXB; b++) if (b < lp.bucket_index) VF_ASSERT(lp.buckets[b]->bucket_info.num_headers == P, "representation preserved: lower buckets are complete");
    VF_REACH("pool_alloc any size"); VF_COVER(c0 == 1 && bi0 == 0, "refill"); VF_COVER(c0 == 1 && bi0 > 0, "bucket exhausted"); VF_COVER(c0 > 5, "long chain"); VF_COVER(P > 1000000, "huge bucket");
}
void h_pool_free_any(void)
{
    build(); static ABTI_mem_pool_header blk; ABTI_mem_pool_header *b0[MAXB]; for (size_t b = 0; b < MAXB; b++) b0[b] = lp.buckets[b];
    ABTI_mem_pool_free(&lp, &blk);
    if (c0 < P) {
        VF_ASSERT(lp.bucket_index == bi0 && lp.buckets[bi0] == &blk && blk.p_next == &head[bi0] && blk.bucket_info.num_headers == c0 + 1 && n_return == 0, "room in the current bucket: the block becomes its head, links to the old head and records one block more");
    } else if (bi0 + 1 < MAXB) {
        VF_ASSERT(lp.bucket_index == bi0 + 1 && lp.buckets[bi0 + 1] == &blk && blk.p_next == NULL && blk.bucket_info.num_headers == 1 && lp.buckets[bi0] == b0[bi0] && n_return == 0, "current bucket complete: the block starts the next bucket, the complete one stays");
    } else {
        VF_ASSERT(n_return == ABT_MEM_POOL_NUM_RETURN_BUCKETS && ret_pool == &gp, "every bucket complete: exactly NUM_RETURN buckets overflow to this pool's global pool");
        for (size_t k = 0; k < ABT_MEM_POOL_NUM_RETURN_BUCKETS; k++) VF_ASSERT(ret_bucket[k] == b0[k] && ret_bucket[k]->bucket_info.num_headers == P, "... the OLDEST complete buckets, each once, as they were");
        VF_ASSERT(lp.bucket_index == MAXB - ABT_MEM_POOL_NUM_RETURN_BUCKETS && lp.buckets[lp.bucket_index] == &blk && blk.p_next == NULL && blk.bucket_info.num_headers == 1, "... the block starts a new current bucket");
        for (size_t k = 0; k + ABT_MEM_POOL_NUM_RETURN_BUCKETS < MAXB; k++) VF_ASSERT(lp.buckets[k] == b0[k + ABT_MEM_POOL_NUM_RETURN_BUCKETS], "... the buckets that stay move down in order");
        for (size_t k = 0; k < ABT_MEM_POOL_NUM_RETURN_BUCKETS; k++) for (size_t b = 0; b < MAXB; b++) if (b <= lp.bucket_index) VF_ASSERT(lp.buckets[b] != ret_bucket[k], "a bucket handed to the global pool is no longer held by the local pool (another stream may take it at once)");
    }
    for (size_t b = 0; b < MAXB; b++) { VF_ASSERT(head[b].p_next == (b == bi0 && c0 == 1 ? NULL : &second[b]) && head[b].bucket_info.num_headers == (b == bi0 ? c0 : P) && second[b].p_next == &tail_of_second[b], "blocks already in the pool are not written (frame)"); }
    VF_ASSERT(lp.bucket_index < MAXB && lp.buckets[lp.bucket_index]->bucket_info.num_headers >= 1 && lp.buckets[lp.bucket_index]->bucket_info.num_headers <= P, "representation preserved");
    for (size_t b = 0; b < MAXB; b++) if (b < lp.bucket_index) VF_ASSERT(lp.buckets[b]->bucket_info.num_headers == P, "representation preserved: lower buckets are complete");
    VF_REACH("pool_free any size"); VF_COVER(c0 == P && bi0 + 1 == MAXB, "overflow"); VF_COVER(c0 < P && P > 1000000, "huge bucket"); VF_COVER(c0 == P && bi0 + 1 < MAXB, "next bucket");
}
#endif

#ifdef VF_UNIT_GUARD
/* Guard pages: whatever a creation route write-protects (mprotect-based stack-overflow guard, any guard kind) the
 * matching release route makes writable again, same page and size, exactly once -- before the memory goes back to
 * malloc, to a pool or to the user who supplied the stack.  ABTU_mprotect is a logging stub (A5). */
static unsigned n_prot, n_unprot; static void *prot_addr, *unprot_addr; static size_t prot_size, unprot_size; static int mprot_fail;
int ABTU_mprotect(void *addr, size_t size, ABT_bool protect)
{
    if (protect) { n_prot++; prot_addr = addr; prot_size = size; return mprot_fail ? ABT_ERR_SYS : ABT_SUCCESS; }
    n_unprot++; unprot_addr = addr; unprot_size = size; return ABT_SUCCESS;
}
void h_guard_pairing(void)
{
    enum { STK = 16384 }; static char arena[STK + 2048]; static char ustack[STK];
    int route; VF_ASSUME(0 <= route && route <= 2); int ext_alloc, ext_free; ABTI_local *la = ext_alloc ? NULL : (ABTI_local *)&xs, *lf = ext_free ? NULL : (ABTI_local *)&xs;
    { int k; VF_ASSUME(k == ABTI_STACK_GUARD_NONE || k == ABTI_STACK_GUARD_MPROTECT || k == ABTI_STACK_GUARD_MPROTECT_STRICT); glob.stack_guard_kind = k; }
    glob.sys_page_size = 4096; glob.thread_stacksize = STK; mprot_fail = 0; /* a failed protect is tolerated by the non-strict kind only; pairing is stated for the successful case */
    vf_pool_block = arena + STK; vf_pool_fail = 0; vf_pool_allocs = vf_pool_frees = 0; vf_lock_held = 0; n_prot = n_unprot = 0;
    ABTI_ythread *y; int r;
    if (route == 0) { size_t sz; VF_ASSUME(sz >= 8192 && sz <= STK); r = ABTI_mem_alloc_ythread_malloc_desc_stack(&glob, sz, &y); }      /* malloc'ed stack + descriptor */
    else if (route == 1) r = ABTI_mem_alloc_ythread_mempool_desc_stack(&glob, la, STK, &y);                                               /* default stack from the stack pool (malloc'ed for external threads) */
    else { size_t off; VF_ASSUME(off <= 64 && (off & 7) == 0); r = ABTI_mem_alloc_ythread_mempool_desc(&glob, la, STK - 64, ustack + STK - off, &y); } /* user-supplied stack, descriptor from the pool / malloc */
    if (r != ABT_SUCCESS) { VF_ASSERT(n_prot == 0, "nothing stays protected when the creation fails"); VF_REACH("guard: allocation failed"); return; }
    y->thread.type |= ABTI_THREAD_TYPE_YIELDABLE; /* as ythread_create does */
    unsigned p_alloc = n_prot; VF_ASSERT(n_unprot == 0 && p_alloc <= 1, "creation protects at most one guard page and unprotects none");
    ABTI_mem_free_thread(&glob, lf, &y->thread);
    VF_ASSERT(n_prot == p_alloc, "release protects nothing");
    VF_ASSERT(n_unprot == p_alloc, "every guard page installed at creation is removed at release, exactly once (memory is never handed back write-protected)");
    if (p_alloc) VF_ASSERT(unprot_addr == prot_addr && unprot_size == prot_size, "the same page, the same size");
    VF_REACH("guard pairing"); VF_COVER(route == 2 && ext_alloc && p_alloc == 1, "user stack, descriptor malloc'ed by an external thread, guard on"); VF_COVER(route == 0 && p_alloc == 1, "malloc'ed stack, guard on"); VF_COVER(route == 1 && ext_alloc && p_alloc == 1, "default stack for an external thread"); VF_COVER(route == 2 && !ext_alloc && p_alloc == 1, "user stack, pool descriptor");
}
#endif
