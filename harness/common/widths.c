/* A9 support: the harnesses bound event counts ("fewer than 10^6 blocked units",
 * "fewer than 2^31 wake-ups") instead of treating machine integers as
 * mathematical ones.  Such a bound is only an honest stand-in for "cannot
 * wrap in any real run" while the field is wide enough that the bound is far
 * below its range: each counted event needs a live ULT / stream / key (at
 * least tens of bytes of memory each), so 2^31 (int) or 2^64 (size_t) of them
 * cannot coexist, but 2^16 can.  This unit pins the widths (and signedness)
 * the assumptions rely on, from the REAL struct definitions.  Loop-free, no
 * input: a complete proof. */
#include "vf.h"
#include "abti.h"
#include "thread_queue.h"
#define UNSIGNED_FIELD(T, f) (((T){0}).f - 1 > 0)
#define W(T, f) sizeof(((T *)0)->f)
void h_widths_sync(void)
{
    VF_ASSERT(W(ABTI_mutex, nesting_cnt) >= 4, "recursive depth: at least 32 bits (the depth is bounded by the owner's call depth)");
    VF_ASSERT(W(ABTI_mutex, owner_id) == sizeof(void *), "owner id is pointer-wide: two live callers never share an id");
    VF_ASSERT(W(ABTI_rwlock, reader_count) >= sizeof(size_t) && W(ABTI_rwlock, write_flag) >= 4, "rwlock reader count as wide as size_t");
    VF_ASSERT(W(ABTI_barrier, num_waiters) == sizeof(size_t) && W(ABTI_barrier, counter) == sizeof(size_t), "barrier: the arrival counter is as wide as the participant count it is compared with");
    VF_ASSERT(W(ABTI_xstream_barrier, num_waiters) == 4, "stream barrier participant count: 32 bits (API type)");
    VF_ASSERT(W(ABTI_future, counter) == sizeof(size_t) && W(ABTI_future, num_compartments) == sizeof(size_t), "future: the set counter is as wide as the compartment count it is compared with");
    VF_ASSERT(W(ABTI_eventual, nbytes) == sizeof(size_t) && W(ABTI_eventual, ready) >= sizeof(ABT_bool), "eventual: byte count is size_t");
    VF_ASSERT(W(ABTD_futex_multiple, val) >= 4 && W(ABTD_futex_single, val) >= 4, "futex words: 32 bits (the kernel interface width; the harness bounds wake-ups per wait list below 2^31)");
    VF_REACH("sync widths");
}
void h_widths_sched(void)
{
    VF_ASSERT(W(ABTI_pool, num_blocked) == 4 && W(ABTI_pool, num_scheds) == 4, "pool: blocked / scheduler counts are 32-bit atomics");
    VF_ASSERT(W(ABTI_pool, id) == 8, "pool ids are 64 bits: 2^64 creations do not happen");
    VF_ASSERT(W(thread_queue_t, num_threads) == sizeof(size_t), "queue length is size_t: one unit per live work unit");
    VF_ASSERT(W(ABTI_sched, request) == 4 && W(ABTI_thread, request) == 4, "request words hold all request bits");
    VF_ASSERT(W(ABTI_sched, num_pools) >= sizeof(size_t), "number of pools of a scheduler");
    VF_ASSERT(W(ABTI_global, num_xstreams) == 4 && W(ABTI_global, max_xstreams) == 4 && W(ABTI_xstream, rank) == 4, "ranks and stream counts are int (API type)");
    VF_ASSERT(W(ABTI_thread, type) >= 4 && (ABTI_THREAD_TYPES_MEM | ABTI_THREAD_TYPE_MIGRATABLE | ABTI_THREAD_TYPE_NAMED | ABTI_THREAD_TYPE_YIELDABLE | ABTI_THREAD_TYPE_ROOT | ABTI_THREAD_TYPE_PRIMARY | ABTI_THREAD_TYPE_MAIN_SCHED | ABTI_THREAD_TYPE_THREAD | ABTI_THREAD_TYPE_EXT) < ((uint64_t)1 << (8 * W(ABTI_thread, type) - 1)), "every type flag fits the type word");
    VF_ASSERT((uint64_t)(ABTI_THREAD_TYPE_THREAD | ABTI_THREAD_TYPE_ROOT | ABTI_THREAD_TYPE_PRIMARY | ABTI_THREAD_TYPE_MAIN_SCHED | ABTI_THREAD_TYPE_YIELDABLE | ABTI_THREAD_TYPE_NAMED | ABTI_THREAD_TYPE_MIGRATABLE | ABTI_THREAD_TYPE_MEM_MEMPOOL_DESC | ABTI_THREAD_TYPE_MEM_MALLOC_DESC | ABTI_THREAD_TYPE_MEM_MEMPOOL_DESC_STACK | ABTI_THREAD_TYPE_MEM_MALLOC_DESC_STACK | ABTI_THREAD_TYPE_MEM_MEMPOOL_DESC_MEMPOOL_LAZY_STACK | ABTI_THREAD_TYPE_MEM_MALLOC_DESC_MEMPOOL_LAZY_STACK)
              == (uint64_t)ABTI_THREAD_TYPE_THREAD + ABTI_THREAD_TYPE_ROOT + ABTI_THREAD_TYPE_PRIMARY + ABTI_THREAD_TYPE_MAIN_SCHED + ABTI_THREAD_TYPE_YIELDABLE + ABTI_THREAD_TYPE_NAMED + ABTI_THREAD_TYPE_MIGRATABLE + ABTI_THREAD_TYPE_MEM_MEMPOOL_DESC + ABTI_THREAD_TYPE_MEM_MALLOC_DESC + ABTI_THREAD_TYPE_MEM_MEMPOOL_DESC_STACK + ABTI_THREAD_TYPE_MEM_MALLOC_DESC_STACK + ABTI_THREAD_TYPE_MEM_MEMPOOL_DESC_MEMPOOL_LAZY_STACK + ABTI_THREAD_TYPE_MEM_MALLOC_DESC_MEMPOOL_LAZY_STACK, "the type flags occupy pairwise different bits (a test of one flag never answers for another)");
    VF_ASSERT((ABTI_THREAD_REQ_JOIN | ABTI_THREAD_REQ_CANCEL | ABTI_THREAD_REQ_MIGRATE) == ABTI_THREAD_REQ_JOIN + ABTI_THREAD_REQ_CANCEL + ABTI_THREAD_REQ_MIGRATE && (ABTI_SCHED_REQ_FINISH | ABTI_SCHED_REQ_EXIT | ABTI_SCHED_REQ_REPLACE) == ABTI_SCHED_REQ_FINISH + ABTI_SCHED_REQ_EXIT + ABTI_SCHED_REQ_REPLACE, "request bits are pairwise different");
    VF_ASSERT(W(ABTI_thread, id) == 8, "work-unit ids are 64 bits");
    VF_ASSERT(W(ABTI_thread, state) == 4 && W(ABTI_xstream, state) == 4, "state words");
    VF_REACH("sched widths");
}
void h_widths_mem(void)
{
    VF_ASSERT(W(ABTI_key, id) == 4 && W(ABTI_ktelem, key_id) == W(ABTI_key, id), "an element stores the whole key id (no truncation when matching)");
    VF_ASSERT(W(ABTI_ktable, size) == 4 && W(ABTI_ktable, extra_mem_size) == sizeof(size_t), "table size / spare room");
    VF_ASSERT(W(ABTI_global, key_table_size) >= 4 && W(ABTI_global, thread_stacksize) == sizeof(size_t) && W(ABTI_global, sched_stacksize) == sizeof(size_t), "configured sizes are not narrowed");
    VF_ASSERT(W(ABTD_ythread_context, stacksize) == sizeof(size_t) && W(ABTI_thread_attr, stacksize) == sizeof(size_t), "stack sizes are size_t everywhere");
    VF_ASSERT(W(ABTI_mem_pool_local_pool, bucket_index) == sizeof(size_t) && W(ABTI_mem_pool_local_pool, num_headers_per_bucket) == sizeof(size_t), "memory pool bucket bookkeeping is size_t");
    VF_ASSERT(W(ABTI_mem_pool_page, page_size) == sizeof(size_t) && W(ABTI_mem_pool_page, mem_extra_size) == sizeof(size_t), "page sizes are size_t");
    VF_ASSERT(W(ABTI_mem_pool_global_pool, header_size) == sizeof(size_t) && W(ABTI_mem_pool_global_pool, page_size) == sizeof(size_t) && W(ABTI_mem_pool_global_pool, header_offset) == sizeof(size_t), "pool geometry is size_t");
    VF_REACH("mem widths");
}
