/* C06/C01: sched/sched.c ABTI_sched_has_unit for a scheduler with ANY number of
 * pools.  Ghost-index form of "answers NO only if EVERY pool is idle": pool
 * number vf_k (arbitrary) is the concrete pool PK; every other entry of the
 * pool array resolves to a summary pool PS whose fields the loop contract lists
 * among the loop's assigns targets (so each of those iterations sees an
 * arbitrary pool, and its emptiness callback answers arbitrarily).  Proved
 * without a bound: if the function returns ABT_FALSE then pool vf_k was seen
 * empty AND, if this scheduler is its only consumer (PRIV access, or exactly
 * one attached scheduler), its blocked count was read as 0; since vf_k is
 * arbitrary this holds for every pool of the scheduler.  A stream therefore
 * never stops while a pool it alone serves still has a queued or blocked unit.
 * (The exact "iff", including the TRUE direction, is unit sched_has_unit_B4.)
 * ABTI_pool_get_ptr / ABTI_pool_is_empty are redirected: handle -> pool
 * resolution by the ghost index, emptiness by scripted answers (their real
 * bodies: units abti_pool_dispatch / handle conversions). */
#include "vf.h"
struct ABTI_pool; struct ABTI_pool *vf_ps, *vf_pk; unsigned long vf_k; unsigned vf_k_visits;
#include "abti.h"
int nondet_int(void);
static ABTI_pool PK, PS; static ABT_pool hk; static ABT_bool ek;
static ABTI_pool *vf_get_pool(ABT_pool h) { return h == hk ? &PK : &PS; }
static ABT_bool vf_pool_is_empty(ABTI_pool *p) { if (p == &PK) { if (vf_k_visits < 2) vf_k_visits++; return ek; } return nondet_int() ? ABT_TRUE : ABT_FALSE; }
#define ABTI_pool_get_ptr vf_get_pool
#define ABTI_pool_is_empty vf_pool_is_empty
#include "sched/sched.c"
#undef ABTI_pool_get_ptr
#undef ABTI_pool_is_empty
void h_has_unit_any(void)
{
    vf_ps = &PS; vf_pk = &PK; vf_k_visits = 0;
    { ABTI_pool a, b; PK = a; PS = b; } { int e; ek = e ? ABT_TRUE : ABT_FALSE; }
    size_t n; VF_ASSUME(n <= ((size_t)1 << 24)); ABT_pool *handles = malloc(n * sizeof(ABT_pool)); if (n && !handles) return;
    { size_t k; VF_ASSUME(k < n || n == 0); vf_k = k; }
    if (n) { hk = handles[vf_k]; VF_ASSUME(hk != ABT_POOL_NULL); } else hk = (ABT_pool)&PK; /* entries other than number vf_k may be the same pool again: harmless */
    VF_ASSUME(PK.access == ABT_POOL_ACCESS_PRIV || PK.access == ABT_POOL_ACCESS_SPSC || PK.access == ABT_POOL_ACCESS_MPSC || PK.access == ABT_POOL_ACCESS_SPMC || PK.access == ABT_POOL_ACCESS_MPMC);
    ABTI_sched s; s.num_pools = n; s.pools = handles;
    int32_t kb = PK.num_blocked.val, ks = PK.num_scheds.val; ABT_pool_access ka = PK.access;
    ABT_bool r = ABTI_sched_has_unit(&s);
    VF_ASSERT(r == ABT_TRUE || r == ABT_FALSE, "a Boolean");
    VF_ASSERT(PK.num_blocked.val == kb && PK.num_scheds.val == ks && PK.access == ka, "the check writes nothing");
    if (n > 0 && r == ABT_FALSE) {
        VF_ASSERT(vf_k_visits >= 1 && ek == ABT_TRUE, "NO only if pool number k (any k) was asked and reported empty");
        VF_ASSERT(!(ka == ABT_POOL_ACCESS_PRIV || ks == 1) || kb == 0, "... and, when this scheduler is the pool's only consumer, no blocked unit is owed to it");
    }
    if (n == 0) VF_ASSERT(r == ABT_FALSE, "a scheduler without pools has no unit");
    free(handles);
    VF_REACH("has_unit any"); VF_COVER(n > 5 && r == ABT_FALSE && vf_k == 3, "many pools, all idle"); VF_COVER(r == ABT_TRUE, "yes");
}
