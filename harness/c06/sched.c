/* C06: sched/sched.c -- the decision functions that let a stream stop. */
#include "vf.h"
#include "abti.h"
/* ghost: scripted answers of the shared reads */
uint32_t vf_req[3]; unsigned vf_req_loads; ABT_bool vf_hu[3]; unsigned vf_hu_calls; unsigned vf_clock, vf_t_req[3], vf_t_hu[3];
#ifdef VF_UNIT_STOP
static inline uint32_t ABTD_atomic_acquire_load_uint32(const ABTD_atomic_uint32 *ptr)
__CPROVER_requires(vf_req_loads < 2)
__CPROVER_assigns(vf_req_loads, vf_clock, __CPROVER_object_whole(vf_t_req))
__CPROVER_ensures(__CPROVER_return_value == vf_req[__CPROVER_old(vf_req_loads)] && vf_req_loads == __CPROVER_old(vf_req_loads) + 1 && vf_clock == __CPROVER_old(vf_clock) + 1 && vf_t_req[__CPROVER_old(vf_req_loads)] == vf_clock)
__CPROVER_ensures(__CPROVER_old(vf_req_loads) == 1 ==> vf_t_req[0] == __CPROVER_old(vf_t_req[0]));
ABT_bool ABTI_sched_has_unit(ABTI_sched *p_sched)
__CPROVER_requires(vf_hu_calls < 2)
__CPROVER_assigns(vf_hu_calls, vf_clock, __CPROVER_object_whole(vf_t_hu))
__CPROVER_ensures(__CPROVER_return_value == vf_hu[__CPROVER_old(vf_hu_calls)] && vf_hu_calls == __CPROVER_old(vf_hu_calls) + 1 && vf_clock == __CPROVER_old(vf_clock) + 1 && vf_t_hu[__CPROVER_old(vf_hu_calls)] == vf_clock)
__CPROVER_ensures(__CPROVER_old(vf_hu_calls) == 1 ==> vf_t_hu[0] == __CPROVER_old(vf_t_hu[0]));
#endif
#include "sched/sched.c"

#ifdef VF_UNIT_STOP
void h_has_to_stop(void)
{
    ABTI_sched s; vf_req_loads = 0; vf_hu_calls = 0; vf_clock = 1;
    VF_ASSUME((vf_hu[0] == ABT_TRUE || vf_hu[0] == ABT_FALSE) && (vf_hu[1] == ABT_TRUE || vf_hu[1] == ABT_FALSE));
    ABT_bool r = ABTI_sched_has_to_stop(&s);
    /* spec function of (EXIT bit, units now, FINISH|REPLACE bits, units at the re-check, IN_POOL) */
    ABT_bool want;
    if (vf_req[0] & ABTI_SCHED_REQ_EXIT) want = ABT_TRUE;
    else if (vf_hu[0]) want = ABT_FALSE;
    else if (vf_req[1] & (ABTI_SCHED_REQ_FINISH | ABTI_SCHED_REQ_REPLACE)) want = vf_hu[1] ? ABT_FALSE : ABT_TRUE;
    else want = (s.used == ABTI_SCHED_IN_POOL) ? ABT_TRUE : ABT_FALSE;
    VF_ASSERT(r == want, "stops iff EXIT, or (no unit AND a finish/replace request AND still no unit at the re-check), or an idle stacked scheduler");
    VF_ASSERT((r == ABT_TRUE && !(vf_req[0] & ABTI_SCHED_REQ_EXIT) && (vf_req[1] & (ABTI_SCHED_REQ_FINISH | ABTI_SCHED_REQ_REPLACE))) ==> (vf_hu_calls == 2 && vf_t_req[1] < vf_t_hu[1]),
              "the deciding emptiness check is made AFTER the request was read (a unit pushed before the finish request is never missed)");
    VF_ASSERT((vf_hu[0] == ABT_TRUE && !(vf_req[0] & ABTI_SCHED_REQ_EXIT)) ==> r == ABT_FALSE, "a scheduler that still has a unit (queued or blocked) does not stop on a finish request");
    VF_REACH("has_to_stop"); VF_COVER(r == ABT_TRUE && vf_hu_calls == 2, "finish"); VF_COVER(r == ABT_FALSE && vf_hu_calls == 2, "unit arrived before the re-check");
}
#endif
#ifdef VF_UNIT_HASUNIT
#define NP 4
static ABTI_pool pools[NP]; static ABT_bool empty_[NP];
static ABT_bool is_empty0(ABT_pool p) { return empty_[0]; } static ABT_bool is_empty1(ABT_pool p) { return empty_[1]; }
static ABT_bool is_empty2(ABT_pool p) { return empty_[2]; } static ABT_bool is_empty3(ABT_pool p) { return empty_[3]; }
void h_has_unit(void)
{
    ABTI_sched s; ABT_pool handles[NP]; size_t n; VF_ASSUME(n <= NP);
    { ABTI_pool nd[NP]; ABT_bool ne[NP]; for (int i = 0; i < NP; i++) { pools[i] = nd[i]; empty_[i] = ne[i]; } } /* statics are zero-initialised without DFCC: make them symbolic */
    pools[0].required_def.p_is_empty = is_empty0; pools[1].required_def.p_is_empty = is_empty1; pools[2].required_def.p_is_empty = is_empty2; pools[3].required_def.p_is_empty = is_empty3;
    for (int i = 0; i < NP; i++) { handles[i] = (ABT_pool)&pools[i]; VF_ASSUME(empty_[i] == ABT_TRUE || empty_[i] == ABT_FALSE);
        VF_ASSUME(pools[i].access == ABT_POOL_ACCESS_PRIV || pools[i].access == ABT_POOL_ACCESS_SPSC || pools[i].access == ABT_POOL_ACCESS_MPSC || pools[i].access == ABT_POOL_ACCESS_SPMC || pools[i].access == ABT_POOL_ACCESS_MPMC); }
    s.num_pools = n; s.pools = handles;
    ABT_bool r = ABTI_sched_has_unit(&s);
    ABT_bool want = ABT_FALSE;
    for (int i = 0; i < NP; i++) if ((size_t)i < n) {
        int counts_blocked = pools[i].access == ABT_POOL_ACCESS_PRIV || pools[i].num_scheds.val == 1; /* only this scheduler serves the pool */
        if (!empty_[i] || (counts_blocked && pools[i].num_blocked.val != 0)) want = ABT_TRUE;
    }
    VF_ASSERT(r == want, "has a unit iff some pool is non-empty, or some pool served only by this scheduler still has blocked units owed to it");
    VF_REACH("has_unit"); VF_COVER(r == ABT_TRUE && n == 4 && empty_[0] && empty_[1] && empty_[2] && empty_[3], "only blocked units"); VF_COVER(r == ABT_FALSE && n == 3, "nothing");
}
#endif
#ifdef VF_UNIT_FINISH
/* ABTI_sched_finish / ABTI_sched_exit: what xstream_join, ABT_finalize and
 * ABTI_xstream_check_events rely on -- exactly the FINISH (EXIT) bit is or-ed
 * into the scheduler's request word, other pending requests survive. */
void h_sched_finish_exit(void)
{
    ABTI_sched s; uint32_t r0 = s.request.val; int which;
    if (which) ABTI_sched_finish(&s); else ABTI_sched_exit(&s);
    VF_ASSERT(s.request.val == (r0 | (which ? ABTI_SCHED_REQ_FINISH : ABTI_SCHED_REQ_EXIT)), "exactly the FINISH / EXIT bit is added; pending requests are kept");
    VF_ASSERT(ABTI_SCHED_REQ_FINISH != ABTI_SCHED_REQ_EXIT && ABTI_SCHED_REQ_FINISH != 0 && (ABTI_SCHED_REQ_FINISH & ABTI_SCHED_REQ_EXIT) == 0, "distinct request bits");
    VF_REACH("finish/exit"); VF_COVER(which && r0 == ABTI_SCHED_REQ_REPLACE, "finish while a replacement is pending");
}
#endif
