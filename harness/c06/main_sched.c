/* C06/C01: thread.c -- thread_main_sched_func (the main-scheduler ULT) and
 * thread_root_func (the root ULT of a stream). */
#include "vf.h"
int vf_pending; const void *vf_pending_thread; unsigned vf_clock;
uint32_t vf_treq_last, vf_sreq_last; unsigned vf_t_treq, vf_t_sreq, vf_t_hu; int vf_hu_last, vf_hu_asked;
int vf_state_last; const void *vf_state_ptr; unsigned vf_t_state;
unsigned vf_runs, vf_resumes, vf_discards; const void *vf_resumed, *vf_discarded;
int vf_state_at_store; const void *vf_state_ptr_at_store;
unsigned vf_xstate_stores, vf_t_xstate; int vf_xstate_val; unsigned vf_exit_primary;
struct ABTI_sched; struct ABTI_ythread; struct ABTI_xstream;
struct ABTI_sched *vf_s1, *vf_s2; struct ABTI_ythread *vf_sy; struct ABTI_xstream *vf_xs; /* ghost names of the harness objects for the loop contract */
#include "abti.h"
#define POP_CONTRACT                                                                             \
    __CPROVER_requires(vf_pending == 0)                                                          \
    __CPROVER_assigns(vf_pending, vf_pending_thread)                                             \
    __CPROVER_ensures(__CPROVER_return_value == ABT_THREAD_NULL || ((uintptr_t)__CPROVER_return_value) >= 4096) \
    __CPROVER_ensures(__CPROVER_return_value == ABT_THREAD_NULL ? vf_pending == 0 : (vf_pending == 1 && vf_pending_thread == (void *)__CPROVER_return_value))
static inline ABT_thread ABTI_pool_pop(ABTI_pool *p_pool, ABT_pool_context context) POP_CONTRACT;
static inline void ABTI_ythread_schedule(ABTI_global *g, ABTI_xstream **pp, ABTI_thread *p_thread)
__CPROVER_requires(vf_pending == 1 && vf_pending_thread == (void *)p_thread)
__CPROVER_assigns(vf_pending) __CPROVER_ensures(vf_pending == 0);
ABT_bool ABTI_sched_has_unit(ABTI_sched *p_sched)
__CPROVER_assigns(vf_hu_last, vf_hu_asked, vf_clock, vf_t_hu)
__CPROVER_ensures((__CPROVER_return_value == ABT_TRUE || __CPROVER_return_value == ABT_FALSE) && vf_hu_last == (int)__CPROVER_return_value && vf_hu_asked == 1 && vf_clock == __CPROVER_old(vf_clock) + 1 && vf_t_hu == vf_clock);
static inline uint32_t ABTD_atomic_acquire_load_uint32(const ABTD_atomic_uint32 *ptr)
__CPROVER_assigns(vf_treq_last, vf_clock, vf_t_treq) __CPROVER_ensures(vf_treq_last == __CPROVER_return_value && vf_clock == __CPROVER_old(vf_clock) + 1 && vf_t_treq == vf_clock);
static inline uint32_t ABTD_atomic_relaxed_load_uint32(const ABTD_atomic_uint32 *ptr)
__CPROVER_assigns(vf_sreq_last, vf_clock, vf_t_sreq) __CPROVER_ensures((__CPROVER_return_value & ABTI_SCHED_REQ_REPLACE) == 0) /* scheduler replacement is C17's unit */ __CPROVER_ensures(vf_sreq_last == __CPROVER_return_value && vf_clock == __CPROVER_old(vf_clock) + 1 && vf_t_sreq == vf_clock);
static inline int ABTD_atomic_acquire_load_int(const ABTD_atomic_int *ptr)
__CPROVER_assigns(vf_state_last, vf_state_ptr, vf_clock, vf_t_state) __CPROVER_ensures(vf_state_last == __CPROVER_return_value && vf_state_ptr == ptr && vf_clock == __CPROVER_old(vf_clock) + 1 && vf_t_state == vf_clock);
static inline void ABTD_atomic_release_store_int(ABTD_atomic_int *ptr, int val)
__CPROVER_assigns(vf_xstate_stores, vf_t_xstate, vf_xstate_val, vf_clock, vf_state_at_store, vf_state_ptr_at_store) __CPROVER_ensures(vf_state_at_store == vf_state_last && vf_state_ptr_at_store == vf_state_ptr) __CPROVER_ensures(vf_xstate_stores == __CPROVER_old(vf_xstate_stores) + 1 && vf_xstate_val == val && vf_clock == __CPROVER_old(vf_clock) + 1 && vf_t_xstate == vf_clock);
static inline void ABTI_ythread_resume_and_push(ABTI_local *l, ABTI_ythread *y)
__CPROVER_assigns(vf_resumes, vf_resumed) __CPROVER_ensures(vf_resumes == __CPROVER_old(vf_resumes) + 1 && vf_resumed == y);
static inline void ABTI_ythread_exit_to_primary(ABTI_global *g, ABTI_xstream *x, ABTI_ythread *p_self)
__CPROVER_assigns(vf_exit_primary) __CPROVER_ensures(vf_exit_primary == __CPROVER_old(vf_exit_primary) + 1);
#include <thread.c>
void ABTI_sched_discard_and_free(ABTI_global *g, ABTI_local *l, ABTI_sched *s, ABT_bool force) { vf_discards++; vf_discarded = s; }
ABTI_local *vf_get_local_uninlined(void) { return lp_ABTI_local; }
ABTI_global *gp_ABTI_global; static ABTI_global glob; static ABTI_xstream xs; static ABTI_sched s1, s2; static ABTI_ythread sy, waiter, root_y; static ABTI_pool root_pool;
static void run_stub(ABT_sched s) { vf_runs++; }

void h_main_sched_func(void)
{
    gp_ABTI_global = &glob; lp_ABTI_local = (ABTI_local *)&xs; gp_ABTI_local_func.get_local_f = vf_get_local_uninlined;
    xs.p_main_sched = &s1; s1.p_ythread = &sy; xs.p_thread = &sy.thread; s1.run = run_stub; s2.run = run_stub; s1.p_replace_sched = &s2; s1.p_replace_waiter = &waiter; s2.p_replace_sched = &s1; s2.p_replace_waiter = &waiter;
    vf_hu_asked = 0; vf_runs = 0; vf_clock = 1; vf_s1 = &s1; vf_s2 = &s2; vf_sy = &sy; vf_xs = &xs;
    thread_main_sched_func(NULL);
    VF_ASSERT((vf_treq_last & ABTI_THREAD_REQ_CANCEL) || ((vf_sreq_last & ABTI_SCHED_REQ_FINISH) && vf_hu_asked && vf_hu_last == ABT_FALSE),
              "the main-scheduler ULT finishes only on a cancel/exit request, or on a finish request AND after ABTI_sched_has_unit (asked after reading the request) said no unit is left, queued or blocked");
    VF_REACH("main sched func returns");
}
void h_root_func(void)
{
    gp_ABTI_global = &glob; lp_ABTI_local = (ABTI_local *)&xs;
    xs.p_main_sched = &s1; s1.p_ythread = &sy; xs.p_root_ythread = &root_y; xs.p_root_pool = &root_pool; xs.state.val = ABT_XSTREAM_STATE_RUNNING;
    { int pr; xs.type = pr ? ABTI_XSTREAM_TYPE_PRIMARY : ABTI_XSTREAM_TYPE_SECONDARY; }
    vf_pending = 0; vf_xstate_stores = 0; vf_exit_primary = 0; vf_clock = 1;
    thread_root_func(NULL);
    VF_ASSERT(vf_pending == 0, "the root ULT never drops a popped main-scheduler ULT");
    VF_ASSERT(vf_state_ptr == &sy.thread.state && vf_state_last == ABT_THREAD_STATE_TERMINATED, "the root ULT stops only after acquire-loading the main-scheduler ULT's state as TERMINATED");
    VF_ASSERT(vf_xstate_stores == 1 && vf_xstate_val == ABT_XSTREAM_STATE_TERMINATED && vf_state_at_store == ABT_THREAD_STATE_TERMINATED && vf_state_ptr_at_store == &sy.thread.state, "only then the stream is marked TERMINATED (release store), exactly once");
    VF_ASSERT(vf_exit_primary == (xs.type == ABTI_XSTREAM_TYPE_PRIMARY ? 1 : 0), "the primary stream's root ULT hands control back to the primary ULT");
    VF_REACH("root func returns");
}
