/* C01/C06: the run loops of the predefined schedulers.  Obligation: every work
 * unit handed out by a pop is passed to ABTI_ythread_schedule exactly once
 * before the next pop / stop test / return ("popped but unscheduled" is never
 * carried over), and (basic, prio, randws) the loop is left only after
 * ABTI_sched_has_to_stop answered TRUE.  Loops carry loop contracts over ghost
 * state only, so any number of iterations is covered. */
#include "vf.h"
int vf_pending; const void *vf_pending_thread; unsigned vf_scheds_; int vf_stop_last; int vf_stop_asked;
#include "abti.h"
#define POP_CONTRACT                                                                             \
    __CPROVER_requires(vf_pending == 0) /* nothing popped is still unscheduled */                \
    __CPROVER_assigns(vf_pending, vf_pending_thread)                                             \
    /* a handle handed out by a pool names a real descriptor (not one of the ABT_*_NULL constants of the first page): A9 */ \
    __CPROVER_ensures(__CPROVER_return_value == ABT_THREAD_NULL || ((uintptr_t)__CPROVER_return_value) >= 4096) \
    __CPROVER_ensures(__CPROVER_return_value == ABT_THREAD_NULL ? vf_pending == 0 : (vf_pending == 1 && vf_pending_thread == (void *)__CPROVER_return_value))
static inline ABT_thread ABTI_pool_pop(ABTI_pool *p_pool, ABT_pool_context context) POP_CONTRACT;
static inline ABT_thread ABTI_pool_pop_wait(ABTI_pool *p_pool, double t, ABT_pool_context context) POP_CONTRACT;
static inline ABT_thread ABTI_pool_pop_timedwait(ABTI_pool *p_pool, double t) POP_CONTRACT;
static inline void ABTI_ythread_schedule(ABTI_global *g, ABTI_xstream **pp, ABTI_thread *p_thread)
__CPROVER_requires(vf_pending == 1 && vf_pending_thread == (void *)p_thread) /* exactly the unit just popped */
__CPROVER_assigns(vf_pending, vf_scheds_) __CPROVER_ensures(vf_pending == 0);
ABT_bool ABTI_sched_has_to_stop(ABTI_sched *p_sched)
__CPROVER_requires(vf_pending == 0)
__CPROVER_assigns(vf_stop_last, vf_stop_asked)
__CPROVER_ensures((__CPROVER_return_value == ABT_TRUE || __CPROVER_return_value == ABT_FALSE) && vf_stop_last == (int)__CPROVER_return_value && vf_stop_asked == 1);
void ABTI_xstream_check_events(ABTI_xstream *x, ABTI_sched *s) __CPROVER_assigns() __CPROVER_ensures(1);
static inline double ABTI_get_wtime(void) __CPROVER_assigns() __CPROVER_ensures(1);
#include VF_SCHED_FILE

ABTI_global *gp_ABTI_global; static ABTI_global glob; static ABTI_xstream xs; static ABTI_pool p0;
void h_sched_run(void)
{
    gp_ABTI_global = &glob; lp_ABTI_local = (ABTI_local *)&xs;
    ABTI_sched s; sched_data d; ABT_pool arr[3]; int n; VF_ASSUME(0 <= n && n <= 3);
    arr[0] = (ABT_pool)&p0; /* basic_wait looks at the first pool's optional functions */
    d.num_pools = n; d.pools = arr; s.data = &d; s.num_pools = n; /* sched_init keeps both counts equal */
    vf_pending = 0; vf_stop_asked = 0; vf_stop_last = 0;
    sched_run((ABT_sched)&s);
    VF_ASSERT(vf_pending == 0, "no popped unit is left unscheduled when the scheduler returns");
#ifndef VF_WAIT_SCHED
    VF_ASSERT(n == 0 || (vf_stop_asked && vf_stop_last == ABT_TRUE), "the scheduler returns only after ABTI_sched_has_to_stop answered TRUE");
#endif
    VF_REACH("sched_run returns");
}
