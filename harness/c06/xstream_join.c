/* C06: stream.c -- ABT_xstream_join / ABT_xstream_free: the stream is asked to
 * finish, its main-scheduler ULT is joined (C03: returns only when TERMINATED),
 * then the native thread is joined -- in this order, each once; the primary
 * stream and "the main scheduler joining itself" are rejected with nothing done. */
#include "vf.h"
#include "abti.h"
unsigned vf_clock, vf_t_join, vf_t_ctxjoin, vf_joins, vf_ctxjoins, vf_xfrees; const void *vf_join_thread, *vf_ctxjoin_ctx, *vf_xfree_x;
void ABTI_thread_join(ABTI_local **pp_local, ABTI_thread *p_thread) { vf_joins++; vf_clock++; vf_t_join = vf_clock; vf_join_thread = p_thread; }
void ABTD_xstream_context_join(ABTD_xstream_context *p_ctx) { vf_ctxjoins++; vf_clock++; vf_t_ctxjoin = vf_clock; vf_ctxjoin_ctx = p_ctx; }
unsigned vf_finishes, vf_t_finish; const void *vf_finish_sched;
void ABTI_sched_finish(ABTI_sched *s) { vf_finishes++; vf_clock++; vf_t_finish = vf_clock; vf_finish_sched = s; }
#include <stream.c>
static ABTI_xstream tgt, me_xs; static ABTI_sched msched; static ABTI_ythread sched_y, me_y; static ABTI_global glob; ABTI_global *gp_ABTI_global;
static unsigned t_finish_seen;
static void setup(void)
{
    gp_ABTI_global = &glob; tgt.p_main_sched = &msched; msched.p_ythread = &sched_y; vf_joins = 0; vf_ctxjoins = 0; vf_finishes = 0; vf_clock = 1; msched.request.val = 0;
    tgt.state.val = ABT_XSTREAM_STATE_TERMINATED; /* what the joins establish (asserted by the code itself) */
    int ck; if (ck) { lp_ABTI_local = (ABTI_local *)&me_xs; int self_sched; me_xs.p_thread = self_sched ? &sched_y.thread : &me_y.thread; } else lp_ABTI_local = NULL;
    { int ty; tgt.type = ty ? ABTI_XSTREAM_TYPE_SECONDARY : ABTI_XSTREAM_TYPE_PRIMARY; }
}
void h_xstream_join(void)
{
    setup();
    int r = ABT_xstream_join((ABT_xstream)&tgt);
    int self_join = lp_ABTI_local && me_xs.p_thread == &sched_y.thread;
    if (tgt.type == ABTI_XSTREAM_TYPE_PRIMARY || self_join) {
        VF_ASSERT(r == ABT_ERR_INV_XSTREAM && vf_joins == 0 && vf_ctxjoins == 0 && vf_finishes == 0, "primary stream / main scheduler joining itself: rejected, nothing requested");
    } else {
        VF_ASSERT(r == ABT_SUCCESS && vf_finishes == 1 && vf_finish_sched == &msched && vf_t_finish < vf_t_join, "the main scheduler is asked to finish (after its work is done) exactly once, before the join");
        VF_ASSERT(vf_joins == 1 && vf_join_thread == &sched_y.thread && vf_ctxjoins == 1 && vf_ctxjoin_ctx == &tgt.ctx && vf_t_join < vf_t_ctxjoin, "then its ULT is joined, then the native thread: each exactly once, in this order");
    }
    VF_ASSERT(ABT_xstream_join(ABT_XSTREAM_NULL) == ABT_ERR_INV_XSTREAM, "NULL handle");
    VF_REACH("xstream_join"); VF_COVER(r == ABT_SUCCESS, "joined"); VF_COVER(self_join, "self join");
}
