/* C06: stream.c -- ABT_xstream_join / ABT_xstream_free: the stream is asked to
 * finish, its main-scheduler ULT is joined (C03: returns only when TERMINATED),
 * then the native thread is joined -- in this order, each once; the primary
 * stream and "the main scheduler joining itself" are rejected with nothing done. */
#include "vf.h"
#include "abti.h"
unsigned vf_clock, vf_t_join, vf_t_ctxjoin, vf_joins, vf_ctxjoins, vf_xfrees; const void *vf_join_thread, *vf_ctxjoin_ctx, *vf_xfree_x;
void ABTI_thread_join(ABTI_local **pp_local, ABTI_thread *p_thread) { vf_joins++; vf_clock++; vf_t_join = vf_clock; vf_join_thread = p_thread; }
void ABTD_xstream_context_join(ABTD_xstream_context *p_ctx) { vf_ctxjoins++; vf_clock++; vf_t_ctxjoin = vf_clock; vf_ctxjoin_ctx = p_ctx; }
unsigned vf_finishes, vf_t_finish; const void *vf_finish_sched;
void ABTI_sched_finish(ABTI_sched *s) { vf_finishes++; vf_clock++; vf_t_finish = vf_clock; vf_finish_sched = s; }
#include <stream.c>
static ABTI_xstream tgt, me_xs; static ABTI_sched msched; static ABTI_ythread sched_y, me_y; static ABTI_global glob; ABTI_global *gp_ABTI_global;
static unsigned t_finish_seen;
static void setup(void)
{
    gp_ABTI_global = &glob; tgt.p_main_sched = &msched; msched.p_ythread = &sched_y; vf_joins = 0; vf_ctxjoins = 0; vf_finishes = 0; vf_clock = 1; msched.request.val = 0;
    tgt.state.val = ABT_XSTREAM_STATE_TERMINATED; /* what the joins establish (asserted by the code itself) */
    int ck; if (ck) { lp_ABTI_local = (ABTI_local *)&me_xs; int self_sched; me_xs.p_thread = self_sched ? &sched_y.thread : &me_y.thread; } else lp_ABTI_local = NULL;
    { int ty; tgt.type = ty ? ABTI_XSTREAM_TYPE_SECONDARY : ABTI_XSTREAM_TYPE_PRIMARY; }
}
void h_xstream_join(void)
{
    setup();
    int r = ABT_xstream_join((ABT_xstream)&tgt);
    int self_join = lp_ABTI_local && me_xs.p_thread == &sched_y.thread;
    if (tgt.type == ABTI_XSTREAM_TYPE_PRIMARY || self_join) {
        VF_ASSERT(r == ABT_ERR_INV_XSTREAM && vf_joins == 0 && vf_ctxjoins == 0 && vf_finishes == 0, "primary stream / main scheduler joining itself: rejected, nothing requested");
    } else {
        VF_ASSERT(r == ABT_SUCCESS && vf_finishes == 1 && vf_finish_sched == &msched && vf_t_finish < vf_t_join, "the main scheduler is asked to finish (after its work is done) exactly once, before the join");
        VF_ASSERT(vf_joins == 1 && vf_join_thread == &sched_y.thread && vf_ctxjoins == 1 && vf_ctxjoin_ctx == &tgt.ctx && vf_t_join < vf_t_ctxjoin, "then its ULT is joined, then the native thread: each exactly once, in this order");
    }
    VF_ASSERT(ABT_xstream_join(ABT_XSTREAM_NULL) == ABT_ERR_INV_XSTREAM, "NULL handle");
    VF_REACH("xstream_join"); VF_COVER(r == ABT_SUCCESS, "joined"); VF_COVER(self_join, "self join");
}

/* ABT_xstream_free / ABTI_xstream_free: nothing of the stream is released before
 * it has been joined (C06: free waits for all work), everything is released
 * exactly once afterwards, the stream leaves the global rank list (C17: its rank
 * can be reused), the handle is reset; the caller's own stream and the primary
 * stream are refused untouched.  ABT_xstream_cancel / ABT_xstream_exit raise the
 * CANCEL request on the stream's main scheduler (primary refused). */
static unsigned n_memfin, n_schedfree, n_rootfree, n_poolfree, n_ctxfree, t_first_release; static const void *a_memfin, *a_sched, *a_root, *a_pool, *a_ctx; static ABT_bool a_force; static int listed_at_release;
#define REL() do { vf_clock++; if (!t_first_release) t_first_release = vf_clock; } while (0)
void ABTI_mem_finalize_local(ABTI_xstream *x) { n_memfin++; a_memfin = x; REL(); }
void ABTI_sched_discard_and_free(ABTI_global *g, ABTI_local *l, ABTI_sched *s, ABT_bool force) { n_schedfree++; a_sched = s; a_force = force; REL(); }
void ABTI_ythread_free_root(ABTI_global *g, ABTI_local *l, ABTI_ythread *y) { n_rootfree++; a_root = y; REL(); }
void ABTI_pool_free(ABTI_pool *p) { n_poolfree++; a_pool = p; REL(); }
void ABTD_xstream_context_free(ABTD_xstream_context *c) { n_ctxfree++; a_ctx = c; REL(); }
static ABTI_ythread rooty; static ABTI_pool rootpool; static ABTI_xstream other;
void h_xstream_free(void)
{
    setup(); n_memfin = n_schedfree = n_rootfree = n_poolfree = n_ctxfree = 0; t_first_release = 0;
    ABTI_xstream *x = malloc(sizeof *x); if (!x) return; *x = tgt; x->p_root_ythread = &rooty; x->p_root_pool = &rootpool; ABTD_xstream_context *ctxp = &x->ctx;
    /* the global rank list: [x] or [other, x] */
    int two; if (two) { glob.p_xstream_head = &other; other.p_prev = NULL; other.p_next = x; x->p_prev = &other; x->p_next = NULL; glob.num_xstreams = 2; } else { glob.p_xstream_head = x; x->p_prev = NULL; x->p_next = NULL; glob.num_xstreams = 1; }
    glob.xstream_list_lock.val.val = 0;
    int which; VF_ASSUME(0 <= which && which <= 2); /* 0 the stream, 1 NULL handle, 2 the caller's own stream */
    if (which == 2) { lp_ABTI_local = (ABTI_local *)x; x->p_thread = &me_y.thread; }
    ABT_xstream h = which == 1 ? ABT_XSTREAM_NULL : (ABT_xstream)x; ABT_xstream h0 = h;
    int self_join = which == 0 && lp_ABTI_local && me_xs.p_thread == &sched_y.thread;
    int prim = x->type == ABTI_XSTREAM_TYPE_PRIMARY;
    int r = ABT_xstream_free(&h);
    if (which != 0 || prim || self_join) {
        /* x is still allocated on these paths */
        VF_ASSERT(r == ABT_ERR_INV_XSTREAM && h == h0 && vf_joins == 0 && vf_ctxjoins == 0 && n_memfin + n_schedfree + n_rootfree + n_poolfree + n_ctxfree == 0 && glob.num_xstreams == (two ? 2 : 1), "NULL handle, the caller's own stream, the primary stream (and a main scheduler freeing its own stream): refused, nothing joined, nothing released, still listed, handle unchanged");
        free(x); VF_REACH("free refused"); return;
    }
    VF_ASSERT(r == ABT_SUCCESS && h == ABT_XSTREAM_NULL, "success: handle reset");
    VF_ASSERT(vf_finishes == 1 && vf_joins == 1 && vf_join_thread == &sched_y.thread && vf_ctxjoins == 1 && vf_ctxjoin_ctx == ctxp && vf_t_finish < vf_t_join && vf_t_join < vf_t_ctxjoin && vf_t_ctxjoin < t_first_release, "joined first (finish request, main-scheduler ULT, native thread), and only then is anything released");
    VF_ASSERT(n_memfin == 1 && a_memfin == x && n_schedfree == 1 && a_sched == &msched && a_force == ABT_FALSE && n_rootfree == 1 && a_root == &rooty && n_poolfree == 1 && a_pool == &rootpool && n_ctxfree == 1 && a_ctx == ctxp, "its memory pools, main scheduler (not forced: a user's scheduler survives), root ULT, root pool and native context are released exactly once each");
    VF_ASSERT(glob.num_xstreams == (two ? 1 : 0) && glob.p_xstream_head == (two ? &other : NULL) && (!two || other.p_next == NULL) && glob.xstream_list_lock.val.val == 0, "the stream left the global rank list (its rank is free again), the list lock is free");
    VF_REACH("freed"); /* --memory-leak-check: the descriptor itself is released (exactly once: double free is a CBMC check) */
}
void h_xstream_cancel(void)
{
    setup(); int nullh; uint32_t rq0; sched_y.thread.request.val = rq0;
    int r = ABT_xstream_cancel(nullh ? ABT_XSTREAM_NULL : (ABT_xstream)&tgt);
    if (nullh || tgt.type == ABTI_XSTREAM_TYPE_PRIMARY) VF_ASSERT(r == ABT_ERR_INV_XSTREAM && sched_y.thread.request.val == rq0, "NULL handle / the primary stream: refused, no request raised");
    else VF_ASSERT(r == ABT_SUCCESS && sched_y.thread.request.val == (rq0 | ABTI_THREAD_REQ_CANCEL), "the CANCEL request is raised on the stream's main-scheduler ULT, no other bit changes");
    VF_REACH("cancel");
}
