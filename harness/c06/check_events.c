/* C06: stream.c -- ABTI_xstream_check_events: the event check every scheduler
 * makes between units.  A join request lives on the main scheduler's ULT
 * (thread.request & REQ_JOIN), which is handed from scheduler to scheduler when
 * the main scheduler is replaced; it must be turned into a FINISH request on
 * the scheduler that is running NOW, otherwise a stream whose scheduler was
 * replaced after the join call never stops.  Likewise CANCEL -> EXIT. */
#include "vf.h"
#include "abti.h"
uint32_t vf_req; unsigned vf_loads; const void *vf_load_ptr;
unsigned vf_finishes, vf_exits; const void *vf_finish_sched, *vf_exit_sched;
static inline uint32_t ABTD_atomic_acquire_load_uint32(const ABTD_atomic_uint32 *ptr)
__CPROVER_assigns(vf_loads, vf_load_ptr)
__CPROVER_ensures(__CPROVER_return_value == vf_req && vf_loads == __CPROVER_old(vf_loads) + 1 && vf_load_ptr == ptr);
void ABTI_sched_finish(ABTI_sched *s) { vf_finishes++; vf_finish_sched = s; }
void ABTI_sched_exit(ABTI_sched *s) { vf_exits++; vf_exit_sched = s; }
void ABTI_info_check_print_all_thread_stacks(void) {}
#include <stream.c>
static ABTI_xstream xs; static ABTI_sched main_sched, cur_sched; static ABTI_ythread sched_y;
ABTI_global *gp_ABTI_global;
void h_check_events(void)
{
    xs.p_main_sched = &main_sched; main_sched.p_ythread = &sched_y; vf_loads = 0; vf_finishes = 0; vf_exits = 0;
    int same; ABTI_sched *running = same ? &main_sched : &cur_sched; /* the running scheduler may be a stacked one */
    ABTI_xstream_check_events(&xs, running);
    VF_ASSERT(vf_loads == 1 && vf_load_ptr == &sched_y.thread.request, "the request word of the main scheduler's ULT is acquire-loaded once");
    VF_ASSERT(vf_finishes == ((vf_req & ABTI_THREAD_REQ_JOIN) ? 1 : 0) && (vf_finishes == 0 || vf_finish_sched == running),
              "a join request pending on the main scheduler's ULT is passed on as a finish request to the scheduler that is running now (exactly once), and only then");
    VF_ASSERT(vf_exits == ((vf_req & ABTI_THREAD_REQ_CANCEL) ? 1 : 0) && (vf_exits == 0 || vf_exit_sched == running),
              "a cancel request is passed on as an exit request to the running scheduler, and only then");
    VF_REACH("check_events returns"); VF_COVER(vf_finishes == 1 && vf_exits == 0, "join only"); VF_COVER(vf_finishes == 1 && vf_exits == 1, "both"); VF_COVER(vf_finishes == 0 && vf_exits == 0, "none");
}
