/* C10: rwlock.c under the monitor rule.  Invariant of p_rwlock->mutex:
 *   write_flag in {0,1}  and  (write_flag == 1  =>  reader_count == 0).
 * reader_count = number of readers inside, write_flag = a writer is inside. */
#include "vf.h"
#include "abti.h"
ABTI_rwlock *vf_rw; /* ghost: the lock under test */
size_t vf_rc_at_lock; int vf_wf_at_lock; /* ghost: protected state seen right after the (first) lock */
int vf_caller_holds; /* ghost: the API precondition of unlock (caller is inside) is in force */
#define VF_MON_INV ((vf_rw->write_flag == 0 || vf_rw->write_flag == 1) && (vf_rw->write_flag == 1 ? vf_rw->reader_count == 0 : 1))
/* A9: fewer than 10^6 readers; unlock is called by a thread that is inside */
#define VF_MON_ENV (vf_rw->reader_count < 1000000 && (vf_caller_holds ? (vf_rw->write_flag == 1 || vf_rw->reader_count > 0) : 1))
#define VF_MON_HAVOC vf_rw->reader_count, vf_rw->write_flag
#define VF_MON_LOCK_GHOST vf_rc_at_lock, vf_wf_at_lock
#define VF_MON_LOCK_POST (vf_rc_at_lock == vf_rw->reader_count && vf_wf_at_lock == vf_rw->write_flag)
#include "contracts/monitor_thin.h"
/* not used by the unmodified rwlock.c; present so that code that starts using
 * them is still analysable (spin loops never terminate under symbolic locks) */
#include "env/spinlock.h"
#include "contracts/waitlist_thin.h"
#include <rwlock.c>

static ABTI_rwlock rw; static int vf_kind;
static void setup(void)
{
    vf_rw = &rw;
    vf_mon_held = 0; vf_mon_waited = 0; vf_caller_holds = 0;
    /* caller: an external thread, a ULT, or a tasklet (rdlock/wrlock refuse tasklets under the 1.x API) */
    { static ABTI_xstream cxs; static ABTI_thread cth; int kind; VF_ASSUME(0 <= kind && kind <= 2); vf_kind = kind; cxs.p_thread = &cth; cth.type = (kind == 1) ? ABTI_THREAD_TYPE_YIELDABLE : 0; lp_ABTI_local = kind == 0 ? NULL : (ABTI_local *)&cxs; }
    VF_ASSUME(vf_mon_locks < 100 && vf_mon_unlocks < 100 && vf_mon_cwaits < 100 && vf_mon_bcasts < 100 && vf_mon_clock < 100);
}

void h_rdlock(void)
{
    setup();
    unsigned w0 = vf_mon_cwaits, l0 = vf_mon_locks, u0 = vf_mon_unlocks;
    size_t rc0 = rw.reader_count; int wf0 = rw.write_flag;
    int r = ABT_rwlock_rdlock((ABT_rwlock)&rw);
    if (vf_kind == 2) { VF_ASSERT(r == ABT_ERR_RWLOCK && vf_mon_held == 0 && vf_mon_locks == l0 && vf_mon_unlocks == u0 && rw.reader_count == rc0 && rw.write_flag == wf0, "a tasklet may not block on the lock: refused with nothing taken and nothing changed"); VF_REACH("rdlock refused"); return; }
    VF_ASSERT(vf_mon_held == 0 && vf_mon_locks == l0 + 1 && vf_mon_unlocks == u0 + 1 && vf_mon_mutex == &rw.mutex, "monitor mutex taken and released exactly once");
    /* readers shared: a reader is not blocked when no writer is inside */
    VF_ASSERT(vf_wf_at_lock == 0 ==> (r == ABT_SUCCESS && vf_mon_waited == 0), "no writer inside => the reader enters without waiting");
    VF_ASSERT(r == ABT_SUCCESS || r == ABT_ERR_INV_MUTEX, "return codes");
    if (r == ABT_SUCCESS) {
        VF_ASSERT(rw.write_flag == 0 && rw.reader_count >= 1, "success: counted as a reader in a state without writer");
        VF_ASSERT(vf_mon_waited == 0 ==> rw.reader_count == vf_rc_at_lock + 1, "exactly one more reader");
    }
    VF_REACH("rdlock returns");
    VF_COVER(r == ABT_SUCCESS && vf_mon_waited == 1, "waited for a writer");
    VF_COVER(r == ABT_SUCCESS && vf_mon_waited == 0 && vf_rc_at_lock > 2, "joined other readers");
    VF_COVER(r != ABT_SUCCESS, "cond_wait error");
}

void h_wrlock(void)
{
    setup();
    unsigned w0 = vf_mon_cwaits, l0 = vf_mon_locks, u0 = vf_mon_unlocks;
    size_t rc0 = rw.reader_count; int wf0 = rw.write_flag;
    int r = ABT_rwlock_wrlock((ABT_rwlock)&rw);
    if (vf_kind == 2) { VF_ASSERT(r == ABT_ERR_RWLOCK && vf_mon_held == 0 && vf_mon_locks == l0 && vf_mon_unlocks == u0 && rw.reader_count == rc0 && rw.write_flag == wf0, "a tasklet may not block on the lock: refused with nothing taken and nothing changed"); VF_REACH("wrlock refused"); return; }
    VF_ASSERT(vf_mon_held == 0 && vf_mon_locks == l0 + 1 && vf_mon_unlocks == u0 + 1, "monitor mutex taken and released exactly once");
    VF_ASSERT((vf_wf_at_lock == 0 && vf_rc_at_lock == 0) ==> (r == ABT_SUCCESS && vf_mon_waited == 0), "free lock => the writer enters without waiting");
    if (r == ABT_SUCCESS)
        VF_ASSERT(rw.write_flag == 1 && rw.reader_count == 0, "success: writer inside, no reader inside");
    VF_REACH("wrlock returns");
    VF_COVER(r == ABT_SUCCESS && vf_mon_waited == 1, "waited");
    VF_COVER(r != ABT_SUCCESS, "cond_wait error");
}

void h_unlock(void)
{
    setup();
    unsigned b0 = vf_mon_bcasts, l0 = vf_mon_locks, u0 = vf_mon_unlocks;
    vf_caller_holds = 1; /* precondition of the API: the caller is inside, as reader or writer */
    VF_ASSUME(vf_kind != 2);
    int r = ABT_rwlock_unlock((ABT_rwlock)&rw);
    VF_ASSERT(r == ABT_SUCCESS && vf_mon_held == 0 && vf_mon_locks == l0 + 1 && vf_mon_unlocks == u0 + 1, "monitor mutex taken and released exactly once");
    VF_ASSERT(vf_wf_at_lock == 1 ? (rw.write_flag == 0 && rw.reader_count == 0) : (rw.write_flag == 0 && rw.reader_count == vf_rc_at_lock - 1), "writer leaves: flag cleared; reader leaves: count - 1");
    VF_ASSERT(vf_mon_bcasts == b0 + 1 && vf_t_mon_lock < vf_t_mon_bcast && vf_t_mon_bcast < vf_t_mon_unlock, "all waiters are woken (broadcast), under the mutex, exactly once");
    VF_REACH("unlock returns");
    VF_COVER(vf_wf_at_lock == 1, "writer unlock"); VF_COVER(vf_wf_at_lock == 0 && vf_rc_at_lock == 1, "last reader unlock");
}
void h_rwlock_null(void)
{
    VF_ASSERT(ABT_rwlock_rdlock(ABT_RWLOCK_NULL) == ABT_ERR_INV_RWLOCK && ABT_rwlock_wrlock(ABT_RWLOCK_NULL) == ABT_ERR_INV_RWLOCK && ABT_rwlock_unlock(ABT_RWLOCK_NULL) == ABT_ERR_INV_RWLOCK, "NULL handle rejected");
    VF_REACH("null");
}

/* a fresh lock is free: the monitor invariant holds from the first moment and nobody is inside (ABTU_malloc does not
 * zero memory: CBMC's malloc hands out arbitrary contents) */
void h_rwlock_create(void)
{
    ABT_rwlock h = (ABT_rwlock)0x55; vf_lock_held = 0; VF_ASSUME(vf_acquires < 100 && vf_releases < 100 && vf_clock < 100);
    int r = ABT_rwlock_create(&h);
    if (r != ABT_SUCCESS) { VF_ASSERT(r == ABT_ERR_MEM && h == ABT_RWLOCK_NULL, "failed creation: ABT_ERR_MEM and the NULL handle (1.x API)"); VF_REACH("create failed"); return; }
    ABTI_rwlock *p = ABTI_rwlock_get_ptr(h);
    VF_ASSERT(p != NULL && p->reader_count == 0 && p->write_flag == 0, "a fresh lock has no reader and no writer inside (otherwise the first locker waits for a holder that does not exist)");
    VF_ASSERT(p->mutex.lock.val.val == 0 && p->mutex.waiter_lock.val.val == 0 && p->mutex.waitlist.p_head == NULL && p->mutex.waitlist.p_tail == NULL && p->mutex.attrs == ABTI_MUTEX_ATTR_NONE, "its internal mutex is free, with no waiter");
    VF_ASSERT(p->cond.lock.val.val == 0 && p->cond.p_waiter_mutex == NULL && p->cond.waitlist.p_head == NULL && p->cond.waitlist.p_tail == NULL, "its condition variable has no waiter and no associated mutex yet");
    VF_ASSERT(sizeof(p->reader_count) >= sizeof(size_t), "the count of readers inside is as wide as size_t: it cannot wrap to 0 while readers are inside (each read hold needs a live caller)");
    r = ABT_rwlock_free(&h);
    VF_ASSERT(r == ABT_SUCCESS && h == ABT_RWLOCK_NULL, "free: released (CBMC: exactly once, no leak), handle reset");
    VF_REACH("create/free");
}
