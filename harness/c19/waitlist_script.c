/* C05/C19 (bounded): the REAL wait-list functions of abti_waitlist.h driven by
 * a symbolic script.  The header is included a second time with its callees
 * redirected by macros to C environment stubs (spinlock, clock, futex, yield,
 * resume); nothing of the verified text is dropped or retyped, only the named
 * callees are redirected:
 *    ABTD_spinlock_{acquire,release,is_locked}, ABTI_get_wtime,
 *    ABTD_futex_{wait,timedwait}_and_unlock, ABTD_futex_broadcast,
 *    ABTI_ythread_{yield,suspend_unlock,resume_and_push}
 * Scenario: a queue of 0..PRE earlier waiters of symbolic kinds (timed dummy,
 * untimed dummy, ULT); "me" calls the real wait (timed or untimed, as an
 * external thread or as a ULT); while me sleeps the environment performs up to
 * EV symbolic events under the lock (enqueue of a timed / untimed waiter, real
 * signal, real broadcast); the clock is symbolic.  After every step the real
 * list is compared with a reference sequence and the back-link invariant
 * ("a timed waiter that is not the head has p_prev == its predecessor") is
 * checked; at the end the return value is checked against deadline/READY. */
#include "vf.h"
#include "abti.h"

#ifndef PRE
#define PRE 2
#endif
#ifndef EV
#define EV 3
#endif
#define MAXN (PRE + EV + 1)

/* ---------------- environment state ---------------- */
static int lk_held;
static unsigned n_acq, n_rel;
static ABTD_spinlock lk;
static ABTI_waitlist wl;
static double now_, deadline_;
static int saw_deadline;           /* a clock reading >= deadline was returned */
static unsigned futex_bcasts;
static ABTI_thread *woken[MAXN + 2]; static int n_woken; /* ULTs resumed */
static ABTI_thread *ref[MAXN + 2]; static int n_ref;     /* reference queue */
static int is_timed[MAXN + 2];                             /* per ref entry */
static ABTI_thread *me_node;                               /* my node, once enqueued */
static int me_timed;
static ABTI_ythread other_ult[MAXN];
static ABTI_thread other_dummy[MAXN];
static int n_other;
static int events_left;
static int me_signalled;           /* env signalled/broadcast while me was queued */
static int me_pending;             /* the real wait has been called, my node not yet seen */
static int me_gone_early;          /* enqueued and unlinked inside one critical section */
static int me_unlinked;            /* my node left the queue by the time-out surgery */

static void env_event(void);
static void on_release(void);

static void vf_env_spin_acquire(ABTD_spinlock *p) { VF_ASSERT(p == &lk && !lk_held, "acquire: the list lock, not already held"); lk_held = 1; n_acq++; }
static void vf_env_spin_release(ABTD_spinlock *p)
{
    VF_ASSERT(p == &lk && lk_held, "release: the list lock, held");
    on_release(); /* the queue is consistent whenever the lock is released */
    lk_held = 0; n_rel++;
}
static ABT_bool vf_env_spin_is_locked(const ABTD_spinlock *p) { return lk_held ? ABT_TRUE : ABT_FALSE; }
static double vf_env_wtime(void)
{
    double d; VF_ASSUME(d >= now_ && d < 1e9);
    now_ = d; /* monotone, otherwise arbitrary */
    /* fairness of the environment (A11): once nothing else will happen and me
     * has not been signalled, time does pass */
    if (events_left == 0 && !me_signalled) VF_ASSUME(now_ >= deadline_);
    if (now_ >= deadline_) saw_deadline = 1;
    return now_;
}
static void env_run(void)
{
    /* other threads run only while the lock is free */
    VF_ASSERT(!lk_held, "me sleeps without holding the list lock");
    env_event(); events_left = 0;
    /* an untimed waiter that is never signalled sleeps for ever: no obligation */
    if (!me_timed && events_left == 0) VF_ASSUME(me_signalled);
}
static void vf_env_futex_wait(ABTD_futex_multiple *f, ABTD_spinlock *p) { vf_env_spin_release(p); env_run(); }
static void vf_env_futex_timedwait(ABTD_futex_multiple *f, ABTD_spinlock *p, double dt) { vf_env_spin_release(p); env_run(); }
static void vf_env_futex_broadcast(ABTD_futex_multiple *f) { VF_ASSERT(lk_held, "futex broadcast under the list lock"); futex_bcasts++; }
static ABTI_xstream xs2; /* the stream a ULT finds itself on after a context switch */
static int switched;
static void vf_env_yield(ABTI_xstream **pp, ABTI_ythread *self, ABTI_ythread_yield_kind k, ABT_sync_event_type t, void *s) { env_run(); *pp = &xs2; switched = 1; }
static int me_suspended;
static void vf_env_suspend_unlock(ABTI_xstream **pp, ABTI_ythread *self, ABTD_spinlock *p, ABT_sync_event_type t, void *s)
{
    /* the ULT is BLOCKED and the lock released atomically w.r.t. resumers (C02/C11) */
    self->thread.state.val = ABT_THREAD_STATE_BLOCKED;
    me_suspended = 1;
    vf_env_spin_release(p);
    env_run();
    /* a suspended ULT runs again only if it was resumed */
    int resumed = 0; for (int i = 0; i < n_woken; i++) if (woken[i] == &self->thread) resumed = 1;
    VF_ASSUME(resumed);
    *pp = &xs2; switched = 1; /* ... possibly on another execution stream */
}
static void vf_env_resume_and_push(ABTI_local *l, ABTI_ythread *y)
{
    VF_ASSERT(y->thread.state.val == ABT_THREAD_STATE_BLOCKED, "resume_and_push: target is BLOCKED");
    y->thread.state.val = ABT_THREAD_STATE_READY;
    woken[n_woken++] = &y->thread;
}

/* ---------------- second inclusion of the real header ---------------- */
#undef ABTI_WAITLIST_H_INCLUDED
#define ABTI_waitlist_init vf2_waitlist_init
#define ABTI_waitlist_wait_and_unlock vf2_waitlist_wait_and_unlock
#define ABTI_waitlist_wait_timedout_and_unlock vf2_waitlist_wait_timedout_and_unlock
#define ABTI_waitlist_signal vf2_waitlist_signal
#define ABTI_waitlist_broadcast vf2_waitlist_broadcast
#define ABTI_waitlist_is_empty vf2_waitlist_is_empty
#define ABTD_spinlock_acquire vf_env_spin_acquire
#define ABTD_spinlock_release vf_env_spin_release
#define ABTD_spinlock_is_locked vf_env_spin_is_locked
#define ABTI_get_wtime vf_env_wtime
#define ABTD_futex_wait_and_unlock vf_env_futex_wait
#define ABTD_futex_timedwait_and_unlock vf_env_futex_timedwait
#define ABTD_futex_broadcast vf_env_futex_broadcast
#define ABTI_ythread_yield vf_env_yield
#define ABTI_ythread_suspend_unlock vf_env_suspend_unlock
#define ABTI_ythread_resume_and_push vf_env_resume_and_push
#include "abti_waitlist.h" /* the real /repo/src/include/abti_waitlist.h */

/* ---------------- one-step environment ---------------- */
#ifndef NPRE
#define NPRE 2
#endif
static ABTI_thread *pre_node[2];
static int pre_timed[2];
static ABTI_thread *succ_node; static int succ_timed;
static int env_done, wake_kind; /* 0 none, 1 signal, 2 broadcast */
static ABTI_thread *old_tail;
static int n_signalled;      /* how many queue entries the env's signal/broadcast removed */

static ABTI_thread *mk_waiter(int kind, int slot)
{
    ABTI_thread *t;
    if (kind == 2) { other_ult[slot].thread.type = ABTI_THREAD_TYPE_YIELDABLE; other_ult[slot].thread.state.val = ABT_THREAD_STATE_BLOCKED; t = &other_ult[slot].thread; }
    else { other_dummy[slot].type = ABTI_THREAD_TYPE_EXT; other_dummy[slot].state.val = ABT_THREAD_STATE_BLOCKED; t = &other_dummy[slot]; }
    t->p_next = NULL;
    if (kind == 0) t->p_prev = wl.p_tail; /* timed waiters record their predecessor */
    if (wl.p_head == NULL) wl.p_head = t; else wl.p_tail->p_next = t;
    wl.p_tail = t;
    return t;
}

static void env_event(void)
{
    if (env_done) return;
    env_done = 1;
    /* learn my node: the real function must have linked it behind the old tail */
    me_node = wl.p_tail;
    VF_ASSERT(me_node != old_tail && me_node != NULL, "me was appended at the tail before sleeping");
    VF_ASSERT(old_tail ? old_tail->p_next == me_node : wl.p_head == me_node, "me is linked behind the previous tail (head if the queue was empty)");
    VF_ASSERT(me_node->p_next == NULL, "my forward link is NULL");
    if (me_timed) VF_ASSERT(me_node->p_prev == old_tail, "a timed waiter records its predecessor");
    vf_env_spin_acquire(&lk);
    /* another waiter arrives behind me */
    int sk; VF_ASSUME(-1 <= sk && sk <= 2);
    if (sk >= 0) { succ_node = mk_waiter(sk, 3); succ_timed = (sk == 0); }
    /* a signaller */
    int wk; VF_ASSUME(0 <= wk && wk <= 2); wake_kind = wk;
    int qlen = NPRE + 1 + (succ_node ? 1 : 0);
    if (wk == 1) {
        ABTI_thread *h = wl.p_head; int w0 = n_woken; unsigned f0 = futex_bcasts;
        vf2_waitlist_signal(NULL, &wl);
        n_signalled = 1;
        VF_ASSERT(h->p_next == NULL, "signalled node is unlinked");
        if (h->type & ABTI_THREAD_TYPE_YIELDABLE) VF_ASSERT(n_woken == w0 + 1 && woken[w0] == h, "signal resumes exactly the head ULT");
        else VF_ASSERT(h->state.val == ABT_THREAD_STATE_READY && futex_bcasts == f0 + 1 && n_woken == w0, "signal marks exactly the head dummy READY and rings the futex");
        if (h == me_node) me_signalled = 1;
    } else if (wk == 2) {
        vf2_waitlist_broadcast(NULL, &wl);
        n_signalled = qlen; me_signalled = 1;
        VF_ASSERT(wl.p_head == NULL && wl.p_tail == NULL, "broadcast empties the queue");
    }
    vf_env_spin_release(&lk);
}
static void on_release(void) {}
static void check_list(void) {}

static ABTI_xstream xs;
static ABTI_ythread self_ult;

/* a node counts as woken if it is a ULT that was resumed or a dummy marked READY */
static int is_woken(ABTI_thread *t)
{
    if (t->type & ABTI_THREAD_TYPE_YIELDABLE) { for (int i = 0; i < MAXN + 2; i++) if (i < n_woken && woken[i] == t) return 1; return 0; }
    return t->state.val == ABT_THREAD_STATE_READY;
}

void h_waitlist_script(void)
{
    wl.p_head = NULL; wl.p_tail = NULL; n_other = 0; n_woken = 0; lk_held = 0; me_node = NULL; env_done = 0; succ_node = NULL; n_signalled = 0; futex_bcasts = 0;
    for (int i = 0; i < NPRE; i++) { int kind; VF_ASSUME(0 <= kind && kind <= 2); pre_node[i] = mk_waiter(kind, i); pre_timed[i] = (kind == 0); }
    old_tail = wl.p_tail;
    { double t0, dl; VF_ASSUME(t0 >= 0.0 && t0 < 1e6 && dl >= 0.0 && dl < 1e9); now_ = t0; deadline_ = dl; }
    events_left = 1;
#ifdef VF_TIMED
    me_timed = VF_TIMED;
#else
    { int tm; VF_ASSUME(tm == 0 || tm == 1); me_timed = tm; }
#endif
    int as_ult; ABTI_local *p_local = NULL;
#ifdef VF_ULT
    as_ult = VF_ULT;
#endif
    if (as_ult) { xs.p_thread = &self_ult.thread; self_ult.thread.type = ABTI_THREAD_TYPE_YIELDABLE; self_ult.thread.state.val = ABT_THREAD_STATE_RUNNING; p_local = (ABTI_local *)&xs; }
    me_signalled = 0; saw_deadline = 0; switched = 0;
    vf_env_spin_acquire(&lk); /* the caller of wait holds the list lock */
    ABT_bool timedout = ABT_FALSE;
    if (me_timed) timedout = vf2_waitlist_wait_timedout_and_unlock(&p_local, &wl, &lk, deadline_, ABT_SYNC_EVENT_TYPE_COND, NULL);
    else vf2_waitlist_wait_and_unlock(&p_local, &wl, &lk, ABT_SYNC_EVENT_TYPE_COND, NULL);
    VF_ASSERT(!lk_held && n_rel == n_acq, "wait returns with the list lock released, every acquire matched");
    if (as_ult && switched) VF_ASSERT(p_local == (ABTI_local *)&xs2, "after a context switch the caller's local-stream pointer is refreshed (the ULT may resume on another stream)");
    if (!env_done) {
        /* never slept: only a timed waiter whose deadline had already passed */
        VF_ASSERT(me_timed && timedout && saw_deadline, "returns without sleeping only when the deadline had already passed");
        VF_ASSERT(wl.p_tail == old_tail && (old_tail ? old_tail->p_next == NULL : wl.p_head == NULL), "queue exactly as before");
#if !defined(VF_TIMED) || VF_TIMED == 1
        VF_REACH("returned without sleeping");
#endif
        return;
    }
    if (me_timed && timedout) {
        VF_ASSERT(saw_deadline, "ABT_TRUE (timed out) only after a clock reading >= the deadline");
        VF_ASSERT(!me_signalled, "a waiter that was signalled first never reports a time-out");
    } else {
        VF_ASSERT(me_signalled, "no spurious wake-up: wait returns (not timed out) only after me was signalled");
    }
    /* expected queue: [pre..., me, succ] minus the first n_signalled entries, minus me if it timed out */
    ABTI_thread *exp[4]; int ne = 0, tm[4];
    for (int i = 0; i < NPRE; i++) { exp[ne] = pre_node[i]; tm[ne] = pre_timed[i]; ne++; }
    exp[ne] = me_node; tm[ne] = me_timed; ne++;
    if (succ_node) { exp[ne] = succ_node; tm[ne] = succ_timed; ne++; }
    ABTI_thread *q[4]; int nq = 0, qt[4];
    for (int i = 0; i < 4; i++) if (i < ne && i >= n_signalled && !(exp[i] == me_node && timedout)) { q[nq] = exp[i]; qt[nq] = tm[i]; nq++; }
    ABTI_thread *p = wl.p_head, *prev = NULL;
    for (int i = 0; i < 4; i++) if (i < nq) {
        VF_ASSERT(p == q[i], "remaining waiters are queued in arrival order");
        if (qt[i] && i > 0) VF_ASSERT(p->p_prev == prev, "back link of a timed waiter names its current predecessor");
        VF_ASSERT(!is_woken(p), "a queued waiter has not been woken");
        prev = p; p = p->p_next;
    }
    VF_ASSERT(p == NULL && wl.p_tail == (nq ? q[nq - 1] : NULL) && (wl.p_head == NULL) == (nq == 0), "queue ends where it should; tail/head consistent");
    for (int i = 0; i < 4; i++) if (i < ne && i < n_signalled && exp[i] != me_node) VF_ASSERT(is_woken(exp[i]), "every signalled waiter was woken");
    /* a timed-out waiter does not consume a later signal */
    vf_env_spin_acquire(&lk);
    if (nq > 0) { vf2_waitlist_signal(NULL, &wl); VF_ASSERT(is_woken(q[0]) && wl.p_head == (nq > 1 ? q[1] : NULL), "a later signal wakes the current head"); }
    vf_env_spin_release(&lk);
    VF_REACH("script done");
#if !defined(VF_TIMED) || VF_TIMED == 1
    VF_COVER(timedout && succ_node && succ_timed, "timed out with a timed successor");
    VF_COVER(timedout && !succ_node, "timed out as the last waiter");
    VF_COVER(!timedout, "timed wait signalled first");
#else
#if NPRE == 0
    VF_COVER(wake_kind == 1, "woken by signal");
#endif
    VF_COVER(wake_kind == 2, "woken by broadcast");
#endif
}
