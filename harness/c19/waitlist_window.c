/* C19/C05/C02: abti_waitlist.h ABTI_waitlist_wait_timedout_and_unlock -- the
 * time-out path for a wait list of ANY length and my node at ANY position.
 * The REAL header is included a second time with the same macro redirection as
 * the scripted units (spinlock, clock, futex, yield -> environment stubs).
 * Window: my node (the function's own local, captured when it appears at the
 * tail), its predecessor P and successor S if any; everything further away is
 * reachable only through pointers the function never follows (P->p_prev,
 * S->p_next, and the list's far head/tail), so it is outside the frame.
 * Environment: every time the caller reads the clock (it does so exactly once
 * per round of its wait loop, and before every decision to time out) the other
 * threads may have done anything the lock discipline allows since my node was
 * enqueued: signalled me (READY, my node out of the list), or left me queued
 * with an arbitrary neighbourhood that satisfies the list invariant:
 *   I1  a node that is not the head is its predecessor's p_next;
 *   I2  a TIMED node that is not the head has p_prev == its predecessor;
 *   I3  p_prev of the HEAD is stale (signal/broadcast never repair it): it may
 *       point into a stack frame that no longer exists;
 *   I4  untimed successors (ULTs, plain waits) carry no valid p_prev.
 * Bounded only in the number of rounds of the wait loop (2): the environment
 * re-draws the whole window at every round, so further rounds repeat the same
 * states (stated, not machine-checked).  */
#include "vf.h"
#include "abti.h"
static int lk_held; static unsigned n_acq, n_rel; static ABTD_spinlock lk; static ABTI_waitlist wl; static double deadline_;
static ABTI_thread *me; static ABTI_thread P, S, dead; static ABTI_thread P0, S0, dead0; /* snapshots */
static int queued, has_pred, has_succ, succ_timed, rounds; static ABTI_thread *far_head, *far_tail, *head0, *tail0; static ABTI_thread *p_pprev, *s_nnext;
static int decided_with_lock, state_at_timeout_check;
static void vf_env_spin_acquire(ABTD_spinlock *p) { VF_ASSERT(p == &lk && !lk_held, "acquire: the list lock, not already held"); lk_held = 1; n_acq++; }
static ABTI_thread *me2_cap; static int last_state = -1; /* my node's state the last time the caller could have looked at it */
static void vf_env_spin_release(ABTD_spinlock *p) { VF_ASSERT(p == &lk && lk_held, "release: the list lock, held"); lk_held = 0; n_rel++; if (me2_cap) last_state = me2_cap->state.val; }
static ABT_bool vf_env_spin_is_locked(const ABTD_spinlock *p) { return lk_held ? ABT_TRUE : ABT_FALSE; }
static void redraw(void)
{
    if (!me) { me = wl.p_tail; VF_ASSERT(me != NULL && wl.p_tail->p_next == NULL, "my node is enqueued at the tail before the first look at the clock"); }
    ABTI_thread np, ns, nd; P = np; S = ns; dead = nd; /* arbitrary contents */
    { int q, a, b, c; queued = !!q; has_pred = !!a; has_succ = !!b; succ_timed = !!c; }
    { ABTI_thread *x, *y, *u, *v; far_head = x; far_tail = y; p_pprev = u; s_nnext = v; }
    VF_ASSUME(far_head != me && far_tail != me && far_head != NULL && far_tail != NULL && p_pprev != me && s_nnext != me); /* list nodes are distinct */
    if (!queued) { me->state.val = ABT_THREAD_STATE_READY; wl.p_head = (far_head == &P) ? NULL : far_head; wl.p_tail = wl.p_head ? far_tail : NULL; me->p_next = &dead; me->p_prev = &dead; /* a signaller unlinked me; my links are whatever they were */ }
    else {
        me->state.val = ABT_THREAD_STATE_BLOCKED;
        if (has_pred) { P.p_next = me; P.p_prev = p_pprev; me->p_prev = &P; wl.p_head = (far_head == &S || far_head == &dead) ? &P : far_head; /* I1, I2 */ }
        else { wl.p_head = me; me->p_prev = &dead; /* I3: stale */ }
        if (has_succ) { me->p_next = &S; S.p_next = s_nnext; S.p_prev = succ_timed ? me : &dead; /* I2 / I4 */ S.type = succ_timed ? ABTI_THREAD_TYPE_EXT : ABTI_THREAD_TYPE_YIELDABLE; wl.p_tail = (far_tail == &P || far_tail == &dead) ? &S : far_tail; }
        else { me->p_next = NULL; wl.p_tail = me; }
    }
    P0 = P; S0 = S; dead0 = dead; head0 = wl.p_head; tail0 = wl.p_tail;
}
static double vf_env_wtime(void)
{
    redraw(); rounds++;
    double d; VF_ASSUME(d >= 0.0 && d < 1e9); if (rounds >= 2) VF_ASSUME(d >= deadline_); /* the deadline passes (bound on the rounds) */
    return d;
}
static void vf_env_futex_timedwait(ABTD_futex_multiple *f, ABTD_spinlock *p, double dt) { vf_env_spin_release(p); }
static int wakeups;
static void vf_env_futex_wait(ABTD_futex_multiple *f, ABTD_spinlock *p)
{
    /* first sleep: my node is the tail, linked behind the old tail */
    if (!me2_cap) { me2_cap = wl.p_tail; VF_ASSERT(me2_cap != NULL && me2_cap->p_next == NULL && me2_cap->state.val == ABT_THREAD_STATE_BLOCKED && (wl.p_head == me2_cap || wl.p_head != NULL), "enqueued at the tail, BLOCKED, before the lock is given up"); }
    vf_env_spin_release(p); wakeups++;
    { int sig; if (sig || wakeups >= 3) me2_cap->state.val = ABT_THREAD_STATE_READY; } /* a wake-up may or may not be for me; eventually one is (bound on the rounds) */
    last_state = me2_cap->state.val;
}
static unsigned n_fbcast, n_resume; static ABTI_ythread *resumed_y; static int head_state_at_wake;
static void vf_env_futex_broadcast(ABTD_futex_multiple *f) { VF_ASSERT(lk_held, "futex broadcast under the list lock"); n_fbcast++; }
static ABTI_xstream xs2;
static void vf_env_yield(ABTI_xstream **pp, ABTI_ythread *self, ABTI_ythread_yield_kind k, ABT_sync_event_type t, void *s) { *pp = &xs2; }
static void vf_env_suspend_unlock(ABTI_xstream **pp, ABTI_ythread *self, ABTD_spinlock *p, ABT_sync_event_type t, void *s) { vf_env_spin_release(p); }
static void vf_env_resume_and_push(ABTI_local *l, ABTI_ythread *y) { n_resume++; resumed_y = y; }
#undef ABTI_WAITLIST_H_INCLUDED
#define ABTI_waitlist_init vf2_waitlist_init
#define ABTI_waitlist_wait_and_unlock vf2_waitlist_wait_and_unlock
#define ABTI_waitlist_wait_timedout_and_unlock vf2_waitlist_wait_timedout_and_unlock
#define ABTI_waitlist_signal vf2_waitlist_signal
#define ABTI_waitlist_broadcast vf2_waitlist_broadcast
#define ABTI_waitlist_is_empty vf2_waitlist_is_empty
#define ABTD_spinlock_acquire vf_env_spin_acquire
#define ABTD_spinlock_release vf_env_spin_release
#define ABTD_spinlock_is_locked vf_env_spin_is_locked
#define ABTI_get_wtime vf_env_wtime
#define ABTD_futex_wait_and_unlock vf_env_futex_wait
#define ABTD_futex_timedwait_and_unlock vf_env_futex_timedwait
#define ABTD_futex_broadcast vf_env_futex_broadcast
#define ABTI_ythread_yield vf_env_yield
#define ABTI_ythread_suspend_unlock vf_env_suspend_unlock
#define ABTI_ythread_resume_and_push vf_env_resume_and_push
#include "abti_waitlist.h" /* the real /repo/src/include/abti_waitlist.h */

static int same(const ABTI_thread *a, const ABTI_thread *b, int ignore_next, int ignore_prev) { return (ignore_next || a->p_next == b->p_next) && (ignore_prev || a->p_prev == b->p_prev) && a->state.val == b->state.val && a->type == b->type && a->f_thread == b->f_thread && a->p_arg == b->p_arg && a->unit == b->unit && a->p_pool == b->p_pool; }
void h_waitlist_timeout_window(void)
{
    static ABTI_xstream xs; static ABTI_ythread self_y; int as_ult; ABTI_local *l = as_ult ? (ABTI_local *)&xs : NULL; xs.p_thread = &self_y.thread; self_y.thread.type = ABTI_THREAD_TYPE_YIELDABLE;
    { double d; VF_ASSUME(d >= 0.0 && d < 1e9); deadline_ = d; }
    /* on entry: the lock is held, the list is some valid list (only its tail is looked at) */
    static ABTI_thread old_tail_node; { int e; if (e) { wl.p_head = NULL; wl.p_tail = NULL; } else { ABTI_thread *h; VF_ASSUME(h != NULL); wl.p_head = h; wl.p_tail = &old_tail_node; old_tail_node.p_next = NULL; } }
    lk_held = 1; n_acq = n_rel = 0; me = NULL; rounds = 0;
    ABT_bool r = vf2_waitlist_wait_timedout_and_unlock(&l, &wl, &lk, deadline_, ABT_SYNC_EVENT_TYPE_COND, NULL);
    VF_ASSERT(!lk_held && n_rel == n_acq + 1, "the list lock is released on return; every re-acquisition matched");
    VF_ASSERT(r == (queued ? ABT_TRUE : ABT_FALSE), "reports a time-out iff it was still queued (not signalled) when it decided, under the lock");
    VF_ASSERT(same(&dead, &dead0, 0, 0), "nothing is written through a stale back link (the head's p_prev may point into a dead stack frame)");
    if (!queued) { VF_ASSERT(wl.p_head == head0 && wl.p_tail == tail0 && same(&P, &P0, 0, 0) && same(&S, &S0, 0, 0), "signalled before the deadline was acted on: the list is not touched (the signal is consumed, not lost)"); }
    else {
        VF_ASSERT(has_pred ? (P.p_next == (has_succ ? &S : NULL) && wl.p_head == head0) : wl.p_head == (has_succ ? &S : NULL), "my predecessor (or the list head) now leads to my successor");
        VF_ASSERT(has_succ ? wl.p_tail == tail0 : wl.p_tail == (has_pred ? &P : NULL), "the list tail moves back iff I was the tail");
        if (has_pred && has_succ && succ_timed) VF_ASSERT(S.p_prev == &P, "a timed successor's back link is repaired (its own later time-out relies on it)");
        VF_ASSERT(same(&P, &P0, 1, 0) && same(&S, &S0, 0, 1) && (!has_pred || P.p_prev == p_pprev) && (!has_succ || S.p_next == s_nnext), "neighbours keep everything but the one link each; nothing further away is reachable");
    }
    VF_REACH("timed wait returns"); VF_COVER(queued && has_pred && has_succ && succ_timed, "middle, timed successor"); VF_COVER(queued && !has_pred && has_succ, "head with successor"); VF_COVER(queued && has_pred && !has_succ, "tail"); VF_COVER(queued && !has_pred && !has_succ, "only node"); VF_COVER(!queued, "signalled"); VF_COVER(as_ult && queued, "ULT caller");
}

/* signal: exactly the head waiter is woken and removed, for a list of ANY length (window: head H, second N) */
void h_waitlist_signal_window(void)
{
    static ABTI_ythread H; static ABTI_thread N; { ABTI_ythread nh; ABTI_thread nn; H = nh; N = nn; } ABTI_thread N0;
    int len; VF_ASSUME(0 <= len && len <= 2); /* 0: empty, 1: only H, 2: H then N then ... (any length) */ int head_is_ult; ABTI_thread *far_t; VF_ASSUME(far_t != NULL && far_t != &H.thread);
    H.thread.type = head_is_ult ? ABTI_THREAD_TYPE_YIELDABLE : ABTI_THREAD_TYPE_EXT; H.thread.state.val = ABT_THREAD_STATE_BLOCKED;
    if (len == 0) { wl.p_head = NULL; wl.p_tail = NULL; } else { wl.p_head = &H.thread; H.thread.p_next = len == 2 ? &N : NULL; wl.p_tail = len == 2 ? far_t : &H.thread; }
    N0 = N; lk_held = 1; n_fbcast = n_resume = 0; ABTI_thread *t0 = wl.p_tail;
    vf2_waitlist_signal(NULL, &wl);
    if (len == 0) VF_ASSERT(wl.p_head == NULL && wl.p_tail == NULL && n_resume == 0 && n_fbcast == 0, "signal on an empty list: nothing happens (the signal is not remembered)");
    else {
        VF_ASSERT(wl.p_head == (len == 2 ? &N : NULL) && wl.p_tail == (len == 2 ? t0 : NULL) && H.thread.p_next == NULL, "exactly the head leaves the list: the second waiter becomes head, the tail stays unless the list is now empty");
        if (head_is_ult) VF_ASSERT(n_resume == 1 && resumed_y == &H && n_fbcast == 0 && H.thread.state.val == ABT_THREAD_STATE_BLOCKED, "a ULT head is resumed exactly once (resume_and_push makes it READY)");
        else VF_ASSERT(n_resume == 0 && H.thread.state.val == ABT_THREAD_STATE_READY && n_fbcast == 1, "a non-yieldable head is marked READY, then the futex is woken");
        VF_ASSERT(same(&N, &N0, 0, 0), "no other waiter is touched: a signal wakes exactly one waiter");
    }
    VF_REACH("signal"); VF_COVER(len == 2 && head_is_ult, "ULT head of a longer list"); VF_COVER(len == 1 && !head_is_ult, "single external waiter"); VF_COVER(len == 0, "empty");
}
/* untimed wait of a non-yieldable caller: enqueued at the tail of a list of ANY length under the lock, and it returns
 * only after its own node was marked READY (no spurious wake-up: futex wake-ups for other waiters send it back to sleep) */
#define me2 me2_cap
void h_waitlist_wait_window(void)
{
    static ABTI_thread T; int empty; ABTI_thread *far_h; VF_ASSUME(far_h != NULL);
    if (empty) { wl.p_head = NULL; wl.p_tail = NULL; } else { wl.p_head = far_h; wl.p_tail = &T; T.p_next = NULL; }
    lk_held = 1; n_acq = n_rel = 0; ABTI_local *l = NULL; me2_cap = NULL; last_state = -1; wakeups = 0;
    /* the environment marks me READY at some futex wake-up (redirected futex wait below releases the lock) */
    vf2_waitlist_wait_and_unlock(&l, &wl, &lk, ABT_SYNC_EVENT_TYPE_COND, NULL);
    VF_ASSERT(!lk_held && n_rel == n_acq + 1, "lock released on return, re-acquisitions matched");
    VF_ASSERT(me2 != NULL && last_state == ABT_THREAD_STATE_READY, "the caller returns only after ITS node was marked READY by a signaller");
    VF_REACH("untimed wait returns");
}
