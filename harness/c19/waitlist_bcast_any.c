/* C19/C05/C08/C09: abti_waitlist.h ABTI_waitlist_broadcast on a wait list of
 * ANY length.  Summary-node technique: the list is F -> S -> S -> ... ; S stands
 * for every node behind the first one: the loop contract lists its fields among
 * the loop's assigns targets, so the iteration examined sees an arbitrary
 * waiter (ULT, tasklet or external thread, any contents).  The REAL header is
 * included a second time with the wake-up primitives redirected to recording
 * stubs (as in waitlist_window.c).
 * Decided without a bound, for every node visited: it is unlinked (p_next NULL)
 * BEFORE it is woken; a ULT is woken by exactly one resume_and_push, any other
 * waiter by a RELEASE store of READY into its own state word; after a
 * non-yieldable waiter has been woken its node is gone (it lives in the
 * waiter's stack frame): the stub overwrites the first node with garbage, so
 * any later read of it derails the walk.  After the walk: the list is empty,
 * and sleeping non-yieldable waiters get one futex broadcast, after all state
 * words were written, iff there was such a waiter.
 * Not decided here: that no node is skipped (set-level; the scripted units
 * waitlist_script_B_* run the real broadcast on concrete lists). */
#include "vf.h"
struct ABTI_thread; struct ABTI_thread *vf_first, *vf_sum;
unsigned vf_n_resume, vf_n_store, vf_n_fbcast, vf_f_woken, vf_bad, vf_store_after_fb;
#include "abti.h"
static ABTI_ythread Fy, Sy; static ABTI_waitlist wl; static ABTI_local *the_local;
static void vf_env_resume_and_push(ABTI_local *l, ABTI_ythread *y)
{
    if (vf_n_resume < 2) vf_n_resume++; /* saturating: only 0 / 1 / many matter */
    if (!((&y->thread == vf_first || &y->thread == vf_sum) && (y->thread.type & ABTI_THREAD_TYPE_YIELDABLE) && y->thread.p_next == NULL && l == the_local)) vf_bad = 1;
    if (&y->thread == vf_first) vf_f_woken++;
}
static void vf_env_release_store_int(ABTD_atomic_int *p, int v)
{
    if (vf_n_store < 2) vf_n_store++; if (vf_n_fbcast) vf_store_after_fb = 1;
    ABTI_thread *n = (p == &vf_first->state) ? vf_first : (p == &vf_sum->state) ? vf_sum : NULL;
    if (!(n && v == ABT_THREAD_STATE_READY && !(n->type & ABTI_THREAD_TYPE_YIELDABLE) && n->p_next == NULL)) vf_bad = 1;
    if (n) n->state.val = v;
    if (n == vf_first) { vf_f_woken++; ABTI_thread *g1, *g2; vf_first->p_next = g1; vf_first->p_prev = g2; /* the waiter returned: its stack frame, and the node in it, are gone */ }
}
static void vf_env_relaxed_store_int(ABTD_atomic_int *p, int v) { if (p == &vf_first->state || p == &vf_sum->state) vf_bad = 1; /* a waiter's state word is published with release order only */ p->val = v; }
static void vf_env_futex_broadcast(ABTD_futex_multiple *f) { if (vf_n_fbcast < 2) vf_n_fbcast++; if (f != &wl.futex) vf_bad = 1; }
#undef ABTI_WAITLIST_H_INCLUDED
#define ABTI_waitlist_init vf2_waitlist_init
#define ABTI_waitlist_wait_and_unlock vf2_waitlist_wait_and_unlock
#define ABTI_waitlist_wait_timedout_and_unlock vf2_waitlist_wait_timedout_and_unlock
#define ABTI_waitlist_signal vf2_waitlist_signal
#define ABTI_waitlist_broadcast vf2_waitlist_broadcast
#define ABTI_waitlist_is_empty vf2_waitlist_is_empty
#define ABTD_futex_broadcast vf_env_futex_broadcast
#define ABTI_ythread_resume_and_push vf_env_resume_and_push
#define ABTD_atomic_release_store_int vf_env_release_store_int
#define ABTD_atomic_relaxed_store_int vf_env_relaxed_store_int
#include "abti_waitlist.h" /* the real /repo/src/include/abti_waitlist.h */

void h_waitlist_broadcast_any(void)
{
    vf_first = &Fy.thread; vf_sum = &Sy.thread; vf_n_resume = vf_n_store = vf_n_fbcast = vf_f_woken = vf_bad = vf_store_after_fb = 0;
    { ABTI_local *l; the_local = l; }
    int empty, more, more2; 
    if (empty) { wl.p_head = NULL; wl.p_tail = NULL; }
    else { wl.p_head = vf_first; vf_first->p_next = more ? vf_sum : NULL; vf_sum->p_next = more2 ? vf_sum : NULL; wl.p_tail = more ? vf_sum : vf_first; }
    int f_yield = !empty && (vf_first->type & ABTI_THREAD_TYPE_YIELDABLE) != 0;
    vf2_waitlist_broadcast(the_local, &wl);
    VF_ASSERT(vf_bad == 0, "every waiter visited was unlinked before it was woken, and woken the right way: a ULT by resume_and_push (same local), anyone else by a RELEASE store of READY into its own state word");
    VF_ASSERT(wl.p_head == NULL && wl.p_tail == NULL, "the list is empty afterwards");
    VF_ASSERT(empty ? (vf_n_resume + vf_n_store == 0 && vf_n_fbcast == 0) : (vf_f_woken == 1 && vf_n_resume + vf_n_store >= 1), "the first waiter is woken exactly once; an empty list wakes nobody");
    VF_ASSERT(empty || more || vf_n_resume + vf_n_store == 1, "a single waiter: exactly one wake-up");
    VF_ASSERT(vf_n_fbcast == (vf_n_store > 0 ? 1 : 0) && !vf_store_after_fb, "sleeping non-yieldable waiters get exactly one futex broadcast, after every state word was written, iff there is such a waiter");
    VF_ASSERT(empty || !f_yield || (vf_first->p_next == NULL), "a ULT's link is cleared (it can be enqueued again)");
    VF_REACH("broadcast any");
    VF_COVER(!empty && more && vf_n_resume >= 1 && vf_n_store >= 1, "mixed waiters"); VF_COVER(empty, "empty"); VF_COVER(!empty && !more, "single");
}
