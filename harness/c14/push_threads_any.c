/* C14 / C07 / C18: pool/pool.c pool_push_threads_ex (ABT_pool_push_threads[_ex])
 * for ANY number of work units -- including the heap-buffer path taken for more
 * than 64 units, which no bounded unit reaches.  Ghost-index form: entry number
 * vf_k (arbitrary) of the handle array is the concrete work unit TK or the NULL
 * handle; every other non-NULL entry resolves to a summary work unit TS (its
 * fields are among the loop's assigns targets).  Handles are distinct.
 * Association and the pool's push_many by recording stubs (their own units:
 * assoc_thread_set_associated_pool, abti_pool_dispatch).  Proved without a
 * bound (CBMC's malloc may fail; --memory-leak-check):
 *  - the unit buffer is written in bounds on both paths (64-entry stack buffer /
 *    heap buffer of num entries) and the heap buffer is released on every path;
 *  - entry k, if not NULL, is associated with the target pool exactly once, and
 *    on success its unit is handed to push_many at the position given by the
 *    number of non-NULL entries before it (NULL entries are skipped, order is
 *    kept); push_many is called at most once, never on a failed call. */
#include "vf.h"
struct ABTI_thread; struct ABTI_thread *vf_tk, *vf_ts;
unsigned vf_assoc_k, vf_bad, vf_n_pushmany; unsigned long vf_calls, vf_k, vf_pk, vf_nonnull;
#include "abti.h"
int nondet_int(void);
static ABTI_thread TK, TS; static ABT_thread hk; static ABTI_pool pool; static ABT_pool_context the_ctx; static int ok_k; static size_t pushed_n;
static ABTI_thread *vf_get_thread(ABT_thread h)
{
    if (h == hk && hk != ABT_THREAD_NULL && vf_calls != vf_k) __CPROVER_assume(0); /* distinct handles */
    if (vf_calls < vf_k && h != ABT_THREAD_NULL) vf_pk++;
    vf_calls++; if (h != ABT_THREAD_NULL) vf_nonnull++;
    return h == ABT_THREAD_NULL ? NULL : (h == hk ? &TK : &TS);
}
static int vf_set_assoc(ABTI_global *g, ABTI_thread *t, ABTI_pool *p)
{
    if (p != &pool) vf_bad = 1;
    if (nondet_int()) return ABT_ERR_MEM; /* a unit cannot be created: nothing changed */
    if (t == &TK && vf_assoc_k < 2) vf_assoc_k++;
    t->p_pool = p; { ABT_unit u; __CPROVER_assume(u != ABT_UNIT_NULL); t->unit = u; }
    return ABT_SUCCESS;
}
static void vf_push_many(ABTI_pool *p, const ABT_unit *units, size_t n, ABT_pool_context c)
{
    if (vf_n_pushmany < 2) vf_n_pushmany++; pushed_n = n;
    if (p != &pool || c != the_ctx || n == 0 || n != vf_nonnull) vf_bad = 1; /* exactly the non-NULL entries */
    ok_k = (hk == ABT_THREAD_NULL) || (vf_pk < n && units[vf_pk] == TK.unit);
}
ABTI_global *gp_ABTI_global; static ABTI_global glob;
static void f_push_many(ABT_pool p, const ABT_unit *u, size_t n, ABT_pool_context c) { }
#define ABTI_thread_get_ptr vf_get_thread
#define ABTI_thread_set_associated_pool vf_set_assoc
#define ABTI_pool_push_many vf_push_many
#include <pool/pool.c>
#undef ABTI_thread_get_ptr
#undef ABTI_thread_set_associated_pool
#undef ABTI_pool_push_many
void h_push_threads_any(void)
{
    gp_ABTI_global = &glob; vf_tk = &TK; vf_ts = &TS; vf_assoc_k = vf_bad = vf_n_pushmany = 0; vf_calls = 0; vf_pk = 0; vf_nonnull = 0; ok_k = 0;
    { ABTI_thread a, b; TK = a; TS = b; } { int hp; pool.optional_def.p_push_many = hp ? f_push_many : NULL; } { int c; the_ctx = (ABT_pool_context)c; }
    size_t n; VF_ASSUME(n <= ((size_t)1 << 20)); ABT_thread *list = malloc((n ? n : 1) * sizeof(ABT_thread)); if (!list) return;
    { size_t k; VF_ASSUME(n ? k < n : k == 0); vf_k = k; } hk = list[vf_k];
    ABTI_pool *pool0 = TK.p_pool;
    int r = pool_push_threads_ex((ABT_pool)&pool, list, n, the_ctx);
    VF_ASSERT(vf_bad == 0 && vf_n_pushmany <= 1, "only the target pool is involved; at most one push_many, with the caller's context, of exactly the non-NULL entries (a non-empty batch)");
    if (pool.optional_def.p_push_many == NULL) VF_ASSERT(r == ABT_ERR_POOL && vf_calls == 0 && vf_n_pushmany == 0, "a pool without push_many: refused, nothing touched");
    else if (r == ABT_SUCCESS) {
        VF_ASSERT(n == 0 || vf_calls == n, "every entry is looked at once");
        if (n > 0 && hk != ABT_THREAD_NULL) VF_ASSERT(vf_assoc_k == 1 && TK.p_pool == &pool && vf_n_pushmany == 1 && ok_k, "entry k (any k): associated with the pool exactly once and its unit handed to push_many at its rank among the non-NULL entries");
        if (n == 0) VF_ASSERT(vf_n_pushmany == 0, "nothing to push");
    } else {
        VF_ASSERT(r == ABT_ERR_MEM && vf_n_pushmany == 0, "a failed allocation / association: error, nothing is pushed");
    }
    free(list);
    VF_REACH("push_threads any"); VF_COVER(r == ABT_SUCCESS && n > 64 && vf_k == 70 && hk != ABT_THREAD_NULL, "heap buffer path"); VF_COVER(r == ABT_SUCCESS && n > 0 && n <= 64 && vf_n_pushmany == 1, "stack buffer path"); VF_COVER(r == ABT_ERR_MEM && n > 64 && vf_calls > 2, "association fails with a heap buffer (released: leak check)");
}
