/* C14: src/pool/pool.c -- the adapter that lets a legacy ABT_pool_def serve as
 * a pool: every adapter forwards exactly once to the user's function with the
 * same unit / work unit, translates popped units to the work unit they stand
 * for, and the definition table installs the adapter of the right operation. */
#include "vf.h"
#include "abti.h"
ABTI_global *gp_ABTI_global; static ABTI_global glob; static ABTI_pool pool; static ABTI_thread th[3];
static int n_ucreate, n_ufree, n_push, n_pop, n_getsize; static ABT_thread ucreate_arg; static ABT_unit ufree_arg, pushed[4], popq[4]; static int popq_n, popq_i; static size_t oldsize;
#define U(i) ((ABT_unit)(uintptr_t)(0x1000 + 16 * (i)))
static ABT_unit my_ucreate(ABT_thread t) { n_ucreate++; ucreate_arg = t; return U(7); }
static void my_ufree(ABT_unit *u) { n_ufree++; ufree_arg = *u; }
static void my_push(ABT_pool p, ABT_unit u) { if (n_push < 4) pushed[n_push] = u; n_push++; }
static ABT_unit my_pop(ABT_pool p) { n_pop++; if (popq_i < popq_n) return popq[popq_i++]; return ABT_UNIT_NULL; }
static size_t my_getsize(ABT_pool p) { n_getsize++; return oldsize; }
/* unit -> work unit: the map of the real library (C14 unit map units) by a stub */
ABTI_thread *ABTI_unit_get_thread_from_user_defined_unit(ABTI_global *g, ABT_unit u) { for (int i = 0; i < 3; i++) if (u == U(i)) return &th[i]; __CPROVER_assert(0, "only live units are translated"); return NULL; }
/* re-association by stub: a NEW unit is created for the destination pool (as for a user-defined pool) */
static int n_assoc, assoc_fail_at; int ABTI_thread_set_associated_pool(ABTI_global *g, ABTI_thread *t, ABTI_pool *p) { n_assoc++; if (n_assoc == assoc_fail_at) return ABT_ERR_MEM; t->p_pool = p; t->unit = (ABT_unit)((uintptr_t)t->unit + 0x100000); return ABT_SUCCESS; }
static int n_pm; static ABT_unit pm_units[4]; static size_t pm_n; static void my_push_many(ABT_pool p, const ABT_unit *u, size_t n, ABT_pool_context c) { n_pm++; pm_n = n; for (size_t i = 0; i < 4; i++) if (i < n) pm_units[i] = u[i]; }
static int n_p1; static ABT_unit p1_unit; static void my_push1(ABT_pool p, ABT_unit u, ABT_pool_context c) { n_p1++; p1_unit = u; }
#include <pool/pool.c>
static void setup(void) { gp_ABTI_global = &glob; n_ucreate = n_ufree = n_push = n_pop = n_getsize = 0; popq_i = 0; pool.old_def.u_create_from_thread = my_ucreate; pool.old_def.u_free = my_ufree; pool.old_def.p_push = my_push; pool.old_def.p_pop = my_pop; pool.old_def.p_get_size = my_getsize; }
void h_legacy_wrappers(void)
{
    setup(); ABT_pool h = (ABT_pool)&pool;
    ABT_unit u = pool_create_unit_wrapper(h, (ABT_thread)&th[1]);
    VF_ASSERT(n_ucreate == 1 && ucreate_arg == (ABT_thread)&th[1] && u == U(7), "create_unit: the user's function once, for this work unit; its unit is returned");
    pool_free_unit_wrapper(h, U(2)); VF_ASSERT(n_ufree == 1 && ufree_arg == U(2), "free_unit: the user's function once, for this unit");
    pool_push_wrapper(h, U(0), ABT_POOL_CONTEXT_OP_POOL_OTHER); VF_ASSERT(n_push == 1 && pushed[0] == U(0), "push: forwarded once, same unit");
    { size_t s; oldsize = s; } VF_ASSERT(pool_is_empty_wrapper(h) == (oldsize == 0 ? ABT_TRUE : ABT_FALSE) && pool_get_size_wrapper(h) == oldsize, "is_empty / get_size from the user's size");
    int k = 0; { int c; VF_ASSUME(0 <= c && c <= 3); popq_n = c; } for (int i = 0; i < 3; i++) { int w; VF_ASSUME(0 <= w && w < 3); popq[i] = U(w); }
    ABT_thread t = pool_pop_wrapper(h, ABT_POOL_CONTEXT_OP_POOL_OTHER);
    VF_ASSERT(n_pop == 1 && (popq_n == 0 ? t == ABT_THREAD_NULL : t == (ABT_thread)ABTI_unit_get_thread_from_user_defined_unit(&glob, popq[0])), "pop: one user pop; the work unit that the popped unit stands for, or NULL when empty");
    VF_REACH("legacy wrappers"); VF_COVER(popq_n > 0, "popped one");
}
void h_legacy_many(void)
{
    setup(); ABT_pool h = (ABT_pool)&pool; { int c; VF_ASSUME(0 <= c && c <= 3); popq_n = c; } for (int i = 0; i < 3; i++) popq[i] = U(2 - i);
    ABT_thread out[3] = { (ABT_thread)8, (ABT_thread)8, (ABT_thread)8 }; size_t np = 99; size_t max; VF_ASSUME(max <= 3);
    pool_pop_many_wrapper(h, out, max, &np, ABT_POOL_CONTEXT_OP_POOL_OTHER);
    size_t want = (size_t)popq_n < max ? (size_t)popq_n : max;
    VF_ASSERT(np == want, "pop_many: as many as available, at most max");
    for (size_t i = 0; i < 3; i++) if (i < np) VF_ASSERT(out[i] == (ABT_thread)&th[2 - i], "in pop order, each translated"); else VF_ASSERT(out[i] == (ABT_thread)8, "slots beyond num_popped untouched");
    VF_ASSERT((size_t)popq_i == np || ((size_t)popq_i == np && popq_n == (int)np), "no popped unit is dropped: every unit taken from the user's pool is returned");
    ABT_unit us[3] = { U(0), U(1), U(2) }; size_t n; VF_ASSUME(n <= 3);
    pool_push_many_wrapper(h, us, n, ABT_POOL_CONTEXT_OP_POOL_OTHER);
    VF_ASSERT((size_t)n_push == n, "push_many: each unit pushed exactly once"); for (size_t i = 0; i < 3; i++) if (i < n) VF_ASSERT(pushed[i] == us[i], "in order");
    VF_REACH("legacy many"); VF_COVER(np == 3, "three popped"); VF_COVER(np < max, "pool ran empty");
}
void h_legacy_def(void)
{
    static ABT_pool_def def; static ABTI_pool_old_def od; static ABTI_pool_required_def rd; static ABTI_pool_optional_def opt; static ABTI_pool_deprecated_def dd;
    def.u_create_from_thread = my_ucreate; def.u_free = my_ufree; def.p_push = my_push; def.p_pop = my_pop; def.p_get_size = my_getsize; { int a, b; def.p_init = a ? (int (*)(ABT_pool, ABT_pool_config))my_getsize : NULL; def.p_free = b ? (int (*)(ABT_pool))my_getsize : NULL; }
    pool_create_def_from_old_def(&def, &od, &rd, &opt, &dd);
    VF_ASSERT(od.u_create_from_thread == my_ucreate && od.u_free == my_ufree && od.p_push == my_push && od.p_pop == my_pop && od.p_get_size == my_getsize, "the user's functions are kept, each in its own slot");
    VF_ASSERT(rd.p_create_unit == pool_create_unit_wrapper && rd.p_free_unit == pool_free_unit_wrapper && rd.p_is_empty == pool_is_empty_wrapper && rd.p_pop == pool_pop_wrapper && rd.p_push == pool_push_wrapper, "each required operation gets the adapter of THAT operation");
    VF_ASSERT(opt.p_get_size == pool_get_size_wrapper && opt.p_pop_many == pool_pop_many_wrapper && opt.p_push_many == pool_push_many_wrapper && (opt.p_init != NULL) == (def.p_init != NULL) && (opt.p_free != NULL) == (def.p_free != NULL), "optional operations: adapters iff the user supplied the function");
    VF_REACH("legacy def");
}
/* ABT_pool_push_thread(s): each work unit is first associated with the destination pool, and the unit pushed is the one it has AFTER that */
void h_pool_push_api(void)
{
    setup(); n_assoc = 0; n_pm = n_p1 = 0; { int f; assoc_fail_at = f; } VF_ASSUME(0 <= assoc_fail_at && assoc_fail_at <= 3);
    static ABTI_pool dst; dst.optional_def.p_push_many = my_push_many; dst.required_def.p_push = my_push1;
    ABT_thread list[3]; int nz[3]; size_t n; VF_ASSUME(n <= 3); for (int i = 0; i < 3; i++) { int c; nz[i] = !!c; th[i].unit = U(i); th[i].p_pool = &pool; list[i] = nz[i] ? (ABT_thread)&th[i] : ABT_THREAD_NULL; }
    int r = ABT_pool_push_threads((ABT_pool)&dst, list, n);
    size_t cnt = 0; for (size_t i = 0; i < 3; i++) if (i < n && nz[i]) cnt++;
    if (r == ABT_SUCCESS) {
        VF_ASSERT((size_t)n_assoc == cnt && n_pm == (cnt ? 1 : 0) && (!cnt || pm_n == cnt), "every non-NULL work unit is associated with the destination once; one batch of that many units");
        size_t k = 0; for (size_t i = 0; i < 3; i++) if (i < n && nz[i]) { VF_ASSERT(pm_units[k] == th[i].unit && th[i].unit != U(i) && th[i].p_pool == &dst, "the unit pushed is the work unit's CURRENT unit (the one created for the destination), in list order"); k++; }
    } else VF_ASSERT(r == ABT_ERR_MEM && n_pm == 0, "an association failure is reported and nothing is pushed");
    /* single push */
    n_assoc = 0; assoc_fail_at = 0; th[0].unit = U(0);
    VF_ASSERT(ABT_pool_push_thread((ABT_pool)&dst, (ABT_thread)&th[0]) == ABT_SUCCESS && n_assoc == 1 && n_p1 == 1 && p1_unit == th[0].unit && th[0].unit != U(0), "ABT_pool_push_thread: associate, then push the current unit");
    VF_ASSERT(ABT_pool_push_threads(ABT_POOL_NULL, list, n) == ABT_ERR_INV_POOL && ABT_pool_push_thread(ABT_POOL_NULL, (ABT_thread)&th[0]) == ABT_ERR_INV_POOL, "NULL pool rejected");
    VF_REACH("pool_push_api"); VF_COVER(r == ABT_SUCCESS && cnt == 3, "three pushed"); VF_COVER(r != ABT_SUCCESS, "association failed");
}
