/* C14: abti_unit.h -- the unit <-> work-unit association functions for every
 * combination built-in / user-defined (old pool) x built-in / user-defined / same
 * (new pool): create_unit exactly once when a unit enters a user pool,
 * free_unit exactly once when it leaves one, free only AFTER the new unit is
 * created and mapped (failure leaves the old association intact), the freed
 * handle is not used afterwards (unmap BEFORE free), tag-bit round trip. */
#include "vf.h"
#include "abti.h"
static unsigned clk, n_create, n_free, n_map, n_unmap, t_create, t_free, t_map, t_unmap;
static const void *create_pool, *create_thread, *free_pool; static ABT_unit free_unit_, map_unit, unmap_unit; static const void *map_thread;
static int create_fail, map_fail; static ABT_unit fresh_unit;
static ABT_unit stub_create(ABT_pool p, ABT_thread t) { n_create++; t_create = ++clk; create_pool = p; create_thread = t; return create_fail ? ABT_UNIT_NULL : fresh_unit; }
static void stub_free(ABT_pool p, ABT_unit u) { n_free++; t_free = ++clk; free_pool = p; free_unit_ = u; }
int ABTI_unit_map_thread(ABTI_global *g, ABT_unit u, ABTI_thread *t) { n_map++; t_map = ++clk; map_unit = u; map_thread = t; return map_fail ? ABT_ERR_MEM : ABT_SUCCESS; }
void ABTI_unit_unmap_thread(ABTI_global *g, ABT_unit u) { n_unmap++; t_unmap = ++clk; unmap_unit = u; }
static ABTI_thread *user_unit_owner;
ABTI_thread *ABTI_unit_get_thread_from_user_defined_unit(ABTI_global *g, ABT_unit u) { return user_unit_owner; }

static ABTI_global glob; static ABTI_thread th; static ABTI_pool oldp, newp;
static ABT_unit old_user_unit;
static int old_user, new_user, same;
static void setup(void)
{
    { int a, b, c, d, e; old_user = !!a; new_user = !!b; same = !!c; create_fail = !!d; map_fail = !!e; }
    clk = 0; n_create = n_free = n_map = n_unmap = 0;
    oldp.is_builtin = old_user ? ABT_FALSE : ABT_TRUE; newp.is_builtin = new_user ? ABT_FALSE : ABT_TRUE;
    oldp.required_def.p_create_unit = stub_create; oldp.required_def.p_free_unit = stub_free; newp.required_def.p_create_unit = stub_create; newp.required_def.p_free_unit = stub_free;
    /* user units are even handles above the first page (the built-in tag is bit 0) */
    { uintptr_t u1, u2; VF_ASSUME(u1 >= 4096 && (u1 & 1) == 0 && u2 >= 4096 && (u2 & 1) == 0 && u1 != u2); old_user_unit = (ABT_unit)u1; fresh_unit = (ABT_unit)u2; }
    th.p_pool = &oldp; th.unit = old_user ? old_user_unit : ABTI_unit_get_builtin_unit(&th); user_unit_owner = &th;
}
static void check(int r, ABTI_pool *target, int was_init)
{
    ABT_unit u0 = old_user ? old_user_unit : ABTI_unit_get_builtin_unit(&th);
    int tgt_user = target->is_builtin == ABT_FALSE;
    int leaves_user = old_user && !was_init && target != &oldp;
    if (old_user && !was_init && target == &oldp) { VF_ASSERT(r == ABT_SUCCESS && n_create == 0 && n_free == 0 && n_map == 0 && n_unmap == 0 && th.unit == u0 && th.p_pool == &oldp, "same custom pool: no call, nothing changes"); return; }
    if (tgt_user) {
        VF_ASSERT(n_create == 1 && create_pool == (void *)target && create_thread == (void *)&th, "the unit enters a user-defined pool: create_unit exactly once, for this pool and this work unit");
        if (create_fail) { VF_ASSERT(r == ABT_ERR_OTHER && n_map == 0 && n_free == 0 && n_unmap == 0 && th.unit == (was_init ? th.unit : u0) && (was_init || th.p_pool == &oldp), "create_unit failed: error, old association intact"); return; }
        VF_ASSERT(n_map == 1 && map_unit == fresh_unit && map_thread == &th && t_create < t_map, "then mapped to its work unit");
        if (map_fail) { VF_ASSERT(r == ABT_ERR_MEM && n_free == 1 && free_unit_ == fresh_unit && free_pool == (void *)target && n_unmap == 0 && (was_init || (th.unit == u0 && th.p_pool == &oldp)), "mapping failed: the unit created in this call is freed again, old association intact"); return; }
        VF_ASSERT(r == ABT_SUCCESS && th.unit == fresh_unit && th.p_pool == target, "success: the work unit carries the new live unit and pool");
    } else {
        VF_ASSERT(n_create == 0 && n_map == 0 && r == ABT_SUCCESS && th.p_pool == target && ABTI_unit_is_builtin(th.unit) && ABTI_unit_get_thread_from_builtin_unit(th.unit) == &th, "built-in target: no create_unit; the unit is the tagged descriptor address (round trip = identity)");
    }
    if (leaves_user) {
        VF_ASSERT(n_unmap == 1 && unmap_unit == old_user_unit && n_free == 1 && free_unit_ == old_user_unit && free_pool == (void *)&oldp, "the association with the old user pool ends: unmap once and free_unit once, of the OLD unit in the OLD pool");
        VF_ASSERT(t_unmap < t_free, "the old unit is not used after it has been freed (unmapped before free_unit)");
        VF_ASSERT(!tgt_user || (t_map < t_unmap), "... and only after the new unit exists and is mapped");
    } else VF_ASSERT(n_unmap == 0 && n_free == (tgt_user && map_fail && !create_fail ? 1 : 0), "no user pool is left: nothing freed");
}
void h_thread_set_associated_pool(void)
{
    setup(); ABTI_pool *target = (same && old_user) ? &oldp : &newp; if (target == &oldp) new_user = old_user;
    int r = ABTI_thread_set_associated_pool(&glob, &th, target);
    check(r, target, 0);
    VF_REACH("thread_set_associated_pool"); VF_COVER(old_user && new_user && target == &newp && r == ABT_SUCCESS, "user -> other user pool"); VF_COVER(old_user && !new_user && r == ABT_SUCCESS, "user -> built-in"); VF_COVER(!old_user && new_user && map_fail && !create_fail, "map failure rollback");
}
void h_unit_set_associated_pool(void)
{
    setup(); ABTI_pool *target = (same && old_user) ? &oldp : &newp; if (target == &oldp) new_user = old_user; ABTI_thread *out = NULL;
    int r = ABTI_unit_set_associated_pool(&glob, th.unit, target, &out);
    check(r, target, 0);
    VF_ASSERT(r == ABT_SUCCESS ? out == &th : out == NULL, "the work unit is reported iff the call succeeded");
    VF_REACH("unit_set_associated_pool");
}
void h_thread_init_pool(void)
{
    setup(); old_user = 0; th.unit = ABT_UNIT_NULL; th.p_pool = NULL;
    int r = ABTI_thread_init_pool(&glob, &th, &newp);
    check(r, &newp, 1);
    VF_REACH("thread_init_pool");
}
void h_thread_unset_associated_pool(void)
{
    setup();
    ABTI_thread_unset_associated_pool(&glob, &th);
    VF_ASSERT(old_user ? (n_unmap == 1 && unmap_unit == old_user_unit && n_free == 1 && free_unit_ == old_user_unit && free_pool == (void *)&oldp && t_unmap < t_free) : (n_unmap == 0 && n_free == 0), "leaving a user pool: unmap then free_unit, each once; built-in: nothing");
    VF_ASSERT(n_create == 0, "no unit is created");
    VF_REACH("thread_unset_associated_pool");
}
/* tag-bit bijection for every 2-byte aligned descriptor address (full domain) */
void h_tagbit(void)
{
    uintptr_t a; VF_ASSUME((a & 1) == 0 && a != 0);
    ABT_unit u = ABTI_unit_get_builtin_unit((ABTI_thread *)a);
    VF_ASSERT(ABTI_unit_is_builtin(u) && (uintptr_t)ABTI_unit_get_thread_from_builtin_unit(u) == a, "thread -> unit -> thread is the identity for every aligned address");
    uintptr_t v; VF_ASSUME((v & 1) == 0);
    VF_ASSERT(!ABTI_unit_is_builtin((ABT_unit)v), "an even handle is never taken for a built-in unit");
    VF_REACH("tagbit");
}
