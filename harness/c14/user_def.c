/* C14: pool/pool_user_def.c -- a user's pool definition: each of the five
 * required functions and each optional function lands in the slot of its own
 * name and nowhere else (a pool built from the definition calls the user's push
 * for push, the user's create_unit for create_unit ...); optional slots start
 * empty; setters change exactly their slot. */
#include "vf.h"
#include "abti.h"
#include <pool/pool_user_def.c>
static ABT_unit f_cu(ABT_pool p, ABT_thread t) { return ABT_UNIT_NULL; } static void f_fu(ABT_pool p, ABT_unit u) {} static ABT_bool f_ie(ABT_pool p) { return ABT_TRUE; }
static ABT_thread f_pop(ABT_pool p, ABT_pool_context c) { return ABT_THREAD_NULL; } static void f_push(ABT_pool p, ABT_unit u, ABT_pool_context c) {}
static int f_init(ABT_pool p, ABT_pool_config c) { return 0; } static void f_free(ABT_pool p) {} static size_t f_size(ABT_pool p) { return 0; }
static ABT_thread f_popw(ABT_pool p, double t, ABT_pool_context c) { return ABT_THREAD_NULL; } static void f_popm(ABT_pool p, ABT_thread *t, size_t n, size_t *m, ABT_pool_context c) {}
static void f_pushm(ABT_pool p, const ABT_unit *u, size_t n, ABT_pool_context c) {} static void f_print(ABT_pool p, void *a, void (*f)(void *, ABT_thread)) {}
void h_pool_user_def(void)
{
    ABT_pool_user_def d = (ABT_pool_user_def)0x55;
    int r = ABT_pool_user_def_create(f_cu, f_fu, f_ie, f_pop, f_push, &d);
    if (r != ABT_SUCCESS) { VF_ASSERT(r == ABT_ERR_MEM && d == (ABT_pool_user_def)0x55, "failed creation: output untouched"); VF_REACH("user_def create failed"); return; }
    ABTI_pool_user_def *p = ABTI_pool_user_def_get_ptr(d);
    VF_ASSERT(p->required_def.p_create_unit == f_cu && p->required_def.p_free_unit == f_fu && p->required_def.p_is_empty == f_ie && p->required_def.p_pop == f_pop && p->required_def.p_push == f_push, "each required function sits in the slot of its own name");
    VF_ASSERT(p->optional_def.p_init == NULL && p->optional_def.p_free == NULL && p->optional_def.p_get_size == NULL && p->optional_def.p_pop_wait == NULL && p->optional_def.p_pop_many == NULL && p->optional_def.p_push_many == NULL && p->optional_def.p_print_all == NULL && p->symbol == NULL, "optional functions start unset");
    int which; VF_ASSUME(0 <= which && which <= 6); ABTI_pool_user_def before = *p;
    switch (which) {
    case 0: r = ABT_pool_user_def_set_init(d, f_init); before.optional_def.p_init = f_init; break;
    case 1: r = ABT_pool_user_def_set_free(d, f_free); before.optional_def.p_free = f_free; break;
    case 2: r = ABT_pool_user_def_set_get_size(d, f_size); before.optional_def.p_get_size = f_size; break;
    case 3: r = ABT_pool_user_def_set_pop_wait(d, f_popw); before.optional_def.p_pop_wait = f_popw; break;
    case 4: r = ABT_pool_user_def_set_pop_many(d, f_popm); before.optional_def.p_pop_many = f_popm; break;
    case 5: r = ABT_pool_user_def_set_push_many(d, f_pushm); before.optional_def.p_push_many = f_pushm; break;
    default: r = ABT_pool_user_def_set_print_all(d, f_print); before.optional_def.p_print_all = f_print; break;
    }
    VF_ASSERT(r == ABT_SUCCESS && p->required_def.p_create_unit == before.required_def.p_create_unit && p->required_def.p_free_unit == before.required_def.p_free_unit && p->required_def.p_is_empty == before.required_def.p_is_empty && p->required_def.p_pop == before.required_def.p_pop && p->required_def.p_push == before.required_def.p_push &&
              p->optional_def.p_init == before.optional_def.p_init && p->optional_def.p_free == before.optional_def.p_free && p->optional_def.p_get_size == before.optional_def.p_get_size && p->optional_def.p_pop_wait == before.optional_def.p_pop_wait &&
              p->optional_def.p_pop_many == before.optional_def.p_pop_many && p->optional_def.p_push_many == before.optional_def.p_push_many && p->optional_def.p_print_all == before.optional_def.p_print_all, "a setter changes exactly the slot of its own name");
    VF_ASSERT(ABT_pool_user_def_set_init(ABT_POOL_USER_DEF_NULL, f_init) == ABT_ERR_INV_POOL_USER_DEF, "NULL definition rejected");
    r = ABT_pool_user_def_free(&d); VF_ASSERT(r == ABT_SUCCESS && d == ABT_POOL_USER_DEF_NULL, "free releases once, handle reset");
    VF_REACH("pool_user_def"); VF_COVER(which == 5, "push_many");
}
