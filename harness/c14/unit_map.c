/* C14 (bounded by chain length): unit.c -- the user-unit -> work-unit hash map.
 * The bucket lock is redirected by macro to an environment stub which, at every
 * acquisition, lets ANOTHER stream prepend a node for a colliding unit first
 * (the bucket is shared); lookups take no lock.  Obligations: map makes the
 * unit translate to its work unit, never loses a mapping made by others, reuses
 * tombstones, publishes a new node only fully initialised with a RELEASE store;
 * unmap tombstones exactly the matching node; lock released on every path. */
#include "vf.h"
#include "abti.h"
static int lk_held; static unsigned n_acq, n_rel, n_release_publish, n_relaxed_head_store;
static ABTI_global glob;
static ABTI_unit_to_thread_entry *bucket; /* the bucket all units of this harness hash to */
struct u2t { ABTD_atomic_ptr unit; ABTI_thread *p_thread; struct u2t *p_next; }; /* same layout as unit.c's unit_to_thread */
static struct u2t *other_node; static ABT_unit other_unit; static ABTI_thread other_thread; static int other_added;
static void vf_acquire(ABTD_spinlock *l)
{
    VF_ASSERT(!lk_held, "bucket lock not already held"); VF_ASSERT(l == &bucket->lock, "the lock of the unit's own bucket");
    /* before we get the lock another stream maps a colliding unit (prepends its node) */
    int go; if (go && !other_added) { struct u2t *n = malloc(sizeof(*n)); VF_ASSUME(n != NULL); n->unit.val = other_unit; n->p_thread = &other_thread; n->p_next = bucket->list.val.val; bucket->list.val.val = n; other_node = n; other_added = 1; }
    lk_held = 1; n_acq++;
}
static void vf_release(ABTD_spinlock *l) { VF_ASSERT(lk_held && l == &bucket->lock, "releases the lock it holds"); lk_held = 0; n_rel++; }
static void vf_release_store_ptr(ABTD_atomic_ptr *p, void *v) { if (p == &bucket->list.val) { n_release_publish++; VF_ASSERT(lk_held, "the bucket head is published under the bucket lock"); } p->val = v; }
#define ABTD_spinlock_acquire vf_acquire
#define ABTD_spinlock_release vf_release
#define ABTD_atomic_release_store_ptr vf_release_store_ptr
#include <unit.c>
#undef ABTD_spinlock_acquire
#undef ABTD_spinlock_release
#undef ABTD_atomic_release_store_ptr

#ifndef VF_N
#define VF_N 2
#endif
static struct u2t *pre[VF_N]; static ABT_unit pre_unit[VF_N]; static ABTI_thread pre_thread[VF_N]; static int pre_live[VF_N]; static int npre;
static ABT_unit the_unit; static ABTI_thread the_thread;
static ABTI_thread *lookup(ABT_unit u) { struct u2t *c = bucket->list.val.val; for (int i = 0; i < VF_N + 3; i++) { if (!c) return NULL; if (c->unit.val == u) return c->p_thread; c = c->p_next; } return NULL; }
static int chain_len(void) { struct u2t *c = bucket->list.val.val; int n = 0; for (int i = 0; i < VF_N + 4; i++) { if (!c) return n; n++; c = c->p_next; } return 99; }
static void build(void)
{
    lk_held = 0; n_acq = n_rel = 0; other_added = 0; n_release_publish = 0;
    /* all units of the harness fall into one bucket (colliding handles) */
    /* handles are multiples of 2^30: they all collide in bucket 0 (hash arithmetic itself: unit unitmap_hash_index) */
    uintptr_t kb; VF_ASSUME(kb >= 1 && kb < (1u << 20)); uintptr_t base = kb << 30;
    the_unit = (ABT_unit)base; bucket = &glob.unit_to_thread_entires[0]; VF_ASSERT(unit_get_hash_index(the_unit) == 0, "harness handles collide in bucket 0");
    uintptr_t ko; VF_ASSUME(ko >= 1 && ko < (1u << 20) && ko != kb); uintptr_t ou = ko << 30; other_unit = (ABT_unit)ou;
    bucket->list.val.val = NULL; int k; VF_ASSUME(0 <= k && k <= VF_N); npre = k;
    for (int i = 0; i < VF_N; i++) if (i < k) {
        uintptr_t kp; VF_ASSUME(kp >= 1 && kp < (1u << 20) && kp != kb && kp != ko); uintptr_t pu = kp << 30; for (int j = 0; j < i; j++) VF_ASSUME((ABT_unit)pu != pre_unit[j]);
        pre_unit[i] = (ABT_unit)pu; int live; pre_live[i] = !!live;
        struct u2t *n = malloc(sizeof(*n)); VF_ASSUME(n != NULL); n->unit.val = live ? (void *)pre_unit[i] : (void *)ABT_UNIT_NULL; n->p_thread = &pre_thread[i]; n->p_next = bucket->list.val.val; bucket->list.val.val = n; pre[i] = n;
    }
}
static void others_intact(void)
{
    for (int i = 0; i < VF_N; i++) if (i < npre && pre_live[i]) VF_ASSERT(lookup(pre_unit[i]) == &pre_thread[i], "every other live unit still translates to its own work unit");
    if (other_added) VF_ASSERT(lookup(other_unit) == &other_thread, "a mapping made concurrently by another stream is not lost");
}
void h_unit_map(void)
{
    build(); int len0 = chain_len();
    int r = unit_map_thread(&glob, the_unit, &the_thread);
    VF_ASSERT(!lk_held && n_acq == n_rel, "bucket lock released on every path");
    if (r == ABT_SUCCESS) {
        VF_ASSERT(lookup(the_unit) == &the_thread, "a live unit translates to its work unit");
        int had_tomb = 0; for (int i = 0; i < VF_N; i++) if (i < npre && !pre_live[i]) had_tomb = 1;
        VF_ASSERT(chain_len() == len0 + (other_added ? 1 : 0) + (had_tomb ? 0 : 1), "a tombstone is reused; a node is allocated only when none is free");
        VF_ASSERT(had_tomb ? n_release_publish == 0 : n_release_publish == 1, "a new node is published exactly once with the release store");
    } else {
        VF_ASSERT(r == ABT_ERR_MEM && lookup(the_unit) == NULL && chain_len() == len0 + (other_added ? 1 : 0), "allocation failure: map unchanged");
    }
    others_intact();
    VF_REACH("unit_map"); VF_COVER(r == ABT_SUCCESS && other_added && npre == VF_N, "concurrent prepend, longest chain"); VF_COVER(r != ABT_SUCCESS, "allocation failure");
}
void h_unit_unmap_get(void)
{
    build(); int w; VF_ASSUME(0 <= w && w < VF_N && w < npre && pre_live[w]); /* unmap an existing live unit */
    VF_ASSERT(unit_get_thread_from_user_defined_unit(&glob, pre_unit[w]) == &pre_thread[w], "lookup (no lock) returns the work unit of a live unit");
    VF_ASSERT(n_acq == 0, "lookups take no lock and write nothing");
    unit_unmap_thread(&glob, pre_unit[w]);
    VF_ASSERT(!lk_held && n_acq == 1 && n_rel == 1, "unmap: one critical section");
    VF_ASSERT(lookup(pre_unit[w]) == NULL, "the unmapped unit no longer translates");
    pre_live[w] = 0; others_intact();
    VF_REACH("unit_unmap/get"); VF_COVER(npre == VF_N && w == 0, "deep node");
}
/* The same unit value mapped twice: abt.h allows a pool's create_unit to hand out the ABT_thread handle itself, so two user
 * pools may give the SAME unit for one work unit, and a move between them maps the new association before it unmaps the old
 * one (ABTI_unit_set_associated_pool).  One unmap ends ONE association: the unit must still translate afterwards. */
void h_unit_unmap_dup(void)
{
    build(); VF_ASSUME(npre == 2 && pre_live[0] && pre_live[1]);
    pre[1]->unit.val = (void *)pre_unit[0]; pre[1]->p_thread = &pre_thread[0]; /* second association of the same unit with the same work unit */
    unit_unmap_thread(&glob, pre_unit[0]);
    VF_ASSERT(!lk_held && n_acq == 1 && n_rel == 1, "unmap: one critical section");
    VF_ASSERT(lookup(pre_unit[0]) == &pre_thread[0], "one unmap ends ONE association: a unit that is still associated (mapped twice, unmapped once) still translates to its work unit");
    VF_ASSERT((pre[0]->unit.val == (void *)ABT_UNIT_NULL) != (pre[1]->unit.val == (void *)ABT_UNIT_NULL), "exactly one node is tombstoned");
    if (other_added) VF_ASSERT(lookup(other_unit) == &other_thread, "a mapping made concurrently by another stream is not lost");
    VF_REACH("unit_unmap dup");
}
void h_hash_index(void)
{
    uintptr_t u; size_t i = unit_get_hash_index((ABT_unit)u);
    VF_ASSERT(i < ABTI_UNIT_HASH_TABLE_SIZE, "hash index inside the table for every handle");
    VF_REACH("hash index");
}
