/* C14: unit.c unit_get_thread_from_user_defined_unit -- the lock-free translation
 * of a user-defined unit to its work unit, on a bucket chain of ANY length
 * (summary node S: an arbitrary node of the bucket at every iteration, which
 * also covers nodes prepended, tombstoned or reused concurrently -- nodes are
 * never unlinked or freed before finalize).  Precondition of the API: the unit
 * is mapped (the look-up "must succeed"), modelled by a chain that never ends.
 * Decided without a bound (partial correctness): the walk is memory safe; the
 * work unit returned is the one recorded in a node of the unit's own bucket
 * whose unit field equals the unit asked for; the bucket head is read with the
 * ACQUIRE variant; nothing is written. */
#include "vf.h"
struct vf_u2t; struct vf_u2t *vf_first, *vf_sum;
#include "abti.h"
struct vf_u2t { struct { ABTD_atomic_ptr val; } unit; ABTI_thread *p_thread; struct vf_u2t *p_next; }; /* layout of unit.c's unit_to_thread (checked below) */
#include <unit.c>
static ABTI_global glob; static unit_to_thread F, S; static ABTI_thread t1, t2;
void h_unit_lookup_any(void)
{
    VF_ASSERT(sizeof(struct vf_u2t) == sizeof(unit_to_thread) && offsetof(struct vf_u2t, p_next) == offsetof(unit_to_thread, p_next) && offsetof(struct vf_u2t, p_thread) == offsetof(unit_to_thread, p_thread), "ghost view of the node type matches");
    ABT_unit u; VF_ASSUME(u != ABT_UNIT_NULL && !ABTI_unit_is_builtin(u));
    vf_first = (struct vf_u2t *)&F; vf_sum = (struct vf_u2t *)&S;
    size_t hi = unit_get_hash_index(u); VF_ASSERT(hi < ABTI_UNIT_HASH_TABLE_SIZE, "bucket index in range");
    glob.unit_to_thread_entires[hi].list.val.val = &F; F.p_next = &S; S.p_next = &S; /* the unit is mapped: the chain does not end before it is found */
    { int a, b; F.p_thread = a ? &t1 : &t2; S.p_thread = b ? &t1 : &t2; }
    ABT_unit fu0 = (ABT_unit)F.unit.val.val; ABTI_thread *ft0 = F.p_thread;
    ABTI_thread *r = unit_get_thread_from_user_defined_unit(&glob, u);
    VF_ASSERT((fu0 == u && r == ft0) || ((ABT_unit)S.unit.val.val == u && r == S.p_thread), "the work unit returned is recorded in a node of this bucket whose unit is the unit asked for");
    VF_ASSERT((ABT_unit)F.unit.val.val == fu0 && F.p_thread == ft0 && F.p_next == &S && glob.unit_to_thread_entires[hi].list.val.val == &F, "a look-up writes nothing");
    VF_REACH("unit lookup any"); VF_COVER(fu0 != u, "found deep in the chain"); VF_COVER(fu0 == u, "found at the head");
}
