/* C04/C05/C03: arch/abtd_futex.c (Linux futex variant) -- the sleep side of
 * every blocking primitive for external threads and tasklets.
 * No lost wake-up: the futex word is sampled while the caller still holds the
 * wait-list lock, and exactly that sample is handed to FUTEX_WAIT; a signaller
 * (who needs the lock) bumps the word, so a wake-up issued after the release
 * makes FUTEX_WAIT return at once.  Other threads may change the word at any
 * time after the release (the release contract havocs it). */
#include "vf.h"
#include "abti.h"
ABTD_futex_multiple *vf_fm;
#define VF_LOCK_RELEASE_HAVOC vf_fm->val.val
#include "env/spinlock_ghost.h"
int vf_loads; /* sticky flag: a load has happened */
int vf_first_load_locked; int vf_first_sample;

static inline void ABTD_spinlock_release(ABTD_spinlock *p_lock)
__CPROVER_requires(vf_lock_held == 1 && vf_lock_which == p_lock)
__CPROVER_assigns(vf_lock_held, vf_releases, vf_fm->val.val) /* others may signal from now on */
__CPROVER_ensures(vf_lock_held == 0 && vf_releases == __CPROVER_old(vf_releases) + 1);

static inline int ABTD_atomic_relaxed_load_int(const ABTD_atomic_int *ptr)
__CPROVER_requires(__CPROVER_is_fresh(ptr, sizeof(*ptr)))
__CPROVER_assigns(vf_loads, vf_first_load_locked, vf_first_sample)
__CPROVER_ensures(__CPROVER_return_value == ptr->val && vf_loads == 1)
__CPROVER_ensures(__CPROVER_old(vf_loads) == 0 ==> (vf_first_load_locked == vf_lock_held && vf_first_sample == ptr->val))
__CPROVER_ensures(__CPROVER_old(vf_loads) != 0 ==> (vf_first_load_locked == __CPROVER_old(vf_first_load_locked) && vf_first_sample == __CPROVER_old(vf_first_sample)));

/* the kernel: FUTEX_WAIT sleeps only if *addr == val; in any case other threads
 * may have changed the word when it returns.  (syscall() is variadic, which the
 * contract instrumentation does not track; the seven-argument calls of the real
 * file are redirected by macro to this fixed-arity stub.) */
#include <unistd.h>
#include <linux/futex.h>
#include <syscall.h>
static unsigned n_wait, n_wake; static int did_wait, wait_val_ok, wake_count; static const void *sys_addr;
static long vf_syscall(long number, int *addr, int op, int val, const struct timespec *ts, void *a2, int v3)
{
    VF_ASSERT(number == SYS_futex, "only futex system calls");
    sys_addr = addr;
    if (op == FUTEX_WAIT_PRIVATE) {
        VF_ASSERT(vf_lock_held == 0, "never sleeps in the kernel holding the wait-list lock");
        wait_val_ok = (did_wait ? wait_val_ok : 1) && (val == vf_first_sample);
        did_wait = 1; n_wait++;
        int nv; *addr = nv; /* time passes: anybody may bump the word */
    } else { n_wake++; wake_count = val; }
    long r; return r;
}
#define syscall vf_syscall
#include "arch/abtd_futex.c"
#undef syscall
#ifndef ABT_CONFIG_USE_LINUX_FUTEX
#error "configuration changed: the pthread-based futex is compiled in and has no unit"
#endif

static ABTD_futex_multiple fm; static ABTD_spinlock lk;
static void setup(void) { vf_fm = &fm; vf_lock_held = 1; vf_lock_which = &lk; vf_loads = 0; n_wait = 0; did_wait = 0; n_wake = 0; wait_val_ok = 1; VF_ASSUME(vf_releases < 100); }

void h_futex_wait_and_unlock(void)
{
    setup(); unsigned r0 = vf_releases;
    ABTD_futex_wait_and_unlock(&fm, &lk);
    VF_ASSERT(vf_first_load_locked == 1, "the futex word is sampled while the wait-list lock is still held");
    VF_ASSERT(vf_lock_held == 0 && vf_releases == r0 + 1, "lock released exactly once");
    VF_ASSERT(did_wait && wait_val_ok && sys_addr == &fm.val.val, "every FUTEX_WAIT compares against the sample taken under the lock, on this futex word");
    VF_ASSERT(fm.val.val != vf_first_sample, "returns only after the word has changed (a broadcast happened)");
    VF_REACH("futex_wait_and_unlock returns");
}
void h_futex_timedwait_and_unlock(void)
{
    setup(); unsigned r0 = vf_releases; double dt; VF_ASSUME(dt >= 0.0 && dt < 1e9);
    ABTD_futex_timedwait_and_unlock(&fm, &lk, dt);
    VF_ASSERT(vf_first_load_locked == 1, "the futex word is sampled while the wait-list lock is still held");
    VF_ASSERT(vf_lock_held == 0 && vf_releases == r0 + 1, "lock released exactly once");
    VF_ASSERT(n_wait == 1 && wait_val_ok && sys_addr == &fm.val.val, "one FUTEX_WAIT against the sample taken under the lock");
    VF_REACH("futex_timedwait_and_unlock returns");
}
void h_futex_broadcast(void)
{
    setup(); int v0 = fm.val.val; VF_ASSUME(v0 < INT_MAX); /* A9: fewer than 2^31 wake-ups per wait list */
    ABTD_futex_broadcast(&fm);
    VF_ASSERT(fm.val.val == v0 + 1, "the futex word changes at every broadcast (waiters that sampled before see a different value)");
    VF_ASSERT(n_wake == 1 && wake_count == INT_MAX && sys_addr == &fm.val.val, "all sleepers on this word are woken");
    VF_REACH("futex_broadcast returns");
}
void h_futex_single(void)
{
    ABTD_futex_single fs; fs.val.val = 0; n_wait = 0; did_wait = 0; n_wake = 0; vf_lock_held = 0; vf_loads = 1;
    ABTD_futex_resume(&fs);
    VF_ASSERT(fs.val.val == 1 && n_wake == 1 && wake_count == 1 && sys_addr == &fs.val.val, "resume: word set to 1, then one sleeper woken");
    ABTD_futex_suspend(&fs);
    VF_ASSERT(!did_wait, "suspend after resume does not sleep");
    VF_REACH("futex single");
}
