/* C04 (and every property that uses the ghost lockset of env/spinlock.h):
 * abtd_spinlock.h -- the REAL spinlock against its environment contract.
 * Environment (A2, A3): the lock word is shared; while this thread does not
 * hold the lock, other threads set and clear it at will, so a test-and-set or
 * a load returns an arbitrary value; while this thread holds it nobody else
 * clears it (rely = every other thread obeys "only the holder clears").
 * Ghost: vf_hold = this thread's test-and-set found the word clear and set it.
 * Mutual exclusion is then the atomicity of test-and-set: between two clears
 * at most one test-and-set returns 0. */
#include "vf.h"
int vf_hold; unsigned vf_n_tas, vf_n_tas_won, vf_n_clear_rel, vf_n_clear_rlx, vf_n_loads; const void *vf_word;
#include "abti.h"
static inline uint16_t ABTD_atomic_test_and_set_bool(ABTD_atomic_bool *ptr)
__CPROVER_requires(ptr == vf_word)
__CPROVER_assigns(vf_hold, vf_n_tas, vf_n_tas_won)
__CPROVER_ensures(__CPROVER_return_value == 0 || __CPROVER_return_value == 1)
__CPROVER_ensures(__CPROVER_old(vf_hold) == 1 ==> __CPROVER_return_value == 1) /* the word stays set while I hold it */
__CPROVER_ensures(vf_n_tas == __CPROVER_old(vf_n_tas) + 1)
__CPROVER_ensures(__CPROVER_return_value == 0 ? (vf_hold == 1 && vf_n_tas_won == __CPROVER_old(vf_n_tas_won) + 1) : (vf_hold == __CPROVER_old(vf_hold) && vf_n_tas_won == __CPROVER_old(vf_n_tas_won)));
static inline ABT_bool ABTD_atomic_acquire_load_bool(const ABTD_atomic_bool *ptr)
__CPROVER_requires(ptr == vf_word)
__CPROVER_assigns(vf_n_loads)
__CPROVER_ensures(__CPROVER_return_value == ABT_TRUE || __CPROVER_return_value == ABT_FALSE)
__CPROVER_ensures(vf_hold == 1 ==> __CPROVER_return_value == ABT_TRUE)
__CPROVER_ensures(vf_n_loads == __CPROVER_old(vf_n_loads) + 1);
static inline void ABTD_atomic_release_clear_bool(ABTD_atomic_bool *ptr)
__CPROVER_requires(ptr == vf_word && vf_hold == 1) /* only the holder clears the word */
__CPROVER_assigns(vf_hold, vf_n_clear_rel)
__CPROVER_ensures(vf_hold == 0 && vf_n_clear_rel == __CPROVER_old(vf_n_clear_rel) + 1);
static inline void ABTD_atomic_relaxed_clear_bool(ABTD_atomic_bool *ptr)
__CPROVER_requires(ptr == vf_word)
__CPROVER_assigns(vf_hold, vf_n_clear_rlx)
__CPROVER_ensures(vf_hold == 0 && vf_n_clear_rlx == __CPROVER_old(vf_n_clear_rlx) + 1);

static ABTD_spinlock lk;
static void setup(void) { vf_word = &lk.val; VF_ASSUME(vf_n_tas < 1000 && vf_n_tas_won < 1000 && vf_n_clear_rel < 1000 && vf_n_clear_rlx < 1000 && vf_n_loads < 1000); }
void h_spin_acquire(void)
{
    setup(); vf_hold = 0; unsigned w0 = vf_n_tas_won, c0 = vf_n_clear_rel + vf_n_clear_rlx;
    ABTD_spinlock_acquire(&lk);
    VF_ASSERT(vf_hold == 1 && vf_n_tas_won == w0 + 1, "acquire returns only after ONE test-and-set of this call found the word clear and set it");
    VF_ASSERT(vf_n_clear_rel + vf_n_clear_rlx == c0, "acquire never clears the word");
    VF_REACH("acquire returns");
}
void h_spin_try_release(void)
{
    setup(); vf_hold = 0; unsigned t0 = vf_n_tas, w0 = vf_n_tas_won, c0 = vf_n_clear_rel, x0 = vf_n_clear_rlx;
    ABT_bool r = ABTD_spinlock_try_acquire(&lk);
    VF_ASSERT(vf_n_tas == t0 + 1 && (r == ABT_FALSE) == (vf_n_tas_won == w0 + 1) && (r == ABT_FALSE) == (vf_hold == 1) && (r == ABT_TRUE || r == ABT_FALSE),
              "try_acquire: one test-and-set; reports 'acquired' (ABT_FALSE) iff that test-and-set found the word clear");
    VF_ASSERT(vf_n_clear_rel == c0 && vf_n_clear_rlx == x0, "try_acquire never clears the word (a failed attempt leaves the holder's lock intact)");
    if (r == ABT_FALSE) {
        VF_ASSERT(ABTD_spinlock_is_locked(&lk) == ABT_TRUE, "a held lock reads as locked");
        ABTD_spinlock_release(&lk);
        VF_ASSERT(vf_hold == 0 && vf_n_clear_rel == c0 + 1 && vf_n_clear_rlx == x0, "release: the word is cleared exactly once, with the RELEASE variant (the critical section's writes are visible to the next holder)");
    }
    VF_REACH("try/release"); VF_COVER(r == ABT_FALSE, "acquired"); VF_COVER(r == ABT_TRUE, "busy");
}
