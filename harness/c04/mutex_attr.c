/* C04: mutex_attr.c -- the attribute object that decides whether a mutex is
 * recursive: the recursive flag is exactly what the LAST set_recursive said
 * (setting it back to ABT_FALSE clears it), get reads it back, a fresh
 * attribute is non-recursive; a mutex created from the attribute is recursive
 * iff the flag is set (unit mutex_create_free), and ABT_mutex_get_attr reports
 * the mutex's own kind. */
#include "vf.h"
#include "abti.h"
#include <mutex_attr.c>
void h_mutex_attr(void)
{
    ABT_mutex_attr a = (ABT_mutex_attr)0x55;
    int r = ABT_mutex_attr_create(&a);
    if (r != ABT_SUCCESS) { VF_ASSERT(r == ABT_ERR_MEM, "only an allocation failure"); VF_REACH("attr create failed"); return; }
    ABTI_mutex_attr *p = ABTI_mutex_attr_get_ptr(a); ABT_bool g = 7;
    VF_ASSERT(p->attrs == ABTI_MUTEX_ATTR_NONE && ABT_mutex_attr_get_recursive(a, &g) == ABT_SUCCESS && g == ABT_FALSE, "a fresh attribute is non-recursive");
    /* any sequence of two settings from any starting value of the other attribute bits */
    uint32_t other; VF_ASSUME((other & ABTI_MUTEX_ATTR_RECURSIVE) == 0); p->attrs |= other;
    ABT_bool s1, s2; VF_ASSUME((s1 == ABT_TRUE || s1 == ABT_FALSE) && (s2 == ABT_TRUE || s2 == ABT_FALSE));
    VF_ASSERT(ABT_mutex_attr_set_recursive(a, s1) == ABT_SUCCESS && ABT_mutex_attr_set_recursive(a, s2) == ABT_SUCCESS, "settings accepted");
    VF_ASSERT(((p->attrs & ABTI_MUTEX_ATTR_RECURSIVE) != 0) == (s2 == ABT_TRUE), "the recursive flag is exactly what the LAST set_recursive asked for (ABT_FALSE clears an earlier ABT_TRUE)");
    VF_ASSERT((p->attrs & ~ABTI_MUTEX_ATTR_RECURSIVE) == other, "other attribute bits are untouched");
    VF_ASSERT(ABT_mutex_attr_get_recursive(a, &g) == ABT_SUCCESS && g == s2, "get reads the flag back");
    VF_ASSERT(ABT_mutex_attr_set_recursive(ABT_MUTEX_ATTR_NULL, ABT_TRUE) == ABT_ERR_INV_MUTEX_ATTR && ABT_mutex_attr_get_recursive(ABT_MUTEX_ATTR_NULL, &g) == ABT_ERR_INV_MUTEX_ATTR, "NULL attribute rejected");
    r = ABT_mutex_attr_free(&a); VF_ASSERT(r == ABT_SUCCESS && a == ABT_MUTEX_ATTR_NULL, "free releases once, handle reset");
    VF_REACH("mutex attr"); VF_COVER(s1 == ABT_TRUE && s2 == ABT_FALSE, "set, then cleared");
}
