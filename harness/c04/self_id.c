/* C04: abti_self.h + local.c -- the identity used as owner of a recursive
 * mutex (ABTI_self_get_thread_id).  Recursion is per WORK UNIT: two ULTs or
 * tasklets that run on the same execution stream must have different
 * identities (otherwise the second one is taken for the owner and walks into
 * the critical section), the same work unit has the same identity on whatever
 * stream it runs, and an external thread is identified by the address of its
 * thread-local slot (never 0, never a work unit).  The units on the recursive
 * layer (mutex_recursive) use exactly this contract: "returns vf_self != 0". */
#include "vf.h"
#include "abti.h"
#include <local.c>
static ABTI_xstream xs1, xs2; static ABTI_ythread a, b;
void h_self_thread_id(void)
{
    /* work unit A on stream 1, then work unit B on the same stream, then A on stream 2 */
    xs1.p_thread = &a.thread; ABTI_thread_id id_a1 = ABTI_self_get_thread_id((ABTI_local *)&xs1);
    xs1.p_thread = &b.thread; ABTI_thread_id id_b1 = ABTI_self_get_thread_id((ABTI_local *)&xs1);
    xs2.p_thread = &a.thread; ABTI_thread_id id_a2 = ABTI_self_get_thread_id((ABTI_local *)&xs2);
    VF_ASSERT(id_a1 == (ABTI_thread_id)&a.thread && id_b1 == (ABTI_thread_id)&b.thread, "a work unit is identified by its own descriptor");
    VF_ASSERT(id_a1 != id_b1, "two work units on the same execution stream have different identities (recursion is per work unit, not per stream)");
    VF_ASSERT(id_a1 == id_a2, "a work unit keeps its identity when it is resumed on another stream");
    VF_ASSERT(id_a1 != 0 && id_b1 != 0, "never the 'no owner' value");
    /* external thread */
    ABTI_thread_id id_ext = ABTI_self_get_thread_id(NULL);
    VF_ASSERT(id_ext == (ABTI_thread_id)&lp_ABTI_local && id_ext != 0 && id_ext != id_a1 && id_ext != id_b1, "an external thread is identified by its thread-local slot: non-zero and no work unit");
    VF_REACH("self ids");
}
