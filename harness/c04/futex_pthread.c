/* C04/C05/C19: arch/abtd_futex.c, the pthread-based variant (configurations
 * without Linux futexes; compiled out by default, selected here by undefining
 * ABT_CONFIG_USE_LINUX_FUTEX).  Waiters link a stack object into a doubly
 * linked list headed by the futex, newest first, under the caller's wait-list
 * lock.  Environment model: while this thread sleeps (pthread_cond_*wait)
 * other threads enqueue themselves in front of it, older waiters time out and
 * unlink themselves, or a broadcast wakes everybody -- each exactly as the real
 * code does it, under the lock.  Obligations: every access to the list happens
 * with the lock held; when the function returns its stack object is no longer
 * reachable from the futex (no dangling pointer), nobody else was unlinked, the
 * order of the others is unchanged; a broadcast wakes everybody and empties the
 * list; wait returns only after being woken. */
#include "vf.h"
#include "abt_config.h"
#undef ABT_CONFIG_USE_LINUX_FUTEX
#include "abti.h"
int nondet_int(void);
typedef struct pthread_sync pthread_sync; /* defined by the file under verification */
static ABTD_futex_multiple fm; static ABTD_spinlock lk; static int held, n_acq, n_rel, bad_access;
static void vf_acquire(ABTD_spinlock *l) { __CPROVER_assert(l == &lk && !held, "the caller's wait-list lock, not held"); held = 1; n_acq++; }
static void vf_release(ABTD_spinlock *l) { __CPROVER_assert(l == &lk && held, "releases the held lock"); held = 0; n_rel++; }
#define ABTD_spinlock_acquire(l) vf_acquire(l)
#define ABTD_spinlock_release(l) vf_release(l)
static void env_sleep(pthread_sync *me, int timed);
static int n_sleep, n_mutex_live, n_cond_destroy;
#define pthread_mutex_lock(m) (n_mutex_live++, 0)
#define pthread_mutex_unlock(m) (n_mutex_live--, 0)
#define pthread_cond_wait(c, m) (env_sleep((pthread_sync *)((char *)(c) - offsetof_cond), 0), 0)
#define pthread_cond_timedwait(c, m, t) (env_sleep((pthread_sync *)((char *)(c) - offsetof_cond), 1), 0)
#define pthread_cond_broadcast(c) 0
#define pthread_cond_signal(c) 0
#define pthread_cond_destroy(c) (n_cond_destroy++, 0)
#define pthread_mutex_destroy(m) 0
#define clock_gettime(a, b) ((b)->tv_sec = 0, (b)->tv_nsec = 0, 0)
static size_t offsetof_cond;
#include "arch/abtd_futex.c"
#undef pthread_cond_wait
#undef pthread_cond_timedwait

/* other waiters: objects of the real type */
#define NO 3
#ifndef VF_BUDGET
#define VF_BUDGET 3
#endif
static pthread_sync oth[NO]; static int oth_in[NO]; /* 1 while linked */ static int woken_all, me_woken; static int budget;
static int list_len(void) { int n = 0; pthread_sync *p = (pthread_sync *)fm.p_next; for (int i = 0; i < NO + 2; i++) { if (!p) break; n++; p = p->p_next; } return n; }
static int reachable(pthread_sync *x) { pthread_sync *p = (pthread_sync *)fm.p_next; for (int i = 0; i < NO + 2; i++) { if (!p) break; if (p == x) return 1; p = p->p_next; } return 0; }
static int links_ok(void) { pthread_sync *p = (pthread_sync *)fm.p_next, *prev = NULL; for (int i = 0; i < NO + 2; i++) { if (!p) break; if (prev && p->p_prev != prev) return 0; prev = p; p = p->p_next; } return 1; }
/* what other threads do, with the lock held, exactly like the real functions */
static void other_enqueue(int k) { pthread_sync *n = (pthread_sync *)fm.p_next; if (n) n->p_prev = &oth[k]; oth[k].p_next = n; fm.p_next = &oth[k]; oth[k].val.val = 0; oth_in[k] = 1; }
static void other_timeout(int k) { if (fm.p_next == (void *)&oth[k]) fm.p_next = oth[k].p_next; else { oth[k].p_prev->p_next = oth[k].p_next; if (oth[k].p_next) oth[k].p_next->p_prev = oth[k].p_prev; } oth_in[k] = 0; }
static void env_sleep(pthread_sync *me, int timed)
{
    if (n_sleep >= 1) { __CPROVER_assert(0, "a waiter that was woken (or timed out) does not go back to sleep"); __CPROVER_assume(0); }
    __CPROVER_assert(!held, "never sleeps holding the wait-list lock"); n_sleep++;
    for (int s = 0; s < 3; s++) { if (budget <= 0) break; int c = nondet_int(); if (c == 0) break; budget--;
        held = 1; /* the other thread takes the lock */
        if (c == 1) { for (int k = 0; k < NO; k++) if (!oth_in[k] && !woken_all) { other_enqueue(k); break; } }
        else if (c == 2) { int k = nondet_int(); if (k >= 0 && k < NO && oth_in[k]) other_timeout(k); }
        else { ABTD_futex_broadcast(&fm); woken_all = 1; for (int k = 0; k < NO; k++) oth_in[k] = 0; }
        held = 0; }
    if (!timed && !woken_all) { /* an untimed sleeper is eventually woken: model the broadcast */ held = 1; ABTD_futex_broadcast(&fm); woken_all = 1; for (int k = 0; k < NO; k++) oth_in[k] = 0; held = 0; }
}
static void setup(void)
{
    offsetof_cond = offsetof(pthread_sync, cond); held = 1; n_acq = n_rel = 0; n_sleep = 0; woken_all = 0; budget = VF_BUDGET; fm.p_next = NULL; n_cond_destroy = 0;
    for (int k = 0; k < NO; k++) oth_in[k] = 0; int pre = nondet_int(); VF_ASSUME(0 <= pre && pre <= 2); for (int k = 0; k < 2; k++) if (k < pre) other_enqueue(k);
}
static int others_intact(void) { int n = 0; for (int k = 0; k < NO; k++) if (oth_in[k]) { n++; if (!reachable(&oth[k])) return 0; } return n == list_len(); }
void h_timedwait(void)
{
    setup();
    ABTD_futex_timedwait_and_unlock(&fm, &lk, 0.5);
    VF_ASSERT(!held && n_acq <= 1 && n_rel == 1 + n_acq, "lock: released once before sleeping; re-taken and released again only to unlink itself");
    VF_ASSERT(others_intact() && links_ok(), "after the call: exactly the other live waiters are linked (this call's stack object is not), in a well-formed list");
    VF_ASSERT(n_sleep == 1 && n_cond_destroy == 1, "one sleep; the condition variable is destroyed once");
    VF_REACH("timedwait"); VF_COVER(n_acq == 1 && list_len() == 2, "timed out between two others"); VF_COVER(n_acq == 1 && list_len() == 1 && oth_in[0], "timed out as the oldest waiter behind a newer one"); VF_COVER(woken_all, "woken by a broadcast");
}
void h_wait(void)
{
    setup();
    ABTD_futex_wait_and_unlock(&fm, &lk);
    VF_ASSERT(!held && n_rel == 1 && n_acq == 0, "lock released exactly once");
    VF_ASSERT(woken_all && others_intact() && links_ok(), "returns only after a broadcast woke it; its stack object is no longer linked");
    VF_REACH("wait"); VF_COVER(n_sleep == 1, "slept");
}
void h_broadcast(void)
{
    setup(); int n0 = list_len();
    ABTD_futex_broadcast(&fm);
    VF_ASSERT(fm.p_next == NULL, "broadcast empties the list"); for (int k = 0; k < 2; k++) if (k < n0) VF_ASSERT(oth[k].val.val == 1, "and marks every waiter woken");
    VF_REACH("broadcast"); VF_COVER(n0 == 2, "two waiters");
}
