/* C04: abti_mutex.h -- two-lock protocol of ABTI_mutex.
 *   lock         the mutex word: whoever test-and-sets it holds the mutex
 *   waiter_lock  protects the wait list AND every clearing of the mutex word
 * J (invariant of waiter_lock): wait list non-empty => mutex word set.
 * Ghost: vf_mine = this caller holds the mutex word; vf_wl = this caller holds
 * waiter_lock; vf_seen_set = under the current waiter_lock hold the word was
 * observed set (by a failed try_acquire) -- it cannot be cleared until
 * waiter_lock is released, which is what keeps J when a waiter is enqueued. */
#include "vf.h"
/* ghost state is declared before the real headers because the loop contract
 * inserted into abti_mutex.h mentions it */
struct ABTI_mutex;
struct ABTI_mutex *vf_mx;
size_t vf_wl_len; unsigned vf_n_wait, vf_n_bcast, vf_t_bcast;
int vf_mine, vf_wl, vf_seen_set;
unsigned vf_clk, vf_t_wl_acq, vf_t_word_rel, vf_t_wl_rel, vf_n_word_rel, vf_n_wl_acq, vf_n_wl_rel, vf_n_try, vf_n_word_acq;
int vf_last_try_acquired;
#define SPIN_GHOST vf_mine, vf_wl, vf_seen_set, vf_clk, vf_t_wl_acq, vf_t_word_rel, vf_t_wl_rel, vf_n_word_rel, vf_n_wl_acq, vf_n_wl_rel, vf_n_try, vf_n_word_acq, vf_last_try_acquired
#include "abti.h"

static inline ABT_bool ABTD_spinlock_try_acquire(ABTD_spinlock *p_lock)
__CPROVER_requires(p_lock == &vf_mx->lock && vf_mine == 0) /* only the mutex word is test-and-set; never by its holder */
__CPROVER_assigns(vf_mine, vf_seen_set, vf_n_try, vf_last_try_acquired, vf_n_word_acq, vf_mx->nesting_cnt, vf_mx->owner_id)
__CPROVER_ensures(__CPROVER_return_value == ABT_TRUE || __CPROVER_return_value == ABT_FALSE)
/* invariant of the mutex word (it protects owner_id / nesting_cnt): a free mutex has no owner and depth 0 */
__CPROVER_ensures(__CPROVER_return_value == ABT_FALSE ==> (vf_mx->nesting_cnt == 0 && vf_mx->owner_id == 0))
__CPROVER_ensures(__CPROVER_return_value == ABT_TRUE ==> (vf_mx->nesting_cnt == __CPROVER_old(vf_mx->nesting_cnt) && vf_mx->owner_id == __CPROVER_old(vf_mx->owner_id)))
__CPROVER_ensures(vf_n_try == __CPROVER_old(vf_n_try) + 1)
__CPROVER_ensures(__CPROVER_return_value == ABT_FALSE ==> (vf_mine == 1 && vf_last_try_acquired == 1 && vf_n_word_acq == __CPROVER_old(vf_n_word_acq) + 1 && vf_seen_set == (vf_wl ? 1 : __CPROVER_old(vf_seen_set))))
__CPROVER_ensures(__CPROVER_return_value == ABT_TRUE ==> (vf_mine == 0 && vf_last_try_acquired == 0 && vf_n_word_acq == __CPROVER_old(vf_n_word_acq) && vf_seen_set == (vf_wl ? 1 : __CPROVER_old(vf_seen_set))));

static inline void ABTD_spinlock_acquire(ABTD_spinlock *p_lock)
__CPROVER_requires((p_lock == &vf_mx->waiter_lock && vf_wl == 0) || (p_lock == &vf_mx->lock && vf_mine == 0))
__CPROVER_assigns(SPIN_GHOST)
__CPROVER_assigns(p_lock == &vf_mx->lock : vf_mx->nesting_cnt, vf_mx->owner_id)
__CPROVER_ensures(p_lock == &vf_mx->lock ==> (vf_mx->nesting_cnt == 0 && vf_mx->owner_id == 0))
__CPROVER_ensures(p_lock == &vf_mx->waiter_lock ==> (vf_wl == 1 && vf_seen_set == 0 && vf_mine == __CPROVER_old(vf_mine) && vf_clk == __CPROVER_old(vf_clk) + 1 && vf_t_wl_acq == vf_clk &&
    vf_n_wl_acq == __CPROVER_old(vf_n_wl_acq) + 1 && vf_n_wl_rel == __CPROVER_old(vf_n_wl_rel) && vf_n_word_rel == __CPROVER_old(vf_n_word_rel) && vf_n_word_acq == __CPROVER_old(vf_n_word_acq) && vf_n_try == __CPROVER_old(vf_n_try) &&
    vf_t_word_rel == __CPROVER_old(vf_t_word_rel) && vf_t_wl_rel == __CPROVER_old(vf_t_wl_rel)))
__CPROVER_ensures(p_lock == &vf_mx->lock ==> (vf_mine == 1 && vf_wl == __CPROVER_old(vf_wl) && vf_n_word_acq == __CPROVER_old(vf_n_word_acq) + 1 && vf_n_wl_acq == __CPROVER_old(vf_n_wl_acq) && vf_n_try == __CPROVER_old(vf_n_try)));

static inline void ABTD_spinlock_release(ABTD_spinlock *p_lock)
/* the mutex word is cleared only by its holder and only under waiter_lock;
 * waiter_lock is released only in a state where J holds: either the wait list
 * is empty or the word is known to be set */
/* ... and in a state satisfying the word's own invariant (no owner, depth 0) */
__CPROVER_requires(p_lock == &vf_mx->lock ==> (vf_mx->nesting_cnt == 0 && vf_mx->owner_id == 0))
__CPROVER_requires((p_lock == &vf_mx->lock && vf_mine == 1 && vf_wl == 1) ||
                   (p_lock == &vf_mx->waiter_lock && vf_wl == 1 && (vf_wl_len == 0 || vf_mine == 1 || vf_seen_set == 1)))
__CPROVER_assigns(SPIN_GHOST)
__CPROVER_ensures(vf_clk == __CPROVER_old(vf_clk) + 1 && vf_n_try == __CPROVER_old(vf_n_try) && vf_n_word_acq == __CPROVER_old(vf_n_word_acq) && vf_n_wl_acq == __CPROVER_old(vf_n_wl_acq) && vf_t_wl_acq == __CPROVER_old(vf_t_wl_acq))
__CPROVER_ensures(p_lock == &vf_mx->lock ==> (vf_mine == 0 && vf_wl == 1 && vf_seen_set == 0 && vf_t_word_rel == vf_clk && vf_n_word_rel == __CPROVER_old(vf_n_word_rel) + 1 && vf_n_wl_rel == __CPROVER_old(vf_n_wl_rel) && vf_t_wl_rel == __CPROVER_old(vf_t_wl_rel)))
__CPROVER_ensures(p_lock == &vf_mx->waiter_lock ==> (vf_wl == 0 && vf_seen_set == 0 && vf_mine == __CPROVER_old(vf_mine) && vf_t_wl_rel == vf_clk && vf_n_wl_rel == __CPROVER_old(vf_n_wl_rel) + 1 && vf_n_word_rel == __CPROVER_old(vf_n_word_rel) && vf_t_word_rel == __CPROVER_old(vf_t_word_rel)));

/* wait-list (thin): enqueue only under waiter_lock after the word was seen set */
static inline void ABTI_waitlist_wait_and_unlock(ABTI_local **pp_local, ABTI_waitlist *p_waitlist, ABTD_spinlock *p_lock, ABT_sync_event_type t, void *p_sync)
__CPROVER_requires(p_waitlist == &vf_mx->waitlist && p_lock == &vf_mx->waiter_lock && vf_wl == 1)
__CPROVER_requires(vf_mine == 0 && vf_seen_set == 1) /* J: the waiter is enqueued in a state where the mutex is held by somebody */
__CPROVER_assigns(*pp_local, vf_wl, vf_seen_set, vf_n_wait, vf_wl_len, vf_n_wl_rel, vf_clk, vf_t_wl_rel)
__CPROVER_ensures(vf_wl == 0 && vf_seen_set == 0 && vf_n_wait == __CPROVER_old(vf_n_wait) + 1 && vf_n_wl_rel == __CPROVER_old(vf_n_wl_rel) + 1 && vf_clk == __CPROVER_old(vf_clk) + 1 && vf_t_wl_rel == vf_clk);
static inline void ABTI_waitlist_broadcast(ABTI_local *p_local, ABTI_waitlist *p_waitlist)
__CPROVER_requires(p_waitlist == &vf_mx->waitlist && vf_wl == 1) /* wait-list operations only under waiter_lock */
__CPROVER_assigns(vf_wl_len, vf_n_bcast, vf_t_bcast, vf_clk)
__CPROVER_ensures(vf_wl_len == 0 && vf_n_bcast == __CPROVER_old(vf_n_bcast) + 1 && vf_clk == __CPROVER_old(vf_clk) + 1 && vf_t_bcast == vf_clk);

/* identity of the caller for the recursive layer */
ABTI_thread_id vf_self;
static inline ABTI_thread_id ABTI_self_get_thread_id(ABTI_local *p_local)
__CPROVER_assigns() __CPROVER_ensures(__CPROVER_return_value == vf_self && vf_self != 0);

#include <mutex.c>

static ABTI_mutex mx;
static void setup(void)
{
    vf_mx = &mx; vf_wl = 0; vf_seen_set = 0;
    VF_ASSUME(vf_clk < 100 && vf_n_word_rel < 100 && vf_n_wl_acq < 100 && vf_n_wl_rel < 100 && vf_n_try < 100 && vf_n_word_acq < 100 && vf_n_wait < 100 && vf_n_bcast < 100);
    VF_ASSUME(vf_self != 0 && mx.nesting_cnt >= 0 && mx.nesting_cnt < 1000000); /* A9 */
}
void h_lock_no_recursion(void)
{
    setup(); vf_mine = 0; ABTI_local *l = NULL;
    unsigned a0 = vf_n_word_acq, wa0 = vf_n_wl_acq, wr0 = vf_n_wl_rel;
    ABTI_mutex_lock_no_recursion(&l, &mx);
    VF_ASSERT(vf_mine == 1 && vf_n_word_acq == a0 + 1, "returns only after ONE test-and-set by this call acquired the mutex word");
    VF_ASSERT(vf_wl == 0 && vf_n_wl_acq - wa0 == vf_n_wl_rel - wr0, "waiter_lock not held on return, every acquire matched");
    VF_REACH("lock_no_recursion returns");
    VF_COVER(vf_n_wl_acq == wa0, "uncontended"); VF_COVER(vf_n_wait > 0 && vf_n_wl_acq > wa0, "after waiting");
}
void h_unlock_no_recursion(void)
{
    setup(); vf_mine = 1; mx.owner_id = 0; mx.nesting_cnt = 0;
    unsigned r0 = vf_n_word_rel, wa0 = vf_n_wl_acq, wr0 = vf_n_wl_rel, b0 = vf_n_bcast;
    ABTI_mutex_unlock_no_recursion(NULL, &mx);
    VF_ASSERT(vf_mine == 0 && vf_wl == 0 && vf_n_word_rel == r0 + 1 && vf_n_wl_acq == wa0 + 1 && vf_n_wl_rel == wr0 + 1 && vf_n_bcast == b0 + 1, "word released, waiter_lock taken/released, one broadcast: each exactly once");
    VF_ASSERT(vf_t_wl_acq < vf_t_word_rel && vf_t_word_rel < vf_t_bcast && vf_t_bcast < vf_t_wl_rel, "order: take waiter_lock, clear the word, wake all waiters, release waiter_lock (no lost wake-up)");
    VF_REACH("unlock_no_recursion returns");
}
void h_trylock(void)
{
    setup(); vf_mine = 0; mx.attrs = ABTI_MUTEX_ATTR_NONE;
    unsigned t0 = vf_n_try;
    int r = ABTI_mutex_trylock(NULL, &mx);
    VF_ASSERT(vf_n_try == t0 + 1 && (r == ABT_SUCCESS) == (vf_last_try_acquired == 1) && (r == ABT_SUCCESS || r == ABT_ERR_MUTEX_LOCKED), "trylock succeeds iff its single test-and-set found the mutex free");
    VF_ASSERT((r == ABT_SUCCESS) == (vf_mine == 1) && vf_wl == 0 && vf_n_wait == vf_n_wait, "holds the mutex iff it reported success; never blocks");
    VF_REACH("trylock returns"); VF_COVER(r == ABT_SUCCESS, "free"); VF_COVER(r == ABT_ERR_MUTEX_LOCKED, "busy");
}
/* recursive layer against the abstract state (owner, depth) */
void h_recursive(void)
{
    setup(); mx.attrs = ABTI_MUTEX_ATTR_RECURSIVE;
    int i_own; ABTI_local *l = NULL;
    ABTI_thread_id o0; int d0 = mx.nesting_cnt;
    if (i_own) { mx.owner_id = vf_self; vf_mine = 1; } else { VF_ASSUME(mx.owner_id != vf_self); vf_mine = 0; VF_ASSUME(mx.owner_id == 0 ? d0 == 0 : 1); }
    o0 = mx.owner_id;
    int op; VF_ASSUME(0 <= op && op <= 3);
    unsigned a0 = vf_n_word_acq, r0 = vf_n_word_rel, t0 = vf_n_try;
    if (op == 0) { /* lock */
        ABTI_mutex_lock(&l, &mx);
        if (i_own) VF_ASSERT(mx.nesting_cnt == d0 + 1 && mx.owner_id == vf_self && vf_n_word_acq == a0 && vf_n_try == t0, "owner re-lock: depth+1, no operation on the mutex word");
        else VF_ASSERT(vf_mine == 1 && mx.owner_id == vf_self && mx.nesting_cnt == 0, "non-owner: acquires, becomes owner at depth 0");
    } else if (op == 1) { /* trylock */
        int r = ABTI_mutex_trylock(l, &mx);
        if (i_own) VF_ASSERT(r == ABT_SUCCESS && mx.nesting_cnt == d0 + 1 && vf_n_try == t0, "owner trylock: depth+1 without touching the word");
        else VF_ASSERT(r == ABT_SUCCESS ? (vf_mine == 1 && mx.owner_id == vf_self) : (vf_mine == 0 && mx.owner_id == o0 && mx.nesting_cnt == d0), "non-owner trylock: owner iff acquired; failure changes nothing");
    } else if (op == 2) { /* spinlock */
        ABTI_mutex_spinlock(l, &mx);
        if (i_own) VF_ASSERT(mx.nesting_cnt == d0 + 1 && vf_n_word_acq == a0, "owner spinlock: depth+1");
        else VF_ASSERT(vf_mine == 1 && mx.owner_id == vf_self, "non-owner spinlock: acquires and owns");
    } else { /* unlock by the owner */
        VF_ASSUME(i_own);
        ABTI_mutex_unlock(l, &mx);
        if (d0 > 0) VF_ASSERT(mx.nesting_cnt == d0 - 1 && mx.owner_id == vf_self && vf_mine == 1 && vf_n_word_rel == r0, "nested unlock: depth-1, mutex still held (released only after as many unlocks as locks)");
        else VF_ASSERT(mx.owner_id == 0 && vf_mine == 0 && vf_n_word_rel == r0 + 1, "outermost unlock: owner cleared, then the word released once");
    }
    VF_REACH("recursive op returns");
    VF_COVER(op == 0 && i_own, "relock"); VF_COVER(op == 3 && d0 == 0, "final unlock"); VF_COVER(op == 3 && d0 > 1, "nested unlock"); VF_COVER(op == 1 && !i_own, "foreign trylock");
}
/* non-recursive attr: owner/depth untouched; API delegation */
void h_api(void)
{
    setup(); mx.attrs = ABTI_MUTEX_ATTR_NONE; vf_mine = 0; lp_ABTI_local = NULL;
    mx.owner_id = 0; mx.nesting_cnt = 0; /* a plain mutex keeps the initial values */
    ABTI_thread_id o0 = mx.owner_id; int d0 = mx.nesting_cnt;
    int which; VF_ASSUME(0 <= which && which <= 4);
    int r;
    if (which == 0) r = ABT_mutex_lock((ABT_mutex)&mx); else if (which == 1) r = ABT_mutex_lock_low((ABT_mutex)&mx); else if (which == 2) r = ABT_mutex_lock_high((ABT_mutex)&mx);
    else if (which == 3) r = ABT_mutex_spinlock((ABT_mutex)&mx); else { r = ABT_mutex_trylock((ABT_mutex)&mx); VF_ASSUME(r == ABT_SUCCESS); }
    VF_ASSERT(r == ABT_SUCCESS && vf_mine == 1 && vf_wl == 0 && mx.owner_id == o0 && mx.nesting_cnt == d0, "every locking routine returns holding the mutex; owner/depth untouched for a plain mutex");
    int u; VF_ASSUME(0 <= u && u <= 2);
    unsigned r0 = vf_n_word_rel;
    if (u == 0) r = ABT_mutex_unlock((ABT_mutex)&mx); else if (u == 1) r = ABT_mutex_unlock_se((ABT_mutex)&mx); else r = ABT_mutex_unlock_de((ABT_mutex)&mx);
    VF_ASSERT(r == ABT_SUCCESS && vf_mine == 0 && vf_wl == 0 && vf_n_word_rel == r0 + 1, "every unlocking routine releases the mutex exactly once");
    VF_ASSERT(ABT_mutex_lock(ABT_MUTEX_NULL) == ABT_ERR_INV_MUTEX && ABT_mutex_trylock(ABT_MUTEX_NULL) == ABT_ERR_INV_MUTEX && ABT_mutex_unlock(ABT_MUTEX_NULL) == ABT_ERR_INV_MUTEX, "NULL handle rejected");
    VF_REACH("api");
}

/* a fresh mutex -- created from uninitialised memory or from the static initialisers -- is FREE: word clear, no
 * waiter, no owner, depth 0, and recursive exactly when asked for */
static int is_free_mutex(const ABTI_mutex *m, int attrs) { return m->lock.val.val == 0 && m->waiter_lock.val.val == 0 && m->waitlist.p_head == NULL && m->waitlist.p_tail == NULL && m->attrs == attrs && m->nesting_cnt == 0 && m->owner_id == 0; }
void h_mutex_create(void)
{
    ABT_mutex h = (ABT_mutex)0x55; int with_attr, rec; static ABTI_mutex_attr at; at.attrs = rec ? ABTI_MUTEX_ATTR_RECURSIVE : ABTI_MUTEX_ATTR_NONE;
    int r = with_attr ? ABT_mutex_create_with_attr((ABT_mutex_attr)&at, &h) : ABT_mutex_create(&h);
    if (r != ABT_SUCCESS) { VF_ASSERT(r == ABT_ERR_MEM && h == ABT_MUTEX_NULL, "failed creation: ABT_ERR_MEM and the NULL handle"); VF_REACH("mutex create failed"); return; }
    VF_ASSERT(is_free_mutex(ABTI_mutex_get_ptr(h), (with_attr && rec) ? ABTI_MUTEX_ATTR_RECURSIVE : ABTI_MUTEX_ATTR_NONE), "a fresh mutex is free, ownerless, at depth 0; recursive iff requested");
    /* static initialisers: the same representation */
    static ABT_mutex_memory m1 = ABT_MUTEX_INITIALIZER, m2 = ABT_RECURSIVE_MUTEX_INITIALIZER;
    { ABT_mutex_memory c1 = ABT_MUTEX_INITIALIZER, c2 = ABT_RECURSIVE_MUTEX_INITIALIZER; m1 = c1; m2 = c2; } /* (statics are havocked by the instrumentation) */
    VF_ASSERT(sizeof(ABTI_mutex) <= sizeof(ABT_mutex_memory), "the descriptor fits the user-visible storage");
    VF_ASSERT(is_free_mutex(ABTI_mutex_get_ptr(ABT_MUTEX_MEMORY_GET_HANDLE(&m1)), ABTI_MUTEX_ATTR_NONE) && is_free_mutex(ABTI_mutex_get_ptr(ABT_MUTEX_MEMORY_GET_HANDLE(&m2)), ABTI_MUTEX_ATTR_RECURSIVE), "ABT_MUTEX_INITIALIZER / ABT_RECURSIVE_MUTEX_INITIALIZER denote a free (recursive) mutex");
    r = ABT_mutex_free(&h); VF_ASSERT(r == ABT_SUCCESS && h == ABT_MUTEX_NULL, "free releases once, handle reset");
    VF_REACH("mutex create/free"); VF_COVER(with_attr && rec, "recursive");
}
