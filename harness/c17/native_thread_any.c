/* C17/C06: arch/abtd_stream.c -- the two wait loops of the native-thread state
 * machine for ANY number of spurious wake-ups and ANY number of revivals (loop
 * contracts on the real do-while / while(1) loops; units native_*_B bound both
 * at 2).  pthread model as in native_thread.c: while the caller sleeps in
 * pthread_cond_wait THE OTHER SIDE may change the state (joiner: the stream's
 * thread parks; native thread: revive, revive followed by a new join request,
 * or free), or the wake-up is spurious (state unchanged).
 * Partial correctness only: that the other side eventually acts is liveness. */
#include "vf.h"
#include "abti.h"
#include <pthread.h>
ABTD_xstream_context *vf_ctx; int vf_held, vf_role; unsigned vf_n_lock, vf_n_unlock, vf_n_signal, vf_n_body; int vf_waited, vf_bad, vf_join_pending, vf_join_signalled;
static ABTD_xstream_context ctx;
int pthread_mutex_lock(pthread_mutex_t *m) { if (vf_held || m != &ctx.state_lock) vf_bad = 1; vf_held = 1; vf_n_lock++; vf_join_pending = (ctx.state == ABTD_XSTREAM_CONTEXT_STATE_REQ_JOIN); vf_join_signalled = 0; return 0; }
int pthread_mutex_unlock(pthread_mutex_t *m) { if (!vf_held || m != &ctx.state_lock) vf_bad = 1; vf_held = 0; vf_n_unlock++; return 0; }
int pthread_cond_signal(pthread_cond_t *c) { if (!vf_held || c != &ctx.state_cond) vf_bad = 1; vf_n_signal++; vf_join_signalled = 1; return 0; }
int pthread_cond_wait(pthread_cond_t *c, pthread_mutex_t *m)
{
    if (!vf_held || c != &ctx.state_cond || m != &ctx.state_lock) vf_bad = 1; /* waits on state_cond with state_lock held */
    if (vf_role == 2 && vf_join_pending && !vf_join_signalled) vf_bad = 1;       /* a joiner that was already waiting must be signalled before the thread parks */
    vf_waited = 1;
    int ch; /* the other side acts while we sleep, or the wake-up is spurious */
    if (ch && vf_role == 1 && ctx.state == ABTD_XSTREAM_CONTEXT_STATE_REQ_JOIN) ctx.state = ABTD_XSTREAM_CONTEXT_STATE_WAITING;
    if (ch && vf_role == 2 && ctx.state == ABTD_XSTREAM_CONTEXT_STATE_WAITING) { int k; ctx.state = k == 0 ? ABTD_XSTREAM_CONTEXT_STATE_REQ_TERMINATE : k == 1 ? ABTD_XSTREAM_CONTEXT_STATE_RUNNING : ABTD_XSTREAM_CONTEXT_STATE_REQ_JOIN; }
    return 0;
}
#include "arch/abtd_stream.c"
static void reset(void) { vf_ctx = &ctx; vf_held = 0; vf_n_lock = vf_n_unlock = vf_n_signal = vf_n_body = 0; vf_waited = 0; vf_bad = 0; vf_join_pending = vf_join_signalled = 0; }

void h_context_join_any(void)
{
    reset(); vf_role = 1; int st; ctx.state = st ? ABTD_XSTREAM_CONTEXT_STATE_RUNNING : ABTD_XSTREAM_CONTEXT_STATE_WAITING; int st0 = ctx.state;
    ABTD_xstream_context_join(&ctx);
    VF_ASSERT(ctx.state == ABTD_XSTREAM_CONTEXT_STATE_WAITING, "join returns only once the native thread is parked (WAITING), after any number of spurious wake-ups");
    VF_ASSERT(!vf_held && vf_n_lock == 1 && vf_n_unlock == 1 && !vf_bad, "one critical section; waits only on state_cond under state_lock");
    VF_ASSERT(st0 == ABTD_XSTREAM_CONTEXT_STATE_WAITING ? !vf_waited : vf_waited, "an already parked thread is joined at once; a running one is waited for");
    VF_REACH("context_join any");
}
static void *body(void *a) { vf_n_body++; return NULL; }
void h_thread_func_any(void)
{
    reset(); vf_role = 2; ctx.thread_f = body; ctx.state = ABTD_XSTREAM_CONTEXT_STATE_RUNNING;
    xstream_context_thread_func(&ctx);
    VF_ASSERT(ctx.state == ABTD_XSTREAM_CONTEXT_STATE_REQ_TERMINATE, "the native thread ends only on a termination request, after any number of revivals and spurious wake-ups");
    VF_ASSERT(!vf_held && vf_n_lock == vf_n_unlock && !vf_bad, "lock released; every wait under the lock; a joiner found waiting when the body returns is signalled before the thread parks");
    VF_ASSERT(vf_n_body == vf_n_lock, "the stream body runs exactly once per (re)start");
    VF_REACH("thread_func any");
}
