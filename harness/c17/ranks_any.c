/* C17: stream.c -- the rank list at ANY length.
 * The list is NULL-terminated, doubly linked, strictly increasing in rank and
 * protected by xstream_list_lock.  For a requested rank r the streams split into
 * those with a smaller rank and those with a rank >= r.  The harness builds
 *
 *     head -> [S]* -> A -> B -> far...
 *
 * S : ONE object standing for every stream before A (rank < r, successor "again
 *     such a stream, or A"); the walks only read it, the loop contracts do NOT
 *     list it among their assigns targets, so a write to a passed stream is an
 *     obligation failure;
 * A : the last stream with a smaller rank (absent: r is smaller than every rank);
 * B : the first stream with rank >= r (absent: r is larger than every rank);
 *     what follows B is opaque (never read).
 * Every strictly sorted list has this form for every r, so the facts below hold
 * for lists of any length.  The loop invariants only say where the cursor is.
 * Decided here without a bound:
 *  rank_add_list_any      xstream_add_xstream_list: the new stream is linked between
 *                         A and B (all four links, or the head), nothing else written;
 *  rank_set_new_rank_any  xstream_set_new_rank with a requested rank: refused iff a
 *                         live stream holds it (B.rank == r), then nothing changes;
 *                         granted otherwise: linked at its sorted place, count + 1,
 *                         limit above the rank, one critical section;
 *  rank_change_rank_any   xstream_change_rank: own rank = no-op; taken rank = refused,
 *                         nothing changed, stream still listed; free rank: removed
 *                         once, re-ranked, added once, in this order, under the lock
 *                         (remove / add by the contracts the units rank_remove_window
 *                         and rank_add_list_any discharge).
 * NOT decided here (stays with the bounded units rank_*_B): "smallest unused rank"
 * for a stream created without a rank -- the dense prefix 0,1,2,.. is a
 * position-dependent shape that one summary object cannot carry. */
#include "vf.h"
struct ABTI_xstream; struct ABTI_xstream *vf_S, *vf_A, *vf_Bp, *vf_W, *vf_Wpre; int vf_pre, vf_hasA, vf_wpre;
int vf_lk_held, vf_stage, vf_r, vf_rank_free; unsigned vf_n_acq, vf_n_rel;
#include "abti.h"
static ABTI_global glob;
static void vf_acquire(ABTD_spinlock *l) { VF_ASSERT(!vf_lk_held && l == &glob.xstream_list_lock, "takes the stream-list lock (not re-entrantly)"); vf_lk_held = 1; vf_n_acq++; }
static void vf_release(ABTD_spinlock *l) { VF_ASSERT(vf_lk_held && l == &glob.xstream_list_lock, "releases the lock it holds"); vf_lk_held = 0; vf_n_rel++; }
#define ABTD_spinlock_acquire vf_acquire
#define ABTD_spinlock_release vf_release
#define snprintf(buf, n, ...) 0
#include <stream.c>
#undef snprintf
#undef ABTD_spinlock_acquire
#undef ABTD_spinlock_release

static ABTI_xstream S, A, B, NW, WP; static ABTI_xstream *far; static int has_B;
typedef struct { int rank; ABTI_xstream *p_prev, *p_next; } snap_t;
static snap_t S_o, A_o, B_o, WP_o, NW_o; static ABTI_xstream *head0;
#define SNAP(X) do { X##_o.rank = X.rank; X##_o.p_prev = X.p_prev; X##_o.p_next = X.p_next; } while (0)
/* ge: B.rank >= r allowed (the availability walk), otherwise B.rank > r (the rank is known to be free) */
static void build(int r, int ge, int with_wp)
{
    { int a, b, c, d, e; S.rank = a; A.rank = b; B.rank = c; NW.rank = d; WP.rank = e; } { ABTI_xstream *a, *b, *c; S.p_prev = a; NW.p_prev = b; NW.p_next = c; }
    { int p, a, b, w; vf_pre = !!p; vf_hasA = !!a; has_B = !!b; vf_wpre = with_wp && !!w; } VF_ASSUME(!vf_pre || vf_hasA); VF_ASSUME(!vf_wpre || vf_pre);
    /* a non-empty list is headed by the primary stream, rank 0, which is never re-ranked or freed while others live (checked in stream_set_rank_args / xstream_free): a free rank is therefore never smaller than every listed rank.  Without this the list code has a latent flaw, recorded in DESIGN 9.3: a stream inserted before the head keeps a stale p_prev */
    
    vf_S = &S; vf_A = &A; vf_Bp = has_B ? &B : NULL; vf_Wpre = &WP; vf_lk_held = 0; vf_n_acq = vf_n_rel = 0; vf_r = r;
    { ABTI_xstream *f; VF_ASSUME(f != &NW && f != &S && f != &A && f != &B && f != &WP); far = f; }
    { int n; S.p_next = vf_wpre ? (n == 0 ? &S : n == 1 ? &WP : &A) : (n ? &S : &A); } { int n; WP.p_next = n ? &S : &A; } WP.p_prev = &S;
    A.p_next = vf_Bp; A.p_prev = vf_pre ? &S : NULL; B.p_prev = vf_hasA ? &A : NULL; B.p_next = far;
    VF_ASSUME(S.rank >= 0 && S.rank < r && WP.rank >= 0 && WP.rank < r && A.rank >= 0 && A.rank < r && (ge ? B.rank >= r : B.rank > r)); VF_ASSUME(vf_hasA || !has_B || B.rank == 0);
    glob.p_xstream_head = vf_hasA ? (vf_pre ? &S : &A) : vf_Bp; head0 = glob.p_xstream_head;
    SNAP(S); SNAP(A); SNAP(B); SNAP(WP); SNAP(NW);
}
#define SAME(X) (X.rank == X##_o.rank && X.p_prev == X##_o.p_prev && X.p_next == X##_o.p_next)
static void linked_at_sorted_place(ABTI_xstream *n)
{
    VF_ASSERT(n->p_prev == (vf_hasA ? &A : NULL) && n->p_next == vf_Bp, "the stream's own links name the last stream with a smaller rank and the first with a larger one");
    VF_ASSERT(vf_hasA ? (A.p_next == n && glob.p_xstream_head == head0) : glob.p_xstream_head == n, "its predecessor (or the list head) leads to it");
    VF_ASSERT(!has_B || B.p_prev == n, "its successor's back link names it");
    VF_ASSERT(SAME(S) && SAME(WP) && A.rank == A_o.rank && A.p_prev == A_o.p_prev && B.rank == B_o.rank && B.p_next == far && (has_B || SAME(B)) && (vf_hasA || SAME(A)), "no other stream is written: ranks stay strictly sorted and distinct, the rest of the list is as before");
}

void h_rank_add_list_any(void)
{
    int r; VF_ASSUME(r >= 0 && r < 1000000); build(r, 0, 0); NW.rank = r;
    xstream_add_xstream_list(&glob, &NW);
    VF_ASSERT(NW.rank == r, "the rank is not touched"); linked_at_sorted_place(&NW);
    VF_REACH("add_list any"); VF_COVER(vf_pre && has_B, "middle of a long list"); VF_COVER(vf_hasA && !has_B, "new tail"); VF_COVER(!vf_hasA && !has_B, "first stream");
}

static void xstream_remove_xstream_list(ABTI_global *p_global, ABTI_xstream *p_xstream)
__CPROVER_requires(p_global == &glob && p_xstream == vf_W)
__CPROVER_requires(vf_lk_held == 1)             /* the list is edited under its lock */
__CPROVER_requires(vf_stage == 0)               /* once, before the re-insertion */
__CPROVER_requires(vf_rank_free == 1)           /* only after the requested rank was found free */
__CPROVER_assigns(vf_stage) __CPROVER_ensures(vf_stage == 1);
static void xstream_add_xstream_list(ABTI_global *p_global, ABTI_xstream *p_newxstream)
__CPROVER_requires(p_global == &glob && p_newxstream == vf_W)
__CPROVER_requires(vf_lk_held == 1)
__CPROVER_requires(vf_stage == 1)               /* the stream was unlinked first: it is never listed twice */
__CPROVER_requires(vf_rank_free == 1)           /* precondition of the insertion: no listed stream has this rank */
__CPROVER_requires(p_newxstream->rank == vf_r)  /* re-ranked before it is linked at the place of that rank */
__CPROVER_assigns(vf_stage) __CPROVER_ensures(vf_stage == 2);

void h_rank_set_new_rank_any(void)
{
    int r; VF_ASSUME(r >= 0 && r < 1000000); build(r, 1, 0);
    { int m, c; VF_ASSUME(m >= 1 && m < 2000000 && c >= 0 && c < 1000000); glob.max_xstreams = m; glob.num_xstreams = c; } int max0 = glob.max_xstreams, num0 = glob.num_xstreams;
    int taken = has_B && B.rank == r; vf_W = &NW; vf_rank_free = !taken; vf_stage = 1; /* a new stream is not listed yet */
    ABT_bool ok = xstream_set_new_rank(&glob, &NW, r);
    VF_ASSERT(!vf_lk_held && vf_n_acq == 1 && vf_n_rel == 1, "one critical section, lock released on every path");
    VF_ASSERT(SAME(S) && SAME(A) && SAME(B) && glob.p_xstream_head == head0, "the availability walk writes no stream");
    if (taken) {
        VF_ASSERT(ok == ABT_FALSE && vf_stage == 1, "a requested rank held by a live stream is refused, the stream is not linked");
        VF_ASSERT(glob.num_xstreams == num0 && glob.max_xstreams == max0 && NW.p_prev == NW_o.p_prev && NW.p_next == NW_o.p_next, "... and count and limit are unchanged");
        VF_REACH("refused");
    } else {
        VF_ASSERT(ok == ABT_TRUE && NW.rank == r && vf_stage == 2, "a requested free rank is granted: the stream is linked once, under the lock, carrying that rank");
        VF_ASSERT(glob.num_xstreams == num0 + 1 && glob.max_xstreams > r && glob.max_xstreams >= max0, "ABT_xstream_get_num counts the new stream; the limit covers the rank and never shrinks");
        VF_REACH("granted"); VF_COVER(vf_pre && has_B, "middle of a long list"); VF_COVER(!vf_hasA && !has_B, "first stream");
    }
}

void h_rank_change_rank_any(void)
{
    int r; VF_ASSUME(r >= 0 && r < 1000000); build(r, 1, 1);
    /* the stream to re-rank: a stream before A, A itself, B itself, or one beyond B (not visited by the walk) */
    static ABTI_xstream WF; { int a; WF.rank = a; } int w; VF_ASSUME(0 <= w && w <= 3);
    if (w == 0) { VF_ASSUME(vf_wpre); vf_W = &WP; } else if (w == 1) { VF_ASSUME(vf_hasA); vf_W = &A; } else if (w == 2) { VF_ASSUME(has_B); vf_W = &B; } else { VF_ASSUME(has_B && WF.rank > B.rank); vf_W = &WF; }
    int rank0 = vf_W->rank; int taken = has_B && B.rank == r; vf_rank_free = !taken; vf_stage = 0;
    { int m; VF_ASSUME(m >= 1 && m < 2000000); glob.max_xstreams = m; } int max0 = glob.max_xstreams;
    ABT_bool ok = xstream_change_rank(&glob, vf_W, r);
    VF_ASSERT(!vf_lk_held && vf_n_acq == vf_n_rel && vf_n_acq <= 1, "at most one critical section, lock released on every path");
    if (rank0 == r) { VF_ASSERT(ok == ABT_TRUE && vf_stage == 0 && vf_W->rank == r && glob.max_xstreams == max0, "changing to the own rank is a no-op success"); VF_REACH("own rank"); }
    else if (taken) { VF_ASSERT(ok == ABT_FALSE && vf_stage == 0 && vf_W->rank == rank0 && glob.max_xstreams == max0 && SAME(S) && SAME(A) && SAME(B) && SAME(WP) && glob.p_xstream_head == head0, "a rank held by another live stream is refused: nothing changes, the stream stays listed under its old rank"); VF_REACH("refused"); }
    else { VF_ASSERT(ok == ABT_TRUE && vf_stage == 2 && vf_W->rank == r && glob.max_xstreams > r && glob.max_xstreams >= max0, "a free rank is granted: unlinked once, re-ranked, linked once (in this order), limit covers the rank"); VF_REACH("granted"); VF_COVER(w == 0, "a stream deep in the list"); VF_COVER(w == 3, "a stream beyond the insertion point"); }
}
