/* C17 (bounded by the number of live streams): stream.c -- the rank list:
 * NULL-terminated doubly linked, strictly increasing non-negative ranks,
 * num_xstreams == length, protected by xstream_list_lock. */
#include "vf.h"
#include "abti.h"
static int lk_held; static unsigned n_acq, n_rel;
static ABTI_global glob;
static void vf_acquire(ABTD_spinlock *l) { VF_ASSERT(!lk_held && l == &glob.xstream_list_lock, "takes the stream-list lock (not re-entrantly)"); lk_held = 1; n_acq++; }
static void vf_release(ABTD_spinlock *l) { VF_ASSERT(lk_held && l == &glob.xstream_list_lock, "releases the lock it holds"); lk_held = 0; n_rel++; }
#define ABTD_spinlock_acquire vf_acquire
#define ABTD_spinlock_release vf_release
/* the one-off warning text is irrelevant here (and the libc model of snprintf loops) */
#define snprintf(buf, n, ...) 0
#include <stream.c>
#undef snprintf
#undef ABTD_spinlock_acquire
#undef ABTD_spinlock_release

#ifndef VF_N
#define VF_N 3
#endif
static ABTI_xstream xs[VF_N], nw; static int rk[VF_N]; static int n;
static void build(void)
{
    int k; VF_ASSUME(0 <= k && k <= VF_N); n = k; lk_held = 0; n_acq = n_rel = 0;
    glob.p_xstream_head = k ? &xs[0] : NULL; glob.num_xstreams = k;
    /* the head of a non-empty list is the primary stream: rank 0, never re-ranked or freed while others live
     * (ABT_xstream_set_rank / _free reject it).  Without this the list code has a latent flaw -- inserting an
     * EXISTING stream before the head leaves its stale p_prev -- which is unreachable through the API. */
    for (int i = 0; i < VF_N; i++) { int r; VF_ASSUME(r >= 0 && r < 1000000 && (i == 0 ? r == 0 : r > rk[i - 1])); rk[i] = r; xs[i].rank = r; xs[i].p_prev = i ? &xs[i - 1] : NULL; xs[i].p_next = (i + 1 < k) ? &xs[i + 1] : NULL; }
    { int m; VF_ASSUME(m >= 1 && m < 2000000); glob.max_xstreams = m; }
}
/* walk the list: sorted strictly increasing, back links consistent, length */
static int well_formed(int *len, int has[], ABTI_xstream *members[])
{
    ABTI_xstream *p = glob.p_xstream_head, *prev = NULL; int l = 0, last = -1, ok = 1;
    for (int i = 0; i < VF_N + 2; i++) { if (!p) break; ok = ok && p->p_prev == prev && p->rank > last && p->rank >= 0; last = p->rank; members[l] = p; l++; prev = p; p = p->p_next; }
    ok = ok && p == NULL; *len = l; return ok;
}
static int in_list(ABTI_xstream *x) { ABTI_xstream *p = glob.p_xstream_head; for (int i = 0; i < VF_N + 2; i++) { if (!p) return 0; if (p == x) return 1; p = p->p_next; } return 0; }
static int rank_used(int r) { for (int i = 0; i < VF_N; i++) if (i < n && rk[i] == r) return 1; return 0; }

void h_set_new_rank(void)
{
    build(); int r; VF_ASSUME(r >= -1 && r < 1000000); int max0 = glob.max_xstreams;
    ABT_bool ok = xstream_set_new_rank(&glob, &nw, r);
    VF_ASSERT(!lk_held && n_acq == 1 && n_rel == 1, "one critical section, lock released on every path");
    int len; ABTI_xstream *m[VF_N + 2]; int wf = well_formed(&len, NULL, m);
    VF_ASSERT(wf, "ranks of live streams stay pairwise distinct (strictly sorted list, consistent links)");
    if (r == -1) {
        VF_ASSERT(ok == ABT_TRUE && in_list(&nw) && !rank_used(nw.rank), "a stream created without a rank always gets an unused one");
        for (int q = 0; q < VF_N + 1; q++) if (q < nw.rank) VF_ASSERT(rank_used(q), "... the SMALLEST unused rank");
    } else if (rank_used(r)) {
        VF_ASSERT(ok == ABT_FALSE && !in_list(&nw) && len == n && glob.num_xstreams == n && glob.max_xstreams == max0, "a requested rank held by a live stream is refused; list, count and limit unchanged");
    } else VF_ASSERT(ok == ABT_TRUE && in_list(&nw) && nw.rank == r, "a requested free rank is granted");
    if (ok == ABT_TRUE) VF_ASSERT(len == n + 1 && glob.num_xstreams == n + 1 && glob.max_xstreams > nw.rank, "ABT_xstream_get_num counts the live streams; the limit covers the rank");
    for (int i = 0; i < VF_N; i++) if (i < n) VF_ASSERT(in_list(&xs[i]) && xs[i].rank == rk[i], "the other streams keep their ranks");
    VF_REACH("set_new_rank"); VF_COVER(r == -1 && n == VF_N && nw.rank == 1, "hole filled"); VF_COVER(r >= 0 && ok == ABT_FALSE, "refused"); VF_COVER(ok == ABT_TRUE && n == 0, "first stream (the primary)");
}
void h_change_rank(void)
{
    build(); VF_ASSUME(n >= 2); int w; VF_ASSUME(1 <= w && w < VF_N && w < n); int r; VF_ASSUME(r >= 0 && r < 1000000); int max0 = glob.max_xstreams;
    ABT_bool ok = xstream_change_rank(&glob, &xs[w], r);
    VF_ASSERT(!lk_held && n_acq == n_rel, "lock released on every path");
    int len; ABTI_xstream *m[VF_N + 2]; int wf = well_formed(&len, NULL, m);
    VF_ASSERT(wf, "list stays well formed (sorted, distinct, links consistent)"); VF_ASSERT(len == n, "all live streams stay listed"); VF_ASSERT(glob.num_xstreams == n, "count unchanged");
    if (r == rk[w]) VF_ASSERT(ok == ABT_TRUE && xs[w].rank == r, "changing to the own rank is a no-op success");
    else if (rank_used(r)) { VF_ASSERT(ok == ABT_FALSE && xs[w].rank == rk[w] && glob.max_xstreams == max0, "a rank held by another live stream is refused and nothing changes"); }
    else VF_ASSERT(ok == ABT_TRUE && xs[w].rank == r, "a free rank is granted");
    for (int i = 0; i < VF_N; i++) if (i < n) { VF_ASSERT(in_list(&xs[i]), "every live stream stays in the rank list (its rank stays reserved)"); if (i != w) VF_ASSERT(xs[i].rank == rk[i], "other ranks untouched"); }
    VF_REACH("change_rank"); VF_COVER(ok == ABT_FALSE && n == VF_N, "refused"); VF_COVER(ok == ABT_TRUE && r != rk[w] && n == VF_N && w == 1 && r > rk[2], "middle stream moved to the end");
}
void h_return_rank(void)
{
    build(); VF_ASSUME(n >= 1); int w; VF_ASSUME(0 <= w && w < VF_N && w < n && (w >= 1 || n == 1)); /* the primary goes last */
    xstream_return_rank(&glob, &xs[w]);
    int len; ABTI_xstream *m[VF_N + 2]; int wf = well_formed(&len, NULL, m);
    VF_ASSERT(!lk_held && n_acq == 1 && n_rel == 1 && wf && len == n - 1 && glob.num_xstreams == n - 1 && !in_list(&xs[w]), "a freed stream's rank becomes reusable: removed under the lock, count - 1");
    for (int i = 0; i < VF_N; i++) if (i < n && i != w) VF_ASSERT(in_list(&xs[i]) && xs[i].rank == rk[i], "the others stay");
    VF_REACH("return_rank");
}

/* ---- unlinking a stream from a rank list of ANY length (loop-free): window (predecessor, stream, successor) ---- */
void h_rank_remove_window(void)
{
    static ABTI_xstream P, X, S; { ABTI_xstream a, b, c; P = a; X = b; S = c; } ABTI_xstream P0, S0;
    int has_pred, has_succ; ABTI_xstream *far_head, *pp, *sn; VF_ASSUME(far_head != &X && far_head != NULL && pp != &X && sn != &X); /* list nodes are distinct */
    lk_held = 0; n_acq = n_rel = 0;
    X.p_prev = has_pred ? &P : NULL; X.p_next = has_succ ? &S : NULL; P.p_next = &X; P.p_prev = pp; S.p_prev = &X; S.p_next = sn;
    VF_ASSUME(P.rank >= 0 && P.rank < X.rank && X.rank < S.rank); /* sorted, strictly increasing */
    glob.p_xstream_head = has_pred ? ((far_head == &S) ? &P : far_head) : &X; ABTI_xstream *head0 = glob.p_xstream_head;
    { int m; VF_ASSUME(m >= 1 && m < 1000000); glob.num_xstreams = m; } int num0 = glob.num_xstreams; P0 = P; S0 = S;
    xstream_return_rank(&glob, &X);
    VF_ASSERT(!lk_held && n_acq == 1 && n_rel == 1, "the stream-list lock is taken and released exactly once");
    VF_ASSERT(glob.num_xstreams == num0 - 1, "one stream fewer");
    VF_ASSERT(has_pred ? (P.p_next == (has_succ ? &S : NULL) && glob.p_xstream_head == head0) : glob.p_xstream_head == (has_succ ? &S : NULL), "the predecessor (or the list head) leads to the successor: the list is R without this stream, order kept");
    if (has_succ) VF_ASSERT(S.p_prev == (has_pred ? &P : NULL), "the successor's back link names the predecessor (NULL for a new head)");
    VF_ASSERT(P.rank == P0.rank && S.rank == S0.rank && P.p_prev == pp && S.p_next == sn && (has_succ || (S.p_prev == S0.p_prev)) && (has_pred || P.p_next == P0.p_next), "neighbours keep their ranks and their other links: ranks stay sorted and distinct");
    VF_REACH("rank remove window"); VF_COVER(has_pred && has_succ, "middle"); VF_COVER(!has_pred && has_succ, "head"); VF_COVER(has_pred && !has_succ, "tail"); VF_COVER(!has_pred && !has_succ, "only stream");
}
