/* C17: stream.c -- ABT_xstream_revive (a joined stream can be revived and joined
 * again), ABT_xstream_set_rank argument rules. */
#include "vf.h"
#include "abti.h"
unsigned vf_clock, vf_revives, vf_t_revive, vf_ctx_revives, vf_t_ctx_revive, vf_t_state; const void *vf_revive_thread, *vf_revive_pool; void (*vf_revive_f)(void *); void *vf_revive_arg;
int ABTI_thread_revive(ABTI_global *g, ABTI_local *l, ABTI_pool *p, void (*f)(void *), void *arg, ABTI_thread *t) { vf_revives++; vf_clock++; vf_t_revive = vf_clock; vf_revive_thread = t; vf_revive_pool = p; vf_revive_f = f; vf_revive_arg = arg; return ABT_SUCCESS; }
static ABTI_xstream x;
void ABTD_xstream_context_revive(ABTD_xstream_context *c) { vf_ctx_revives++; vf_clock++; vf_t_ctx_revive = vf_clock; __CPROVER_assert(x.state.val == ABT_XSTREAM_STATE_RUNNING, "the stream is marked RUNNING before its native thread is released"); }
static unsigned n_change; static int change_ok; static int change_rank_arg;
#include <stream.c>
ABTI_global *gp_ABTI_global; static ABTI_global glob; static ABTI_sched ms; static ABTI_ythread msy; static ABTI_pool rootp; static void sfunc(void *a) {} static int sarg;
void h_xstream_revive(void)
{
    gp_ABTI_global = &glob; lp_ABTI_local = NULL; x.p_main_sched = &ms; ms.p_ythread = &msy; x.p_root_pool = &rootp; msy.thread.f_thread = sfunc; msy.thread.p_arg = &sarg;
    { int st; msy.thread.state.val = st; uint32_t rq; ms.request.val = rq; int xst; x.state.val = xst; } vf_revives = 0; vf_ctx_revives = 0; vf_clock = 1;
    int st0 = msy.thread.state.val; uint32_t rq0 = ms.request.val; int xst0 = x.state.val;
    int r = ABT_xstream_revive((ABT_xstream)&x);
    if (st0 != ABT_THREAD_STATE_TERMINATED) VF_ASSERT(r == ABT_ERR_INV_XSTREAM && vf_revives == 0 && vf_ctx_revives == 0 && ms.request.val == rq0 && x.state.val == xst0, "a stream whose main scheduler has not terminated cannot be revived; nothing changes");
    else {
        VF_ASSERT(r == ABT_SUCCESS && ms.request.val == 0, "the main scheduler's request word (finish/exit of the previous life) is cleared: the revived stream keeps running until it is joined again");
        VF_ASSERT(vf_revives == 1 && vf_revive_thread == &msy.thread && vf_revive_pool == &rootp && vf_revive_f == sfunc && vf_revive_arg == &sarg, "the main-scheduler ULT is revived once into the root pool with its own function and argument");
        VF_ASSERT(x.state.val == ABT_XSTREAM_STATE_RUNNING && vf_ctx_revives == 1 && vf_t_revive < vf_t_ctx_revive, "stream RUNNING, then the native thread is released exactly once");
    }
    VF_ASSERT(ABT_xstream_revive(ABT_XSTREAM_NULL) == ABT_ERR_INV_XSTREAM, "NULL handle");
    VF_REACH("xstream_revive"); VF_COVER(r == ABT_SUCCESS, "revived");
}
void h_xstream_set_rank_args(void)
{
    gp_ABTI_global = &glob; glob.set_affinity = ABT_FALSE; { int ty; x.type = ty ? ABTI_XSTREAM_TYPE_SECONDARY : ABTI_XSTREAM_TYPE_PRIMARY; } int rank; int r0 = x.rank;
    glob.p_xstream_head = &x; x.p_next = NULL; x.p_prev = NULL; glob.num_xstreams = 1; VF_ASSUME(r0 >= 0 && r0 < 1000 && rank < 1000); glob.max_xstreams = 2000;
    int r = ABT_xstream_set_rank((ABT_xstream)&x, rank);
    if (x.type == ABTI_XSTREAM_TYPE_PRIMARY) VF_ASSERT(r == ABT_ERR_INV_XSTREAM && x.rank == r0, "the primary stream's rank cannot be changed");
    else if (rank < 0) VF_ASSERT(r == ABT_ERR_INV_XSTREAM_RANK && x.rank == r0, "a negative rank is rejected");
    else VF_ASSERT(r == ABT_SUCCESS && x.rank == rank, "a free non-negative rank is granted");
    int n; VF_ASSERT(ABT_xstream_get_num(&n) == ABT_SUCCESS && n == 1, "ABT_xstream_get_num = number of live streams");
    VF_REACH("set_rank args");
}
