/* C17/C18/C06 (bounded: <= 2 spurious wake-ups per wait): arch/abtd_stream.c --
 * the native-thread state machine of an execution stream under the monitor of
 * state_lock, with a pthread model that lets THE OTHER SIDE change the state
 * while the caller waits on the condition variable. */
#include "vf.h"
#include "abti.h"
#include <pthread.h>
static ABTD_xstream_context ctx;
static int held; static unsigned n_lock, n_unlock, n_signal, n_wait, n_pjoin, n_cdestroy, n_mdestroy, n_minit, n_cinit, n_pcreate, clk, t_signal, t_pjoin, t_cdestroy, t_mdestroy;
static int fail_minit, fail_cinit, fail_pcreate; static int role; /* 1: caller is a joiner, 2: caller is the native thread */
int pthread_mutex_lock(pthread_mutex_t *m) { VF_ASSERT(!held && m == &ctx.state_lock, "state_lock, not held"); held = 1; n_lock++; return 0; }
int pthread_mutex_unlock(pthread_mutex_t *m) { VF_ASSERT(held && m == &ctx.state_lock, "unlocks the lock it holds"); held = 0; n_unlock++; return 0; }
int pthread_cond_signal(pthread_cond_t *c) { VF_ASSERT(held && c == &ctx.state_cond, "state changes are signalled under state_lock"); n_signal++; t_signal = ++clk; return 0; }
int pthread_cond_wait(pthread_cond_t *c, pthread_mutex_t *m)
{
    VF_ASSERT(held && c == &ctx.state_cond && m == &ctx.state_lock, "waits on state_cond with state_lock held");
    n_wait++; VF_ASSUME(n_wait <= 3); /* bound on spurious wake-ups */
    int ch; /* the other side acts while we sleep (or the wake-up is spurious) */
    if (ch && role == 1 && ctx.state == ABTD_XSTREAM_CONTEXT_STATE_REQ_JOIN) ctx.state = ABTD_XSTREAM_CONTEXT_STATE_WAITING;      /* the stream's thread finished */
    if (ch && role == 2 && ctx.state == ABTD_XSTREAM_CONTEXT_STATE_WAITING) { int k; ctx.state = k ? ABTD_XSTREAM_CONTEXT_STATE_RUNNING : ABTD_XSTREAM_CONTEXT_STATE_REQ_TERMINATE; } /* revive / free */
    if (n_wait == 3) { if (role == 1) ctx.state = ABTD_XSTREAM_CONTEXT_STATE_WAITING; if (role == 2 && ctx.state == ABTD_XSTREAM_CONTEXT_STATE_WAITING) ctx.state = ABTD_XSTREAM_CONTEXT_STATE_REQ_TERMINATE; } /* fairness within the bound */
    return 0;
}
int pthread_join(pthread_t t, void **r) { n_pjoin++; t_pjoin = ++clk; return 0; }
int pthread_cond_destroy(pthread_cond_t *c) { n_cdestroy++; t_cdestroy = ++clk; return 0; }
int pthread_mutex_destroy(pthread_mutex_t *m) { n_mdestroy++; t_mdestroy = ++clk; return 0; }
int pthread_mutex_init(pthread_mutex_t *m, const pthread_mutexattr_t *a) { n_minit++; return fail_minit ? 11 : 0; }
int pthread_cond_init(pthread_cond_t *c, const pthread_condattr_t *a) { n_cinit++; return fail_cinit ? 11 : 0; }
int pthread_create(pthread_t *t, const pthread_attr_t *a, void *(*f)(void *), void *arg) { n_pcreate++; return fail_pcreate ? 11 : 0; }
#include "arch/abtd_stream.c"
static void reset(void) { held = 0; n_lock = n_unlock = n_signal = n_wait = n_pjoin = n_cdestroy = n_mdestroy = n_minit = n_cinit = n_pcreate = clk = 0; }

void h_context_join(void)
{
    reset(); role = 1; int st; ctx.state = st ? ABTD_XSTREAM_CONTEXT_STATE_RUNNING : ABTD_XSTREAM_CONTEXT_STATE_WAITING; int st0 = ctx.state;
    ABTD_xstream_context_join(&ctx);
    VF_ASSERT(ctx.state == ABTD_XSTREAM_CONTEXT_STATE_WAITING && !held && n_lock == 1 && n_unlock == 1, "join returns only once the native thread is parked (WAITING); lock released");
    VF_ASSERT(st0 == ABTD_XSTREAM_CONTEXT_STATE_WAITING ? n_wait == 0 : n_wait >= 1, "an already parked thread is joined at once; a running one is waited for");
    VF_REACH("context_join"); VF_COVER(n_wait == 2, "spurious wake-up survived");
}
void h_context_revive_free(void)
{
    reset(); role = 0; int which; ctx.state = ABTD_XSTREAM_CONTEXT_STATE_WAITING;
    if (which) { ABTD_xstream_context_revive(&ctx); VF_ASSERT(ctx.state == ABTD_XSTREAM_CONTEXT_STATE_RUNNING && n_signal == 1 && !held && n_lock == 1 && n_unlock == 1, "revive: WAITING -> RUNNING and the parked thread is signalled, under the lock"); }
    else { int un; if (un) ctx.state = ABTD_XSTREAM_CONTEXT_STATE_UNINIT; ABTD_xstream_context_free(&ctx);
        if (un) VF_ASSERT(n_lock == 0 && n_pjoin == 0 && n_cdestroy == 0 && n_mdestroy == 0, "a context that was never created is left alone");
        else VF_ASSERT(ctx.state == ABTD_XSTREAM_CONTEXT_STATE_REQ_TERMINATE && n_signal == 1 && n_pjoin == 1 && n_cdestroy == 1 && n_mdestroy == 1 && t_signal < t_pjoin && t_pjoin < t_cdestroy && t_pjoin < t_mdestroy && !held, "free: request termination + signal, THEN join the native thread once, THEN destroy its cond and mutex once each"); }
    VF_REACH("revive/free");
}
static unsigned n_body; static void *body(void *a) { n_body++; return NULL; }
void h_thread_func(void)
{
    reset(); role = 2; n_body = 0; ctx.thread_f = body; ctx.state = ABTD_XSTREAM_CONTEXT_STATE_RUNNING; int jr; /* a joiner may already be waiting when the body returns */
    (void)jr;
    xstream_context_thread_func(&ctx);
    VF_ASSERT(ctx.state == ABTD_XSTREAM_CONTEXT_STATE_REQ_TERMINATE && !held && n_lock == n_unlock, "the native thread ends only on a termination request; lock released");
    VF_ASSERT(n_body >= 1 && n_body == n_lock, "the stream body runs once per (re)start: once initially and once after every revive");
    VF_REACH("thread_func"); VF_COVER(n_body == 2, "revived once");
}
void h_context_create(void)
{
    reset(); { int a, b, c; fail_minit = !!a; fail_cinit = !!b; fail_pcreate = !!c; }
    int r = ABTD_xstream_context_create(body, NULL, &ctx);
    int failed = fail_minit || (!fail_minit && fail_cinit) || (!fail_minit && !fail_cinit && fail_pcreate);
    if (!failed) VF_ASSERT(r == ABT_SUCCESS && ctx.state == ABTD_XSTREAM_CONTEXT_STATE_RUNNING && n_pcreate == 1 && n_cdestroy == 0 && n_mdestroy == 0, "success: RUNNING, one native thread");
    else { VF_ASSERT(r == ABT_ERR_SYS && ctx.state == ABTD_XSTREAM_CONTEXT_STATE_UNINIT, "an OS-resource failure is reported and the context marked never-created (free will leave it alone)");
           VF_ASSERT(n_mdestroy == (fail_minit ? 0 : 1) && n_cdestroy == ((!fail_minit && !fail_cinit) ? 1 : 0), "exactly the resources obtained so far are released"); }
    VF_REACH("context_create"); VF_COVER(failed && fail_pcreate && !fail_minit && !fail_cinit, "thread creation failed");
}
